"""C10 - truth trajectories depend only on dynamics and initial states (reduced: non-interference by frame
conditions + ordering + split-run step arithmetic)."""
from __future__ import annotations

import datetime as _dt
import hashlib
import math
import sys
import types
from fractions import Fraction

import numpy as np
import z3

from symx import fp
from symx.core import SReal, explore, mval, rv, solve
from symx.ext_c10 import free_choice, free_flag, hybrid_time, sym_julian_date
from symx.runner import Ob
from symx.stubs import shadow

ID = "C10"
TECHNIQUE = ("the real Scenario.__init__/propagateTo/stepForward/saveDatabaseOutput, JobExecutor.enqueueJob/join, the generateSubmission/processResults of the propagate, "
             "predict, update, reward and task-execution registrations, CentralizedTaskingEngine.assess, the real TargetAgent/SensingAgent/EstimateAgent classes (built by their "
             "real constructors, truth agents through write-recording subclasses), getRelevantEvents/ScheduledImpulseEvent.handleEvent and the event-queue pruning are executed "
             "with ray replaced by a stub whose completion order is a solver variable per ray.wait call, the output database by a recording stub that evaluates the real queries' "
             "where-clauses, and the remote workers by deterministic symbolic functions (asyncPropagate = uninterpreted function of the submission's content; estimate/tasking "
             "payloads = fresh symbolic reals).  Which agents exist, truth_simulation_only, output cadence, how the run is split, owner/time/planned-flag of a maneuver event and "
             "every completion order are solver variables; on every feasible path z3 proves (unsat) that every truth agent's trajectory, propagation submissions and TruthEphemeris "
             "rows are the same terms as in a solo truth-only run of that agent, that truth state changes only while its own propagation result is applied and is final before any "
             "estimate/tasking job is submitted, and that no estimate/tasking code path writes a truth agent.  Split runs: the real propagateTo on symbolic IEEE doubles (symx.fp) "
             "requests n(a) + n(a->b) = n(b) steps for every on-grid split point.  Off-grid stops: in the frame-split*-offgrid families the Julian date handed to every intermediate "
             "propagateTo call is a symbolic IEEE double anywhere within 0.45 s of the step boundary it rounds to and the Julian date of the maneuver's event row is a symbolic double "
             "anywhere in the run (real JulianDate/ScenarioTime method bodies on symbolic doubles next to the concrete clock, symx.ext_c10.hybrid_time); the same equalities with the "
             "single-call solo run are proved on every path.  Output cadence: (i) family steps3-cadence runs the real propagateTo/stepForward with output steps that are not multiples of "
             "the physics step; (ii) cadence-config runs the Python bodies of TimeConfig's own validators, ScenarioClock.fromConfig and Scenario.physics_time_step with output_step_sec "
             "= two solver integers and proves that validated physics step, start/stop, clock step and time span do not depend on them")
FLOAT_SEMANTICS = ("frame obligations: exact (payloads are opaque reals / uninterpreted functions, times are concrete doubles handled by the real code); "
                   "split-run obligations: IEEE-754 double, relaxed rounding (sound over-approximation); off-grid families: the stop and event Julian dates are IEEE-754 doubles in "
                   "bit-exact semantics (symx.fp exact mode; models are doubles and are replayed bit for bit); cadence-config: exact integers")
ENCODED = [
    "resonaate.scenario.scenario_builder:ScenarioBuilder._initTargets", "resonaate.scenario.scenario_builder:ScenarioBuilder._initEstimates", "resonaate.dynamics:dynamicsFactory",
    "resonaate.scenario.scenario:Scenario.removeTarget",
    "resonaate.scenario.scenario:Scenario.__init__", "resonaate.scenario.scenario:Scenario.propagateTo", "resonaate.scenario.scenario:Scenario.stepForward",
    "resonaate.scenario.scenario:Scenario.saveDatabaseOutput", "resonaate.scenario.clock:ScenarioClock.ticToc",
    "resonaate.parallel:JobExecutor.enqueueJob", "resonaate.parallel:JobExecutor.join",
    "resonaate.parallel.agent_propagation:PropagateRegistration.generateSubmission", "resonaate.parallel.agent_propagation:PropagateRegistration.processResults",
    "resonaate.parallel.estimate_prediction:EstPredictRegistration.generateSubmission", "resonaate.parallel.estimate_prediction:EstPredictRegistration.processResults",
    "resonaate.parallel.estimate_update:EstUpdateRegistration.generateSubmission", "resonaate.parallel.estimate_update:EstUpdateRegistration.processResults",
    "resonaate.parallel.tasking_reward_generation:TaskingRewardRegistration.processResults",
    "resonaate.parallel.tasking_execution:TaskExecutionRegistration.processResults",
    "resonaate.tasking.engine.centralized_engine:CentralizedTaskingEngine.assess", "resonaate.tasking.engine.engine_base:TaskingEngine.updateFromAsyncTaskExecution",
    "resonaate.agents.agent_base:Agent.__init__", "resonaate.agents.agent_base:Agent.appendPropagateEvent", "resonaate.agents.agent_base:Agent.prunePropagateEvents",
    "resonaate.agents.target_agent:TargetAgent.__init__", "resonaate.agents.target_agent:TargetAgent.eci_state", "resonaate.agents.target_agent:TargetAgent.getCurrentEphemeris",
    "resonaate.agents.sensing_agent:SensingAgent.__init__", "resonaate.agents.sensing_agent:SensingAgent.eci_state", "resonaate.agents.sensing_agent:SensingAgent.updateInfo",
    "resonaate.agents.sensing_agent:SensingAgent.getCurrentEphemeris", "resonaate.agents.estimate_agent:EstimateAgent._finalizeUpdate",
    "resonaate.data.events:getRelevantEvents", "resonaate.data.events:handleRelevantEvents", "resonaate.data.events.scheduled_impulse:ScheduledImpulseEvent.handleEvent",
    "resonaate.physics.time.stardate:JulianDate.convertToScenarioTime", "resonaate.physics.time.stardate:JulianDate.__sub__", "resonaate.physics.time.stardate:ScenarioTime.__sub__",
    "resonaate.physics.time.stardate:ScenarioTime.__lt__", "resonaate.physics.maths:fpe_equals",
    "resonaate.scenario.config.time_config:TimeConfig.stop_after_start", "resonaate.scenario.config.time_config:TimeConfig.ignore_tzinfo",
    "resonaate.scenario.clock:ScenarioClock.fromConfig", "resonaate.scenario.scenario:Scenario.physics_time_step",
]
BOUNDS = {
    "agents": "targets 11 (always) and 12, sensors 21 and 22; which of 12/21/22 exist is a solver variable per obligation family (<= 4 truth agents; <= 3 in multi-step families)",
    "steps": "quick: 1 step (whole estimate/tasking pipeline, <= 2 targets + 1 sensor) and 2 steps; thorough adds 1 step with 4 agents, 3 steps, and 2 full-pipeline steps with 2 targets + 1 sensor; "
             "dt = 60 s, start 2021-03-30T16:00:00, concrete whole-second times",
    "orders": "every completion order of every batch (propagate, predict, reward, task execution, update) in every family except step1-ids (fixed order, result ids symbolic)",
    "configuration": "truth_simulation_only in {True, False}; output cadence in {dt, 2 dt} (3 dt in the 3-step family); run in one call or split into every composition of the step count; "
                     "one impulsive ECI maneuver event whose owner, step and planned flag are chosen by the solver; one station keeper token on target 11",
    "payloads": "initial states (disjoint bands per agent and component), event thrust, predicted/updated estimates, boresights: symbolic reals in bands disjoint between kinds of payload",
    "result ids (family step1-ids)": "estimate_id / target_id / agent_id carried by reward, task-execution, update and propagation results: any id of the same kind",
    "off-grid stops (families split2-offgrid, split3-offgrid; thorough: split2-offgrid-sensor)": "every intermediate propagateTo target = any double within 0.45 s of the step boundary it "
                        "rounds to; the maneuver's Julian date = any double from the start epoch to one step past the end; 2 steps split 1+1 and 3 steps in every composition (target alone, "
                        "truth-only, planned flag symbolic in the 3-step family); thorough: 2 steps with a sensor, truth_only and output cadence symbolic, every completion order; "
                        "start 2021-03-30T16:00:00, dt = 60 s; bit-exact double semantics (no rounding occurs in these terms: every operation is exact on the 2^-31 d grid)",
    "output cadence, stepping (family steps3-cadence)": "output step / physics step in {1, 2, 3, 3/2, 3/4, 5/2}; 3 steps in every composition, maneuver in any step; target alone, truth-only",
    "output cadence, configuration (cadence-config)": "physics_step_sec in {60, 300} (quick) + {2, 7, 45, 3080} (thorough); output_step_sec of the two configurations: any integers in 2..86400 "
                                                      "(Field(gt=1) is the documented precondition); start/stop 2021-03-30T16:00/17:00",
    "split arithmetic": "start date 1901..2099, whole-second targets up to 30 days, dt in {60, 300} (quick) + {1, 7, 3080} (thorough), split point any positive multiple of dt, both legs >= dt; "
                        "loops unrolled for <= 3 steps in total",
}
OUTSIDE = [
    "bit-for-bit equality of two whole runs of the numerical integrator (determinism of scipy solve_ivp and of Dynamics.propagate is the ASSUMED worker contract, not a result)",
    "worker isolation, pickling and object-store copy semantics of Ray (ray.put is identity here: a worker mutating a fetched truth agent would be visible in the driver only without Ray)",
    "the inside of asyncPropagate/asyncPredict/asyncUpdateEstimate/asyncCalculateReward/asyncExecuteTasking (C02, C06, C15)",
    "imported (non-realtime) agents: EphemerisImporter / importState path (C19)", "agent addition/removal events, finite burns/maneuvers, station-keeping routines' own logic, sensor time-bias events",
    "whether an event reaches its owner at the right step at all (C01/C15): the relation proved here is between runs, a defect that drops an event in every configuration alike is invisible to it",
    "more than 4 truth agents / 3 steps; decentralised or multiple tasking engines; decisions other than all-visible; debugging.ThreeSigmaObs",
    "noise/filter/reward settings enter only as opaque payloads: that they cannot reach truth is shown by the frame conditions, not by running different filters",
    "split runs whose intermediate stop is farther than 0.45 s from a step boundary (numpy.around rounds half to even: a target of 2.5 s and one of 1.5 s after a 1 s leg request 2 and 1+2 "
    "steps); off-grid stops with a symbolic start date or dt other than 60 s; first leg shorter than one step (ValueError by design)",
    "configuration validators other than TimeConfig's own (ScenarioConfig-level cross-field validators), pydantic wrap / v1-style validators (reported as harness error, never skipped); "
    "physics steps other than the listed ones; what the output cadence does to *estimate* or observation rows",
    "finite burns / finite maneuvers starting in the gap between an off-grid stop and its boundary (same event query; their handling is C15)",
]
ASSUMPTIONS = [
    "ray.wait(refs) returns exactly one finished reference chosen by the solver among the pending ones; ray.get returns the job's result; ray.put is identity",
    "asyncPropagate(submission) is a deterministic function of (agent_id, dynamics object, init_time, final_time, init_eci, station-keeping list incl. the reductions epoch, scheduled-event list, "
    "error flags): final_eci[i] = component_i(propagate(fields)) with uninterpreted component_i/propagate; result.agent_id/final_time/prev_state are copied from the submission as in the real wrapper",
    "asyncPredict/asyncUpdateEstimate/asyncCalculateReward/asyncExecuteTasking return fresh symbolic payloads (all sensors visible, every tasked pair observed, one miss record per job)",
    "output database = recording stub; event queries are answered by evaluating the real Query's where-clause on the event rows; Epoch lookups return nothing",
    "eci2ecef/ecef2lla (derived Earth-fixed states) and ReductionParams.build are opaque tokens in the agent modules (C04)", "Logger, EventStack.logAndFlushEvents stubbed",
    "Dynamics, Sensor, KalmanFilter, StationKeeper instances are token subclasses (never executed); scenario config is a permissive namespace with the fields the code reads",
    "schedule/existence choices are fresh variables that occur in no other constraint: the exploration forks over them without a feasibility query (symx.ext_c10); every explored path's "
    "constraints are checked satisfiable before its proof is counted",
    "payload bands are preconditions of the final queries only (no branch depends on a payload)",
    "a counterexample is replayed in a fresh interpreter on plain floats with the model's choices and payload values and a fixed deterministic float function as the worker",
    "split arithmetic: jd_target - jd_start = D/86400 within 2^-30 days (what C05's jd-accuracy obligations establish); stepForward replaced by a stub that ticks the real clock; after a leg "
    "that requested n steps the clock reads n*dt (integer-valued doubles, exact; the unrolled split-loop obligation runs the real loop)",
    "split arithmetic worlds: the Scenario (no agents, null database) is built by the real constructor; the clock's calendar start is any whole second of 1901..2099 (not tied to js) and "
    "datetimeToJulianDate in the scenario module is cut to its weakest contract (some double of the supported range): the step arithmetic may not depend on either",
    "off-grid families: JulianDate/ScenarioTime are shadowed in stardate, scenario and scheduled_impulse by dispatching classes (symbolic double -> the real class body re-based on SFloat, "
    "anything else -> the real class), float/around/int by their symx.fp counterparts; datetime/timedelta and every clock epoch stay concrete",
    "cadence-config: the instance is built with model_construct and the model's own Python validators (from __pydantic_decorators__: before-model, field, after-model, in pydantic's order) are "
    "called on it; declared Field bounds (gt=1) are assumed of the inputs and enforced, as pydantic does, on what the before-validators hand on; a configuration rejected by a validator (ValueError) has no scenario and is not related to anything; math.gcd, if the module uses "
    "it, is replaced by an exact symbolic gcd (largest divisor of the concrete argument dividing the symbolic one); ScenarioClock.fromConfig runs on a subclass whose constructor records its arguments",
]
LEVEL_TEXT = ("Bounded symbolic non-interference: for every combination of existing agents, truth-only flag, output cadence, split, event owner and every completion order of every "
              "batch (solver-enumerated paths of the real stepForward), z3 proves that each truth agent's submissions, states and output rows are the same terms as in its solo "
              "truth-only run and that truth is written only by its own propagation result; the split-run step count is proved over all dates/durations in double semantics; "
              "intermediate stops requested off the step grid (within 0.45 s) with a maneuver at any instant, and output cadences that are not multiples of the physics step, give the same "
              "trajectories; the validated time configuration and the clock built from it do not depend on output_step_sec (all integers 2..86400).")
LEVEL_NOTE = ("Reduced claim: frame conditions + ordering + split arithmetic under a deterministic-worker contract; whole-trajectory bit equality through the integrator and Ray "
              "isolation are outside.  Small agent/step bounds.")

T0 = _dt.datetime(2021, 3, 30, 16, 0, 0)
DT = 60.0
NONPROP = ("predict", "reward", "exec", "update")


# =============================================================================================
# values: symbolic (solver variables) or concrete (replay)
# =============================================================================================
def _h(name):
    return int(hashlib.md5(name.encode()).hexdigest()[:8], 16) / float(0xFFFFFFFF)


class Vals:
    """Factory of inputs: solver variables in symbolic mode, plain Python values in replay mode."""

    def __init__(self, sym, given=None):
        self.sym = sym
        self.given = given or {"choices": {}, "reals": {}}
        self.reals, self.choices, self.used, self.floats = {}, {}, set(), {}

    def real(self, name, lo, hi):
        if name in self.reals:
            return self.reals[name][0] if self.sym else self.reals[name]
        if self.sym:
            x = SReal(z3.Real(name))  # its band is a precondition added to the final query (bands()); branching never depends on it
            self.reals[name] = (x, lo, hi)
            return x
        v = self.given["reals"].get(name)
        v = float(v) if v is not None and lo < float(v) < hi else lo + (hi - lo) * (0.05 + 0.9 * _h(name))
        self.reals[name] = v
        return v

    def vec(self, name, n, lo, hi):
        xs = [self.real(f"{name}_{i}", lo + i * (hi - lo) / n, lo + (i + 1) * (hi - lo) / n) for i in range(n)]
        return np.array(xs, dtype=object if self.sym else float)

    def jd(self, name, lo, hi, default):
        """A Julian date that is any double in [lo, hi] (symbolic double, bit-exact semantics); replay: the model's double."""
        if self.sym:
            if name not in self.floats:
                self.floats[name] = fp.fresh_float(name, Fraction(lo), Fraction(hi), -31)  # doubles in [2^21, 2^22): multiples of 2^-31
            return sym_julian_date(self.floats[name])
        from resonaate.physics.time.stardate import JulianDate

        v = (self.given.get("floats") or {}).get(name)
        v = float(v) if v is not None and lo <= float(v) <= hi else float(default)
        self.floats[name] = v
        return JulianDate(v)

    def choose(self, name, n):
        """An index 0..n-1 chosen by the solver (forks the exploration)."""
        if n <= 1:
            return 0
        if self.sym:
            v, _k = free_choice(name, n, self.used)
            self.choices[name] = ("int", v)
            return v
        v = int(self.given["choices"].get(name, 0))
        v = min(max(v, 0), n - 1)
        self.choices[name] = ("int", v)
        return v

    def flag(self, name):
        if self.sym:
            v = free_flag(name, self.used)
            self.choices[name] = ("bool", v)
            return v
        v = bool(self.given["choices"].get(name, False))
        self.choices[name] = ("bool", v)
        return v

    def bands(self):
        return [c for x, lo, hi in self.reals.values() for c in (x.t > rv(lo), x.t < rv(hi))]

    def inputs(self, model, family):
        ch = {}
        for name, (kind, _v) in self.choices.items():
            ch[name] = mval(model, z3.Int(name)) if kind == "int" else bool(mval(model, z3.Bool(name)))
        return {"family": family, "choices": ch, "reals": {n: float(mval(model, x.t)) for n, (x, _lo, _hi) in self.reals.items()},
                "floats": {n: fp.mfloat(model, x) for n, x in self.floats.items()}}


def _fp_or(sym_fn, real_fn):
    return lambda x, *a: sym_fn(x, *a) if isinstance(x, fp.SFloat) else real_fn(x, *a)


# rounding helpers a stepping routine may use, on symbolic doubles (shadowed in the scenario module next to around/int; concrete values keep the real function)
_ROUNDING = {"around": fp.fp_around, "int": fp.fp_int, "round": fp.fp_round, "floor": _fp_or(fp.fp_floor, np.floor), "rint": _fp_or(fp.fp_around, np.rint),
             "ceil": _fp_or(lambda x: -fp.fp_floor(-x), np.ceil), "float": fp.fp_float}

SYM = (SReal, fp.SFloat)  # symbolic scalars: exact reals (payloads) and symbolic doubles (instants)


def _tr(x):
    if isinstance(x, SYM):
        return x.t
    return rv(x)


def _num(x):
    """A scalar as the oracles see it: symbolic scalars stay symbolic, anything else becomes a plain float."""
    return x if isinstance(x, SYM) else float(x)


def _same(a, b):
    """Equality of two scalars: python bool when decidable syntactically / concretely, else a z3 formula."""
    if a is b:
        return True
    if isinstance(a, SYM) or isinstance(b, SYM):
        ta, tb = _tr(a), _tr(b)
        if ta.eq(tb):
            return True
        return ta == tb
    return bool(a == b)


def _same_seq(a, b):
    if a is b:
        return []
    a, b = list(a), list(b)
    if len(a) != len(b):
        return [False]
    out = []
    for x, y in zip(a, b):
        if isinstance(x, (tuple, list)) or isinstance(y, (tuple, list)):
            if not (isinstance(x, (tuple, list)) and isinstance(y, (tuple, list))):
                out.append(False)
            else:
                out += _same_seq(x, y)
        else:
            out.append(_same(x, y))
    return out


def _ident(a, b):
    """Syntactic identity (used to count state changes along the trace)."""
    if a is b:
        return True
    a, b = list(a), list(b)
    if len(a) != len(b):
        return False
    for x, y in zip(a, b):
        if x is y:
            continue
        if isinstance(x, (tuple, list)):
            if not (isinstance(y, (tuple, list)) and _ident(x, y)):
                return False
        elif isinstance(x, SYM) or isinstance(y, SYM):
            if not _tr(x).eq(_tr(y)):
                return False
        elif x != y:
            return False
    return True


# ---- the deterministic worker -----------------------------------------------------------------
_UF = {}


def _uf(name, n):
    key = (name, n)
    if key not in _UF:
        _UF[key] = z3.Function(f"{name}_{n}", *([z3.RealSort()] * (n + 1)))
    return _UF[key]


def _mixc(h, a):
    return math.fmod(h * 1.6180339887 + float(a) * 0.5772156649 + 0.1234567, 997.0)


def fold(sym, name, items, seed=0.0):
    """Order-sensitive digest of a variable-length list of scalars (uninterpreted chain / float hash)."""
    if sym:
        h = rv(seed)
        f = _uf(name, 2)
        for a in items:
            h = f(h, _tr(a))
        return SReal(h)
    h = float(seed)
    for a in items:
        h = _mixc(h, a)
    return h


_DIGEST = {}


def worker(sym, i, args):
    """Component i of asyncPropagate's final state as a deterministic function of the submission's content."""
    if sym:
        key = tuple(_tr(a).get_id() for a in args)
        if _DIGEST.get("key") != key:  # one digest per submission, shared by the six components
            _DIGEST.update(key=key, keep=[_tr(a) for a in args], h=_uf("propagate", len(args))(*[_tr(a) for a in args]))
        return SReal(_uf(f"component{i}", 1)(_DIGEST["h"]))
    h = 1.0
    for a in args:
        h = _mixc(h, a)
    return _mixc(h, 10.0 + i) + 0.001 * i


# =============================================================================================
# trace, stubs
# =============================================================================================
_ACTIVE = [None]


class Trace:
    def __init__(self):
        self.ev = []
        self.agents = {}  # id -> truth agent (recording subclass instance)
        self.live = False

    def add(self, kind, **kw):
        e = {"kind": kind, "snap": self.snapshot() if self.live else None}
        e.update(kw)
        self.ev.append(e)
        return e

    def snapshot(self):
        return {i: snap_agent(a) for i, a in self.agents.items()}

    def write(self, agent, attr):
        if not self.live:
            return
        regkind, regowner, fn = _callsite()
        self.ev.append({"kind": "write", "agent": agent.simulation_id, "attr": attr, "regkind": regkind, "regowner": regowner, "fn": fn, "snap": None})


def _callsite():
    """Who is writing: the innermost resonaate frame, and the Registration (kind, registrant id) whose method is on the stack."""
    from resonaate.parallel import Registration

    f = sys._getframe(3)
    fn, regkind, regowner, n = None, "", None, 0
    while f is not None and n < 40:
        code = f.f_code
        if "resonaate" in code.co_filename and "/verif/" not in code.co_filename:
            slf = f.f_locals.get("self")
            if fn is None:
                fn = f"{type(slf).__name__ + '.' if slf is not None else ''}{code.co_name}"
            if isinstance(slf, Registration) and not regkind:
                regkind = [c.__name__ for c in type(slf).__mro__ if c.__module__.startswith("resonaate.")][0]
                reg = getattr(slf, "_registrant", None)
                regowner = getattr(reg, "simulation_id", None) if reg is not None else None
                regkind = f"{regkind}.{code.co_name}"
        f = f.f_back
        n += 1
    return regkind, regowner, fn or "?"


def snap_agent(a):
    """The truth observables of an agent, read through its public interface."""
    prev = tuple(a.previous_state) if hasattr(a, "previous_state") else ()
    return {"time": float(a.time), "eci": tuple(a.eci_state), "prev": prev, "dyn": getattr(a.dynamics, "tok", id(a.dynamics)),
            "sk": tuple(getattr(k, "tok", id(k)) for k in a.station_keeping), "ev": tuple(event_summary(e) for e in a.propagate_event_queue),
            "dt": float(a.dt_step), "realtime": a.realtime, "init": tuple(a.initial_state)}


def event_summary(e):
    return (type(e).__name__, _num(e.time), tuple(e.thrust), e.agent_id)


def sub_summary(sub):
    """Everything a worker can read from a PropagateSubmission."""
    return {"agent_id": sub.agent_id, "dyn": getattr(sub.dynamics, "tok", id(sub.dynamics)), "t0": float(sub.init_time), "t1": float(sub.final_time),
            "x": tuple(sub.init_eci), "sk": tuple((getattr(k, "tok", id(k)), getattr(k, "reductions", None)) for k in (sub.station_keeping or [])),
            "ev": tuple(event_summary(e) for e in (sub.scheduled_events or [])), "flags": int(getattr(sub.error_flags, "value", 0))}


def sub_args(sym, s):
    sk = fold(sym, "sk", [x for tok, red in s["sk"] for x in (tok, red if red is not None else -1.0)])
    ev = fold(sym, "ev", [x for (_n, t, thr, aid) in s["ev"] for x in (t, *thr, aid)], seed=float(len(s["ev"])))
    return [s["agent_id"], s["dyn"], s["t0"], s["t1"], *s["x"], sk, ev, s["flags"]]


def sub_same(a, b):
    out = [a["agent_id"] == b["agent_id"], a["dyn"] == b["dyn"], a["t0"] == b["t0"], a["t1"] == b["t1"], a["flags"] == b["flags"]]
    out += _same_seq(a["x"], b["x"])
    out += _same_seq(a["sk"], b["sk"])
    out += _same_seq([(n, t, thr, aid) for (n, t, thr, aid) in a["ev"]], [(n, t, thr, aid) for (n, t, thr, aid) in b["ev"]])
    return out


class RayStub:
    def __init__(self, V, trace, tag):
        self.V, self.trace, self.tag = V, trace, tag
        self.results, self.kind_of = {}, {}
        self.nwait, self.fixed = 0, False

    def wait(self, refs, **kw):
        refs = list(refs)
        self.nwait += 1
        i = 0 if self.fixed else self.V.choose(f"{self.tag}finish_{self.nwait}", len(refs))
        self.trace.add("wait", ref=refs[i], job=self.kind_of.get(refs[i]), pending=len(refs), pick=i)
        return [refs[i]], refs[:i] + refs[i + 1:]

    def get(self, ref):
        if isinstance(ref, list):
            return [self.get(r) for r in ref]
        if isinstance(ref, str) and ref in self.results:
            self.trace.add("get", ref=ref, job=self.kind_of.get(ref))
            return self.results[ref]
        return ref

    def put(self, x):
        self.trace.add("put", obj=getattr(x, "simulation_id", None))
        return x


class Remote:
    def __init__(self, rayst, kind, fn):
        self.rayst, self.kind, self.fn, self.n = rayst, kind, fn, 0

    def remote(self, submission):
        self.n += 1
        ref = f"{self.rayst.tag}{self.kind}-job{self.n}"
        e = self.rayst.trace.add(f"remote:{self.kind}", ref=ref)
        self.rayst.kind_of[ref] = self.kind
        self.rayst.results[ref] = self.fn(submission, e)
        return ref


class Log:
    def __init__(self, trace):
        self.trace = trace

    def _m(self, *a, **k):
        self.trace.ev.append({"kind": "log", "snap": None})

    info = debug = warning = error = _m


class Duck:
    """Permissive configuration node: unknown fields read as falsy nodes."""

    def __init__(self, **kw):
        self.__dict__.update(kw)

    def __getattr__(self, k):
        if k.startswith("__"):
            raise AttributeError(k)
        return Duck()

    def __bool__(self):
        return False

    def __repr__(self):
        return "<cfg>"


class Tok:
    def __init__(self, kind, target_id, sensor_id):
        self.kind, self.target_id, self.sensor_id = kind, target_id, sensor_id

    def __bool__(self):
        return True

    def __repr__(self):
        return f"{self.kind}(t{self.target_id},s{self.sensor_id})"


class DBStub:
    """Output database: records what is saved; answers event queries by evaluating the real query's where-clause."""

    def __init__(self, trace, event_rows):
        self.trace, self.event_rows = trace, event_rows
        self.saved, self.saved_at, self.step_ref = [], [], None

    @staticmethod
    def _clauses(q):
        w = q.whereclause
        if w is None:
            return []
        return list(w.clauses) if hasattr(w, "clauses") else [w]

    def getData(self, query, multi=True):
        cl = self._clauses(query)
        tables = {getattr(getattr(c.left, "table", None), "name", None) for c in cl}
        self.trace.add("db:get", tables=sorted(str(t) for t in tables))
        if tables != {"events"}:
            return [] if multi else None
        out = []
        for row in self.event_rows:
            ok = True
            for c in cl:
                lhs, rhs, op = getattr(row, c.left.key), c.right.value, c.operator.__name__
                lhs = float(lhs) if isinstance(lhs, float) else lhs
                rhs = float(rhs) if isinstance(rhs, float) else rhs
                ok = ok and {"eq": lhs == rhs, "le": lhs <= rhs, "lt": lhs < rhs, "ge": lhs >= rhs, "gt": lhs > rhs}[op]
            if ok:
                out.append(row)
        return out

    def insertData(self, *rows):
        self.trace.add("db:insert")

    def bulkSave(self, rows):
        rows = list(rows)
        self.trace.add("db:save")
        self.saved.append(rows)
        self.saved_at.append(self.step_ref[0] if self.step_ref else None)


# =============================================================================================
# the world: a real Scenario with real agents, executors, registrations and tasking engine
# =============================================================================================
_CLS = {}


def _classes():
    if _CLS:
        return _CLS
    from resonaate.agents import sensing_agent as SA
    from resonaate.agents import target_agent as TA
    from resonaate.dynamics.dynamics_base import Dynamics
    from resonaate.dynamics.integration_events.station_keeping import StationKeeper
    from resonaate.estimation.kalman.kalman_filter import KalmanFilter
    from resonaate.sensors.sensor_base import Sensor

    def rec_setattr(self, k, v):
        tr = _ACTIVE[0]
        if tr is not None:
            tr.write(self, k)
        object.__setattr__(self, k, v)

    class RecTarget(TA.TargetAgent):
        __setattr__ = rec_setattr

    class RecSensor(SA.SensingAgent):
        __setattr__ = rec_setattr

    class Dyn(Dynamics):
        def __init__(self, tok):
            self.tok = tok

        def propagate(self, *a, **k):
            raise NotImplementedError("token dynamics")

    class Keeper(StationKeeper):
        def __init__(self, tok):
            self.tok = tok
            self.reductions = None

    for nm in getattr(Keeper, "__abstractmethods__", ()):
        setattr(Keeper, nm, lambda self, *a, **k: None)
    Keeper.__abstractmethods__ = frozenset()

    class Sen(Sensor):
        def __init__(self):
            self._host = None
            self.boresight = np.array([0.0, 0.0, 1.0])

        @classmethod
        def fromConfig(cls, *a, **k):
            raise NotImplementedError

        @property
        def measurement(self):
            return None

    class Flt(KalmanFilter):
        def __init__(self, dyn, est_x, tag):
            self.dynamics, self.est_x, self.est_p, self.tag = dyn, est_x, np.eye(6), tag
            self.source, self.maneuver_detected, self.time = "tok", False, 0.0

        @classmethod
        def fromConfig(cls, *a, **k):
            raise NotImplementedError

        def predict(self, *a, **k):
            raise NotImplementedError

        def forecast(self, *a, **k):
            raise NotImplementedError

        def update(self, *a, **k):
            raise NotImplementedError

    class Step:
        @classmethod
        def recordFilterStep(cls, **kw):
            return ("filter-step", kw.get("target_id"))

    _CLS.update(RecTarget=RecTarget, RecSensor=RecSensor, Dyn=Dyn, Keeper=Keeper, Sen=Sen, Flt=Flt, Step=Step, KalmanFilter=KalmanFilter)
    return _CLS


def _band(agent_id):
    return 100.0 * agent_id


def run_world(V, cfg, tag):
    """Build a real Scenario for cfg and run its legs.  Returns the record of everything that crossed the stubs."""
    import resonaate.parallel as P
    from resonaate.agents import estimate_agent as EA
    from resonaate.agents import sensing_agent as SA
    from resonaate.agents import target_agent as TA
    from resonaate.data.events import ScheduledImpulseEvent
    from resonaate.estimation.results import SeqFilterPredictResult
    from resonaate.parallel import agent_propagation as AP
    from resonaate.parallel import estimate_prediction as EP
    from resonaate.parallel import estimate_update as EU
    from resonaate.parallel import tasking_execution as TE
    from resonaate.parallel import tasking_reward_generation as TR
    from resonaate.physics.time.stardate import ScenarioTime
    from resonaate.scenario import clock as CK
    from resonaate.scenario import scenario as SC
    from resonaate.tasking.engine import centralized_engine as CE
    from resonaate.tasking.engine import engine_base as EB

    C = _classes()
    sym = V.sym
    trace = Trace()
    targets, sensors, tso = list(cfg["targets"]), list(cfg["sensors"]), cfg["tso"]
    rec = {"cfg": cfg, "trace": trace, "subs": {}, "traj": {}, "steps": [], "exc": None}

    # ---- event rows (real ORM objects, not attached to any session)
    rows = []
    jd0 = CK.datetimeToJulianDate(T0)
    total = DT * sum(cfg["legs"])
    for ev in cfg.get("events", []):
        if ev["at"] == "sym":
            # the event's Julian date is any double from the start epoch to one step past the end of the run
            lo, hi = float(jd0), float(ScenarioTime(total + DT).convertToJulianDate(jd0))
            jd = V.jd(f"jd_{ev['name']}", lo, hi, float(ScenarioTime(ev.get("default", total / 2)).convertToJulianDate(jd0)))
            jd = fp.fp_float(jd)  # the column holds the plain double
        else:
            jd = float(ScenarioTime(ev["at"]).convertToJulianDate(jd0))
        thr = V.vec(f"thrust_{ev['name']}", 3, -30.0, -20.0)
        rows.append(ScheduledImpulseEvent(scope="agent_propagation", scope_instance_id=ev["owner"], start_time_jd=jd, end_time_jd=jd, event_type="impulse",
                                          planned=ev["planned"], thrust_vec_0=thr[0], thrust_vec_1=thr[1], thrust_vec_2=thr[2], thrust_frame="eci"))
    db = DBStub(trace, rows)
    rayst = RayStub(V, trace, tag)
    rayst.fixed = bool(cfg.get("fixed_order"))
    step_no = [0]
    db.step_ref = step_no
    rec["id_choices"] = []

    def some_id(what, own, pool):
        """The id a *result* carries: its own (as the real workers do) or, in the `ids` families, any id the solver picks."""
        if not cfg.get("ids") or len(pool) < 2:
            return own
        v = pool[V.choose(f"{tag}id_{what}", len(pool))]
        rec["id_choices"].append((what, v))
        return v

    # ---- remote workers
    def prop_fn(sub, e):
        s = sub_summary(sub)
        e["sub"], e["step"] = s, step_no[0]
        rec["subs"].setdefault(s["agent_id"], []).append((step_no[0], s))
        args = sub_args(sym, s)
        fin = np.array([worker(sym, i, args) for i in range(6)], dtype=object if sym else float)
        e["final"] = tuple(fin)
        rid = some_id(f"prop{step_no[0]}_{sub.agent_id}", sub.agent_id, targets + sensors) if targets and sub.agent_id == targets[0] else sub.agent_id
        return AP.PropagateResult(agent_id=rid, final_time=sub.final_time, prev_state=sub.init_eci, final_eci=fin)

    def predict_fn(sub, e):
        tid = getattr(sub.seq_filter, "tag", 0)
        px = V.vec(f"{tag}predx{step_no[0]}_{tid}", 6, -2.0, -1.0)
        return SeqFilterPredictResult(time=sub.time, est_x=sub.seq_filter.est_x, est_p=np.eye(6), pred_x=px, pred_p=np.eye(6))

    def reward_fn(sub, e):
        n = len(sub.sensor_handle_list)
        own = sub.estimate_handle.simulation_id
        vis = np.zeros(n, dtype=bool) if cfg.get("quiet_tasking") and targets and own != targets[0] else np.ones(n, dtype=bool)
        return TR.RewardCalcResult(estimate_id=some_id(f"reward{step_no[0]}_{own}", own, targets), visibility=vis,
                                   metric_matrix=np.array([[1.0 + 0.1 * k + 0.01 * j for k in range(len(sub.reward.metrics))] for j in range(n)], dtype=float).reshape(n, len(sub.reward.metrics)))

    def exec_fn(sub, e):
        tid = sub.estimate_handle.simulation_id
        obs, info = [], []
        for sh in sub.sensor_handle_list:
            sid = sh.simulation_id
            obs.append(Tok("obs", tid, sid))
            info.append({"sensor_id": sid, "boresight": V.vec(f"{tag}bore{step_no[0]}_{tid}_{sid}", 3, -4.0, -3.0), "time_last_tasked": sh.time})
        for entry in info:
            entry["sensor_id"] = some_id(f"info{step_no[0]}_{tid}_{entry['sensor_id']}", entry["sensor_id"], sensors)
        return TE.TaskExecutionResult(target_id=some_id(f"exec{step_no[0]}_{tid}", tid, targets), observations=obs, missed_observations=[Tok("miss", tid, 0)], sensor_info_list=info)

    def update_fn(sub, e):
        est = sub.estimate_agent
        tid = est.simulation_id
        nf = C["Flt"](est.nominal_filter.dynamics, V.vec(f"{tag}estx{step_no[0]}_{tid}", 6, -6.0, -5.0), tid)
        return EU.EstUpdateResult(estimate_id=some_id(f"update{step_no[0]}_{tid}", tid, targets), observed=len(sub.successful_obs) > 0, updated_filter=nf, iod_start_time=None, detected_maneuvers=[])

    opaque_ecef = lambda x, t=None: ("ecef",)  # noqa: E731
    opaque_lla = lambda x: ("lla",)  # noqa: E731

    class Red:
        @staticmethod
        def build(when):
            return (when - T0).total_seconds()

    class EvStack:
        @staticmethod
        def logAndFlushEvents():
            trace.add("flush")

    logger = Log(trace)
    conf = Duck(
        noise=Duck(init_position_std_km=1e-3, init_velocity_std_km_p_sec=1e-6, random_seed=1),
        propagation=Duck(target_realtime_propagation=True, sensor_realtime_propagation=True, truth_simulation_only=tso, propagation_model="token", integration_method="token",
                         station_keeping=False),
        observation=Duck(realtime_observation=True), estimation=Duck(sequential_filter=Duck(dynamics_model="token", save_filter_steps=bool(cfg.get("save_filter_steps", False)))),
        geopotential=Duck(model="token", degree=0, order=0), perturbations=Duck(third_bodies=[], solar_radiation_pressure=False, general_relativity=False),
        time=Duck(physics_step_sec=ScenarioTime(DT), output_step_sec=ScenarioTime(DT * cfg.get("out_every", 1))),
    )
    import contextlib

    # symbolic instants (off-grid targets of propagateTo calls, Julian dates of event rows): symbolic doubles through the real time classes
    symtime = hybrid_time([("resonaate.scenario.scenario", _ROUNDING), ("resonaate.data.events.scheduled_impulse", {})]) \
        if sym and cfg.get("symtime") else contextlib.nullcontext()
    try:
        with symtime, shadow(CK, getDBConnection=lambda: db), shadow(SC, getDBConnection=lambda: db, ray=rayst, EventStack=EvStack, Logger=lambda *a, **k: logger), \
                shadow(EB, getDBConnection=lambda: db), shadow(CE, ray=rayst), shadow(P, ray=rayst), \
                shadow(TA, eci2ecef=opaque_ecef, ecef2lla=opaque_lla), shadow(SA, eci2ecef=opaque_ecef, ecef2lla=opaque_lla), \
                shadow(EA, eci2ecef=opaque_ecef, ecef2lla=opaque_lla, filter_map={C["KalmanFilter"]: C["Step"]}), \
                shadow(AP, ray=rayst, asyncPropagate=Remote(rayst, "propagate", prop_fn), ReductionParams=Red), shadow(EP, ray=rayst, asyncPredict=Remote(rayst, "predict", predict_fn)), \
                shadow(EU, ray=rayst, asyncUpdateEstimate=Remote(rayst, "update", update_fn)), shadow(TR, ray=rayst, asyncCalculateReward=Remote(rayst, "reward", reward_fn)), \
                shadow(TE, ray=rayst, asyncExecuteTasking=Remote(rayst, "exec", exec_fn)):
            span = DT * sum(cfg["legs"])
            clock = CK.ScenarioClock(T0, span, DT)
            _ACTIVE[0] = trace
            tgt, est, sen = {}, {}, {}
            for tid in targets:
                x0 = V.vec(f"x_{tid}", 6, _band(tid), _band(tid) + 6.0)
                keepers = [C["Keeper"](tid * 10 + 7)] if tid in cfg.get("keepers", ()) else None
                tgt[tid] = C["RecTarget"](tid, f"t{tid}", "Spacecraft", x0, clock, C["Dyn"](tid * 10 + 1), True, 1.0, 100.0, 0.2, station_keeping=keepers)
                e0 = V.vec(f"e_{tid}", 6, -8.0, -7.0)
                est[tid] = EA.EstimateAgent(tid, f"t{tid}", "Spacecraft", clock, e0, np.eye(6), C["Flt"](C["Dyn"](tid * 10 + 2), e0, tid), None, None, 1.0, 100.0, 0.2, seed=1)
            for sid in sensors:
                x0 = V.vec(f"x_{sid}", 6, _band(sid), _band(sid) + 6.0)
                sen[sid] = C["RecSensor"](sid, f"s{sid}", "Spacecraft", x0, clock, C["Sen"](), C["Dyn"](sid * 10 + 1), True, 1.0, 100.0, 0.2)
            trace.agents = {**tgt, **sen}
            engines = {}
            if cfg.get("engine", True) and sensors and targets:
                from resonaate.tasking.decisions import decisions as DD
                from resonaate.tasking.metrics import metric_base as MB
                from resonaate.tasking.rewards import rewards as RW

                mets = [type("M_" + b.__name__, (b,), {"calculate": lambda self, e, s: 0.0})() for b in (MB.InformationMetric, MB.SensorMetric)]
                engines[1] = CE.CentralizedTaskingEngine(1, list(sensors), list(targets), RW.SimpleSummationReward(mets), DD.AllVisibleDecision(), None, True)
            sc = SC.Scenario(conf, clock, tgt, est, sen, engines, None, logger)
            rec["scenario"], rec["clock"], rec["est"] = sc, clock, est
            trace.live = True
            trace.add("mark", what="run-begin")
            rec["init"] = trace.snapshot()
            real_step = sc.stepForward

            def step_wrapper():
                step_no[0] += 1
                b = len(trace.ev)
                trace.add("mark", what="step-begin", step=step_no[0])
                real_step()
                trace.add("mark", what="step-end", step=step_no[0])
                rec["steps"].append((step_no[0], b, len(trace.ev) - 1))
                for i, a in trace.agents.items():
                    rec["traj"].setdefault(i, []).append((float(a.time), tuple(a.eci_state)))

            sc.stepForward = step_wrapper
            done = 0
            for li, leg in enumerate(cfg["legs"]):
                done += leg
                target = ScenarioTime(DT * done).convertToJulianDate(clock.julian_date_start)
                if cfg.get("offgrid") and li < len(cfg["legs"]) - 1:
                    # an intermediate stop requested up to `offgrid` seconds off the step boundary it rounds to
                    tol = cfg["offgrid"] / 86400.0
                    target = V.jd(f"{tag}target_{li}", float(target) - tol, float(target) + tol, float(target))
                sc.propagateTo(target)
            trace.add("mark", what="run-end")
    except Exception as e:  # noqa: BLE001  (the analysed code raised: reported as a failed check, replayed like any other)
        import traceback

        rec["exc"] = f"{type(e).__name__}: {e} @ {traceback.format_exc()[-400:]}"
    finally:
        _ACTIVE[0] = None
        trace.live = False
    rec["saved"], rec["saved_at"] = db.saved, db.saved_at
    rec["nwait"] = rayst.nwait
    return rec


# =============================================================================================
# oracles
# =============================================================================================
class Checks:
    def __init__(self):
        self.items = []

    def add(self, label, cond):
        if isinstance(cond, (list, tuple)):
            for c in cond:
                self.add(label, c)
            return
        if cond is True or (isinstance(cond, (bool, np.bool_)) and bool(cond)):
            return
        self.items.append((label, cond if isinstance(cond, z3.ExprRef) else bool(cond)))

    def goal(self):
        return z3.And(*[c if isinstance(c, z3.ExprRef) else z3.BoolVal(c) for _l, c in self.items]) if self.items else z3.BoolVal(True)

    def failed(self):
        return [l for l, c in self.items if c is False]


def _state_same(s1, s2, fields):
    out = []
    for f in fields:
        a, b = s1[f], s2[f]
        if isinstance(a, tuple):
            out += _same_seq(a, b)
        else:
            out.append(_same(a, b))
    return out


CORE = ("time", "eci", "prev", "dyn", "sk", "dt", "realtime", "init")
ALL = CORE + ("ev",)


def frame_checks(ck, rec, name):
    """Oracles over one world: what crossed the stubs during each step."""
    trace = rec["trace"]
    ev = trace.ev
    if rec["exc"] is not None:
        ck.add(f"{name}: the run raised {rec['exc'][:300]}", False)
        return
    ck.add(f"{name}: number of steps made", len(rec["steps"]) == sum(rec["cfg"]["legs"]))
    ids = sorted(trace.agents)
    prev_end = None
    for (k, b, e) in rec["steps"]:
        begin, end = ev[b]["snap"], ev[e]["snap"]
        if prev_end is not None:
            # between two steps (output, next propagateTo call) nothing changes
            for i in ids:
                ck.add(f"{name} step {k}: agent {i} changed between steps", _state_same(prev_end[i], begin[i], ALL))
        idx = range(b, e + 1)
        i1 = next((j for j in idx if ev[j]["kind"] == "remote:propagate"), e)
        i2 = next((j for j in idx if ev[j]["kind"] == "put" or (ev[j]["kind"].startswith("remote:") and ev[j]["kind"][7:] in NONPROP)), e)
        # ordering: no propagation job is submitted or finished once estimate/tasking work has started
        late = [j for j in range(i2, e + 1) if ev[j]["kind"] == "remote:propagate" or (ev[j]["kind"] in ("wait", "get") and ev[j].get("job") == "propagate")]
        ck.add(f"{name} step {k}: propagation job submitted/finished after estimate or tasking work started", not late)
        for i in ids:
            mine = [ev[j] for j in idx if ev[j]["kind"] == "remote:propagate" and ev[j]["sub"]["agent_id"] == i]
            ck.add(f"{name} step {k}: agent {i} has exactly one propagation job", len(mine) == 1)
            # P0: before the propagate batch only the event queue may change
            for j in range(b, i1):
                if ev[j]["snap"] is not None:
                    ck.add(f"{name} step {k}: agent {i} core state changed before its propagation ({ev[j]['kind']})", _state_same(begin[i], ev[j]["snap"][i], CORE))
            # P2: from the first estimate/tasking job on, truth is final for this step
            for j in range(i2, e + 1):
                if ev[j]["snap"] is not None:
                    ck.add(f"{name} step {k}: agent {i} truth not final / changed at {ev[j]['kind']} after estimate-tasking work started", _state_same(end[i], ev[j]["snap"][i], ALL))
            # P1: the state changes exactly once
            snaps = [ev[j]["snap"][i] for j in idx if ev[j]["snap"] is not None]
            changes = sum(1 for s, t in zip(snaps, snaps[1:]) if not (_ident(s["eci"], t["eci"]) and s["time"] == t["time"]))
            ck.add(f"{name} step {k}: agent {i} truth state changed {changes} times (expected once)", changes == 1)
            if len(mine) == 1:
                s = mine[0]["sub"]
                at = mine[0]["snap"][i]
                ck.add(f"{name} step {k}: agent {i} submission start state is not its current state", _same_seq(s["x"], begin[i]["eci"]))
                ck.add(f"{name} step {k}: agent {i} submission times", [s["t0"] == begin[i]["time"], s["t1"] == begin[i]["time"] + DT])
                ck.add(f"{name} step {k}: agent {i} submission carries another dynamics/station-keeping/event list",
                       [s["dyn"] == begin[i]["dyn"], tuple(t for t, _r in s["sk"]) == begin[i]["sk"], *_same_seq(s["ev"], at["ev"])])
                ck.add(f"{name} step {k}: agent {i} station keeper got reductions of another epoch", [r == begin[i]["time"] for _t, r in s["sk"]])
                ck.add(f"{name} step {k}: agent {i} final state is not its own propagation result", _same_seq(end[i]["eci"], mine[0]["final"]))
                if begin[i]["prev"] != () or end[i]["prev"] != ():
                    ck.add(f"{name} step {k}: agent {i} previous_state is not the state before the step", _same_seq(end[i]["prev"], begin[i]["eci"]))
            ck.add(f"{name} step {k}: agent {i} time after the step", end[i]["time"] == begin[i]["time"] + DT)
            ck.add(f"{name} step {k}: agent {i} configuration changed", _state_same(begin[i], end[i], ("dyn", "sk", "dt", "realtime", "init")))
        # write log (negative frame condition).  "Truth attributes" of an agent are derived, not named: those its own propagation result writes.
        truth_attrs = {i: {ev[j]["attr"] for j in idx if ev[j]["kind"] == "write" and ev[j]["agent"] == i and ev[j]["regkind"] == "PropagateRegistration.processResults"
                           and ev[j]["regowner"] == i} for i in ids}
        for j in idx:
            w = ev[j]
            if w["kind"] != "write":
                continue
            rk = w["regkind"]
            if rk and not rk.startswith("PropagateRegistration."):
                ck.add(f"{name} step {k}: {rk} (registrant {w['regowner']}) wrote {w['attr']} of truth agent {w['agent']} via {w['fn']}", False)
            if rk.startswith("PropagateRegistration.") and w["regowner"] is not None and w["regowner"] != w["agent"]:
                ck.add(f"{name} step {k}: propagation registration of agent {w['regowner']} wrote {w['attr']} of agent {w['agent']}", False)
            lazy_cache = w["fn"].split(".")[-1] in ("ecef_state", "lla_state")  # derived Earth-fixed states are cached on first read
            if j >= i2 and w["attr"] in truth_attrs[w["agent"]] and not lazy_cache:
                ck.add(f"{name} step {k}: {w['fn']} wrote {w['attr']} of truth agent {w['agent']} after estimate/tasking work started", False)
        prev_end = end
    for j, w in enumerate(ev):
        if w["kind"] == "write" and not any(b <= j <= e for _k, b, e in rec["steps"]):
            ck.add(f"{name}: {w['fn']} wrote {w['attr']} of truth agent {w['agent']} outside a step", False)
    # output rows: TruthEphemeris handed to the database = the agent's state at that epoch
    from resonaate.data.ephemeris import TruthEphemeris

    out_every = rec["cfg"].get("out_every", 1)
    due = lambda k: (k * DT) % (DT * out_every) == 0  # noqa: E731  (output is written at the step epochs that are multiples of the output step)
    expect_saves = 1 + sum(1 for k in range(1, sum(rec["cfg"]["legs"]) + 1) if due(k))
    if float(out_every) == int(out_every):
        ck.add(f"{name}: number of output commits {len(rec['saved'])} (expected {expect_saves})", len(rec["saved"]) == expect_saves)
        ks = [0] + [k for k in range(1, sum(rec["cfg"]["legs"]) + 1) if due(k)]
    else:
        # an output step that is not a multiple of the physics step: which epochs get written is not C10's business (C09); every commit made must carry the truth of its own epoch
        ks = list(rec["saved_at"])
    for k, rows in zip(ks, rec["saved"]):
        te = [r for r in rows if isinstance(r, TruthEphemeris)]
        ck.add(f"{name}: output {k}: one truth row per agent", sorted(r.agent_id for r in te) == ids)
        for r in te:
            want = rec["init"][r.agent_id]["eci"] if k == 0 else rec["traj"][r.agent_id][k - 1][1]
            ck.add(f"{name}: output {k}: truth row of agent {r.agent_id} is not its state", _same_seq(r.eci, want))


def relate_checks(ck, full, solo, i, name):
    """The relation between two runs: agent i in the full world and alone in a truth-only world."""
    if full["exc"] is not None or solo["exc"] is not None:
        ck.add(f"{name}: run raised: {full['exc'] or solo['exc']}", False)
        return
    a, b = full["traj"].get(i, []), solo["traj"].get(i, [])
    ck.add(f"{name}: agent {i}: trajectory lengths {len(a)} vs {len(b)}", len(a) == len(b))
    for k, ((ta, xa), (tb, xb)) in enumerate(zip(a, b), 1):
        ck.add(f"{name}: agent {i}: epoch after step {k} differs from the solo truth-only run", ta == tb)
        ck.add(f"{name}: agent {i}: state after step {k} differs from the solo truth-only run", _same_seq(xa, xb))
    sa, sb = full["subs"].get(i, []), solo["subs"].get(i, [])
    ck.add(f"{name}: agent {i}: number of propagation submissions {len(sa)} vs {len(sb)}", len(sa) == len(sb))
    for (ka, x), (kb, y) in zip(sa, sb):
        ck.add(f"{name}: agent {i}: submission of step {ka} differs from the solo truth-only run", [ka == kb, *sub_same(x, y)])


# =============================================================================================
# families of scenarios (the symbolic choices) - shared by the symbolic run and the replay
# =============================================================================================
_SOLO = {}

# family -> which choices are solver variables.  Fixed entries are plain values; "?" entries are chosen by the solver.
FAMILIES = {
    # one step, the whole estimate/tasking pipeline with the real tasking engine
    "step1": dict(steps=1, t12="?", s21="?", s22=False, tso="?", split=False, out="fixed", event=None, save_filter_steps=True),
    # ids carried by estimate/tasking/propagation *results* are chosen by the solver (fixed completion order)
    "step1-ids": dict(steps=1, t12=True, s21=True, s22=False, tso=False, split=False, out="fixed", event=None, ids=True, fixed_order=True),
    # two steps: split / output cadence / event step / planned flag / truth-only all symbolic, one sensor
    "steps2-sensor": dict(steps=2, t12=False, s21=True, s22=False, tso="?", split="?", out="?", event=dict(owners=[11], step="?", planned="?")),
    # two steps, two sensors (6 x 6 propagation orders), split run with sparse output and a planned maneuver of the target
    "steps2-sensors3": dict(steps=2, t12=False, s21=True, s22=True, tso="?", split=True, out=2, event=dict(owners=[11], step=1, planned=True)),
    # two steps truth-only, two targets (+ sensor): whose maneuver it is and when is symbolic
    "steps2-targets": dict(steps=2, t12=True, s21="?", s22=False, tso=True, split=False, out="fixed", event=dict(owners=[11, 12], step="?", planned=True)),
    # split runs whose intermediate stops are requested off the step grid (any double within 0.45 s of the boundary they round to) and a
    # maneuver whose Julian date is any double of the run (symbolic doubles): truth-only, target alone
    "split2-offgrid": dict(steps=2, t12=False, s21=False, s22=False, tso=True, split=True, out="fixed", offgrid=0.45, event=dict(owners=[11], at="sym", step=0, planned=False)),
    # output cadences that are not multiples of the physics step (90 s, 45 s, 150 s for 60 s steps) next to multiples: truth-only, target alone
    "steps3-cadence": dict(steps=3, t12=False, s21=False, s22=False, tso=True, split="?", out=(1, 2, 1.5, 0.75, 2.5, 3), event=dict(owners=[11], step="?", planned=False)),
    "split3-offgrid": dict(steps=3, t12=False, s21=False, s22=False, tso=True, split="?", out="fixed", offgrid=0.45, event=dict(owners=[11], at="sym", step=0, planned="?")),
    # ---- thorough
    "split2-offgrid-sensor": dict(steps=2, t12=False, s21=True, s22=False, tso="?", split=True, out="?", offgrid=0.45, event=dict(owners=[11], at="sym", step=0, planned="?")),
    "step1-4agents": dict(steps=1, t12="?", s21="?", s22="?", tso="?", split=False, out="fixed", event=None),
    "steps2-sensors-all": dict(steps=2, t12=False, s21=True, s22="?", tso="?", split="?", out="?", event=dict(owners=[11], step="?", planned="?")),
    "steps2-targets-all": dict(steps=2, t12=True, s21="?", s22=False, tso=True, split="?", out="?", event=dict(owners=[11, 12], step="?", planned="?")),
    "steps3-sensor": dict(steps=3, t12=False, s21=True, s22=False, tso="?", split="?", out="?", event=dict(owners=[11], step="?", planned=True)),
    "steps2-full-targets": dict(steps=2, t12=True, s21=True, s22=False, tso=False, split=False, out="fixed", event=dict(owners=[11, 12], step=1, planned=True), quiet_tasking=True),
}
SPLITS = {1: [[1]], 2: [[2], [1, 1]], 3: [[3], [1, 2], [2, 1], [1, 1, 1]]}


def _pick(V, spec, name):
    return V.flag(name) if spec == "?" else bool(spec)


def family(V, fam):
    """Returns (Checks, info).  All discrete choices are made through V (solver variables / replayed values)."""
    F = FAMILIES[fam]
    ck = Checks()
    cfg = {"targets": [11], "sensors": [], "tso": False, "legs": [F["steps"]], "out_every": 1, "events": [], "engine": True, "keepers": (11,), "_sym": V.sym,
           "ids": F.get("ids", False), "fixed_order": F.get("fixed_order", False), "save_filter_steps": F.get("save_filter_steps", False), "quiet_tasking": F.get("quiet_tasking", False)}
    if _pick(V, F["t12"], "exists_12"):
        cfg["targets"].append(12)
    if _pick(V, F["s21"], "exists_21"):
        cfg["sensors"].append(21)
    if _pick(V, F["s22"], "exists_22"):
        cfg["sensors"].append(22)
    cfg["tso"] = _pick(V, F["tso"], "truth_only")
    shapes = SPLITS[F["steps"]]
    cfg["legs"] = shapes[V.choose("split", len(shapes))] if F["split"] == "?" else (shapes[-1] if F["split"] else shapes[0])
    if isinstance(F["out"], (list, tuple)):
        cfg["out_every"] = F["out"][V.choose("output_every", len(F["out"]))]  # output step / physics step, multiples or not
    else:
        cfg["out_every"] = 1 + V.choose("output_every", F["steps"]) if F["out"] == "?" else (1 if F["out"] == "fixed" else int(F["out"]))
    if F["event"]:
        E = F["event"]
        owner = E["owners"][V.choose("event_owner", len(E["owners"]))]
        st = 0 if E.get("at") == "sym" else V.choose("event_step", F["steps"]) if E["step"] == "?" else int(E["step"])
        at = "sym" if E.get("at") == "sym" else DT * st + DT / 2
        cfg["events"] = [{"name": "ev", "owner": owner, "at": at, "planned": _pick(V, E["planned"], "event_planned")}]
    cfg["offgrid"] = F.get("offgrid", 0)
    cfg["symtime"] = bool(F.get("offgrid")) or any(e["at"] == "sym" for e in cfg["events"])
    full = run_world(V, cfg, "")
    frame_checks(ck, full, "full")
    for i in cfg["targets"] + cfg["sensors"]:
        scfg = dict(cfg)
        scfg.update(targets=[i] if i in cfg["targets"] else [], sensors=[i] if i in cfg["sensors"] else [], tso=True, legs=[sum(cfg["legs"])], out_every=1,
                    events=[e for e in cfg["events"] if e["owner"] == i], engine=False, ids=False, fixed_order=False, offgrid=0)
        # the solo run has a single job per batch, hence no choice and no fork: in symbolic mode its terms are the same on every path of this process
        key = (i, scfg["legs"][0], tuple(sorted((e["name"], e["owner"], e["at"], e["planned"]) for e in scfg["events"])), tuple(scfg["keepers"]))
        cache = V.sym and not cfg["symtime"]  # with symbolic instants the solo run forks too: its terms depend on the path
        if cache and key in _SOLO:
            solo, items, reals = _SOLO[key]
            for n, v in reals.items():
                V.reals.setdefault(n, v)
        else:
            before = set(V.reals)
            solo = run_world(V, scfg, f"solo{i}_")
            sck = Checks()
            frame_checks(sck, solo, f"solo{i}")
            items = sck.items
            solo = {"exc": solo["exc"], "traj": solo["traj"], "subs": solo["subs"]}
            if cache:
                _SOLO[key] = (solo, items, {n: v for n, v in V.reals.items() if n not in before or n.startswith(("x_", "thrust_"))})
        ck.items += items
        relate_checks(ck, full, solo, i, "full~solo")
    regions = {}
    if V.sym and cfg["symtime"]:
        # classes of (stop, event) placements that must each lie on some explored path (vacuity guards, checked in o_family)
        from resonaate.physics.time.stardate import ScenarioTime, datetimeToJulianDate

        edge = rv(Fraction(float(ScenarioTime(DT * cfg["legs"][0]).convertToJulianDate(datetimeToJulianDate(T0)))))
        je, stop = V.floats.get("jd_ev"), V.floats.get("target_0")
        if je is not None and stop is not None:
            regions = {"event between an early stop and the step boundary it rounds to": [stop.t < je.t, je.t < edge],
                       "event exactly on the boundary, stop requested before it": [stop.t < edge, je.t == edge],
                       "stop requested after the boundary, event in between": [edge < je.t, je.t <= stop.t],
                       "stop requested exactly on the boundary": [stop.t == edge]}
    info = {"regions": regions, "cfg": {k: v for k, v in cfg.items() if k != "_sym"}, "order": [(e["job"], e["pick"]) for e in full["trace"].ev if e["kind"] == "wait" and e["pending"] > 1],
            "ids": tuple(full.get("id_choices", ())), "nwrites": sum(1 for e in full["trace"].ev if e["kind"] == "write"), "kinds": sorted({e["kind"] for e in full["trace"].ev})}
    return ck, info


def replay_family(d):
    """Concrete replay in a fresh interpreter (no state shared with the symbolic run): the same scenario family on plain floats,
    the choices fixed to the counterexample's."""
    import json
    import os
    import subprocess

    if os.environ.get("C10_REPLAY_INPROC"):
        return _replay_family(d)
    env = dict(os.environ, PYTHONPATH=os.pathsep.join(p for p in sys.path if p), C10_REPLAY_INPROC="1", PYTHONDONTWRITEBYTECODE="1")
    code = "import json,sys; from harness import c10; r = c10._replay_family(json.load(sys.stdin)); sys.stdout.write(chr(10) + 'C10REPLAY' + json.dumps([bool(r[0]), r[1]]))"
    pr = subprocess.run([sys.executable, "-c", code], input=json.dumps(d), capture_output=True, text=True, env=env, timeout=300)
    if "C10REPLAY" not in pr.stdout:
        return False, {"replay process failed": (pr.stderr or pr.stdout)[-600:]}
    ok, detail = json.loads(pr.stdout.split("C10REPLAY")[-1])
    return ok, detail


def _replay_family(d):
    V = Vals(False, d)
    ck, info = family(V, d["family"])
    bad = ck.failed()
    return bool(bad), {"failed": bad[:8], "n_failed": len(bad), "cfg": info["cfg"], "order": info["order"]}


def o_family(rep, fam, expect):
    def run():
        V = Vals(True)
        ck, info = family(V, fam)
        return V, ck, info

    res = explore(run, max_paths=20000, max_depth=400, catch=())
    rep.note(f"{fam}: paths={len(res)}")
    seen = {"tso": set(), "agents": set(), "orders": set(), "events": set(), "legs": set(), "out": set(), "ids": set(), "kinds": set()}
    for r in res:
        _V, _ck, info = r.out
        c = info["cfg"]
        seen["tso"].add(c["tso"])
        seen["agents"].add((tuple(c["targets"]), tuple(c["sensors"])))
        seen["orders"].add(tuple(info["order"]))
        seen["events"].add(tuple((e["owner"], e["at"], e["planned"]) for e in c["events"]))
        seen["legs"].add(tuple(c["legs"]))
        seen["out"].add(c["out_every"])
        seen["ids"].add(info["ids"])
        seen["kinds"] |= set(info["kinds"])
    wanted, reached = set(), set()
    for n, r in enumerate(res):
        V, ck, info = r.out
        c = info["cfg"]
        # vacuity guard: the path (choices + payload bands) must be satisfiable; recorded for the first path, checked for all
        if n == 0:
            rep.reachable(f"{fam}#0:assumptions", r.constraints + V.bands())
        elif solve(r.constraints + V.bands(), 20000).status != "sat":
            rep.error(f"{fam}#{n}:vacuous", "path constraints not satisfiable")
        for what, cons in info.get("regions", {}).items():
            wanted.add(what)
            if what not in reached and solve(r.constraints + V.bands() + cons, 20000).status == "sat":
                reached.add(what)
                rep.reachable(f"{fam}#{n}:{what}", r.constraints + V.bands() + cons)
        if len(rep.violations) >= MAX_VIOLATIONS:
            rep.note(f"{fam}: stopped after {MAX_VIOLATIONS} replayed violations; {len(res) - n} paths not examined")
            break
        rep.prove(f"{fam}#{n}", ck.goal(), r.constraints + V.bands(), inputs=(lambda m, V=V: V.inputs(m, fam)), replay=replay_family,
                  sample=f"{fam}: agents {c['targets']}+{c['sensors']}, truth_only={c['tso']}, legs={c['legs']}: trajectories/submissions/rows equal the solo truth-only run; truth written only by own propagation result")
    rep.note(f"{fam}: " + ", ".join(f"{k}={len(v)}" for k, v in seen.items() if k != "kinds"))
    if len(rep.violations) < MAX_VIOLATIONS:
        for what in sorted(wanted - reached):
            rep.error(f"reach:{what}", "no explored path contains this placement")
    for k, want in expect.items():
        if k == "kinds":
            missing = set(want) - seen["kinds"]
            if missing:
                rep.error(f"reach:{k}", f"stub interactions never seen: {sorted(missing)}")
        elif len(seen[k]) < want:
            rep.error(f"reach:{k}", f"expected >= {want} distinct {k}, explored {len(seen[k])}")


# =============================================================================================
# split runs: propagateTo(a); propagateTo(b)  ==  propagateTo(b)   (step arithmetic in IEEE doubles)
# =============================================================================================
class _Stop(Exception):
    pass


class _NullDB:
    """Output database of the step-arithmetic worlds: holds nothing, swallows what is saved."""

    def getData(self, query, multi=True):
        return [] if multi else None

    def insertData(self, *rows):
        pass

    def bulkSave(self, rows):
        pass


def _constructed_scenario(clock, dt):
    """A Scenario without agents built by the real constructor (so that it has whatever state the methods under analysis expect);
    stepForward is then replaced by a stub that ticks the real clock and records the epochs it is called at."""
    from resonaate.scenario import scenario as SC

    nul = lambda *a, **k: None  # noqa: E731
    logger = types.SimpleNamespace(info=nul, error=nul, debug=nul, warning=nul)
    conf = Duck(noise=Duck(init_position_std_km=1e-3, init_velocity_std_km_p_sec=1e-6, random_seed=1),
                propagation=Duck(target_realtime_propagation=True, sensor_realtime_propagation=True, truth_simulation_only=True, propagation_model="token", integration_method="token"),
                observation=Duck(realtime_observation=True), estimation=Duck(sequential_filter=Duck(dynamics_model="token", save_filter_steps=False)),
                geopotential=Duck(model="token", degree=0, order=0), perturbations=Duck(third_bodies=[], solar_radiation_pressure=False, general_relativity=False),
                time=Duck(physics_step_sec=dt, output_step_sec=dt))
    db = _NullDB()
    with shadow(SC, getDBConnection=lambda: db, Logger=lambda *a, **k: logger):
        sc = SC.Scenario(conf, clock, {}, {}, {}, {}, None, logger)
    log = {"calls": [], "count": None, "saves": 0}

    def step():
        before = clock.time
        clock.ticToc()
        log["calls"].append((before, clock.time))

    def save():
        log["saves"] += 1

    sc.stepForward, sc.saveDatabaseOutput = step, save
    return sc, log


def _bare_scenario(ns, dt, t_now, js):
    """A real clock (symbolic start epoch and time) inside a Scenario built by the real constructor."""
    from resonaate.scenario import clock as CK

    clock = object.__new__(CK.ScenarioClock)
    clock.julian_date_start = js
    clock.datetime_start = ns.start_datetime
    clock.dt_step = ns.ScenarioTime(dt)
    clock.time = ns.ScenarioTime(t_now)
    clock.initial_time = ns.ScenarioTime(0)
    return _constructed_scenario(clock, dt)


def _any_julian_date(ns):
    """datetimeToJulianDate in the scenario module cut to the weakest contract: some double of the supported range (the step arithmetic
    under analysis may not depend on it; the event windows built from it are the subject of C01 and of the frame-split families)."""
    n = [0]

    def provider(date_time):
        n[0] += 1
        return ns.JulianDate(fp.fresh_float(f"jd_epoch!{n[0]}", Fraction(4830041, 2), Fraction(4976837 + 62, 2), -31))

    return provider


def _split_inputs(dt):
    def f(m):
        g = lambda t: mval(m, t)  # noqa: E731
        return {"jd_start": float(g(z3.Real("js"))), "jd_a": float(g(z3.Real("ja"))), "jd_b": float(g(z3.Real("jb"))), "ka": g(z3.Int("ka")), "Db": g(z3.Int("Db")), "dt": dt}
    return f


def replay_split(d):
    """Real propagateTo on real JulianDate/ScenarioTime and a real clock: one call to b versus a call to a followed by a call to b."""
    from resonaate.physics.time.stardate import JulianDate, ScenarioTime, julianDateToDatetime
    from resonaate.scenario.clock import ScenarioClock

    def world():
        clock = object.__new__(ScenarioClock)
        clock.julian_date_start = JulianDate(d["jd_start"])
        clock.datetime_start = julianDateToDatetime(clock.julian_date_start)
        clock.dt_step, clock.time, clock.initial_time = ScenarioTime(d["dt"]), ScenarioTime(0.0), ScenarioTime(0)
        sc, log = _constructed_scenario(clock, d["dt"])
        calls = []

        def step():
            t0 = float(clock.time)
            clock.ticToc()
            calls.append((t0, float(clock.time)))

        sc.stepForward = step
        return sc, calls

    out = {}
    try:
        sc, direct = world()
        sc.propagateTo(JulianDate(d["jd_b"]))
        sc, split = world()
        sc.propagateTo(JulianDate(d["jd_a"]))
        out["after_first_leg"] = len(split)
        sc.propagateTo(JulianDate(d["jd_b"]))
    except ValueError as e:
        return True, {"raised": repr(e), **out}
    grid = [(float(i * d["dt"]), float((i + 1) * d["dt"])) for i in range(len(direct))]
    out.update(direct=len(direct), split=len(split), expected=d["Db"] // d["dt"], same_epochs=direct == split, on_grid=direct == grid,
               first_off_grid=next((c for c, g in zip(direct, grid) if c != g), None))
    bad = direct != split or direct != grid or out["after_first_leg"] != d["ka"] or len(direct) != d["Db"] // d["dt"]
    return bad, out


def _split_setup(ns, dt, max_total=None):
    """Symbolic start date, an on-grid split point a = ka*dt and a whole-second target b >= a + dt; Julian dates accurate to 2^-30 d (C05)."""
    from symx import fp
    from symx.core import assume, integer

    from symx.dtmodel import SDateTime

    # the clock's calendar start: any whole second of 1901..2099 (not tied to js: a superset of the consistent pairs)
    n0, sod0 = integer("start_day"), integer("start_second")
    assume(n0.t >= 0, n0.t <= 72683 - 62, sod0.t >= 0, sod0.t <= 86399)
    ns.start_datetime = SDateTime._of(n0.t, sod0.t)
    js = ns.JulianDate(fp.fresh_float("js", Fraction(4830041, 2), Fraction(4976837, 2), -31))
    ja = ns.JulianDate(fp.fresh_float("ja", Fraction(4830041, 2), Fraction(4976837 + 62, 2), -31))
    jb = ns.JulianDate(fp.fresh_float("jb", Fraction(4830041, 2), Fraction(4976837 + 62, 2), -31))
    ka, db = integer("ka"), integer("Db")
    assume(ka.t >= 1, db.t >= 0, db.t <= 30 * 86400, (ka.t + 1) * dt <= db.t)
    if max_total is not None:
        assume(db.t < (max_total + 1) * dt)
    eps = rv(Fraction(1, 2 ** 30))
    da, dbr = z3.ToReal(ka.t * dt) / 86400, z3.ToReal(db.t) / 86400
    assume(ja.t - js.t - da <= eps, da - (ja.t - js.t) <= eps, jb.t - js.t - dbr <= eps, dbr - (jb.t - js.t) <= eps)
    fp.declare_enclosure(ja.t - js.t, -Fraction(1, 2 ** 30), 30 + Fraction(1, 2 ** 30))
    fp.declare_enclosure(jb.t - js.t, -Fraction(1, 2 ** 30), 30 + Fraction(1, 2 ** 30))
    return js, ja, jb, ka, db


def o_split_count(rep, dt):
    """Requested step counts: n(0 -> a) = ka, n(0 -> b) = n(0 -> a) + n(a -> b), no leg refused, for every date / duration / split point."""
    from resonaate.scenario import scenario as SC
    from symx import fp
    from symx.timeenv import time_env

    def count(sc, log, target):
        def rng(n):
            log["count"] = n
            raise _Stop()

        with shadow(SC, range=rng):
            try:
                sc.propagateTo(target)
            except _Stop:
                return log["count"], None
            except ValueError as e:
                return None, e
        return None, None

    def run():
        with time_env([("resonaate.scenario.scenario", _ROUNDING), ("resonaate.scenario.clock", {})]) as ns, \
                shadow(SC, datetimeToJulianDate=_any_julian_date(ns)):
            js, ja, jb, ka, db = _split_setup(ns, dt)
            n_direct, e1 = count(*_bare_scenario(ns, dt, fp.from_int(z3.IntVal(0), 0, 0), js), jb)
            n_a, e2 = count(*_bare_scenario(ns, dt, fp.from_int(z3.IntVal(0), 0, 0), js), ja)
            if e1 is not None or e2 is not None:
                return ka, db, None, (e1, e2, None)
            na = n_a.as_int_term() if isinstance(n_a, fp.SFloat) else z3.IntVal(int(n_a))
            # the first leg's loop ticks the clock n_a times by dt (integers below 2^53: exact; unrolled in split-loop)
            from symx.core import assume

            assume(na >= 0, na * dt <= 30 * 86400)
            n_b, e3 = count(*_bare_scenario(ns, dt, fp.from_int(na * dt, 0, 30 * 86400), js), jb)
            if e3 is not None:
                return ka, db, None, (None, None, e3)
            nb = n_b.as_int_term() if isinstance(n_b, fp.SFloat) else z3.IntVal(int(n_b))
            nd = n_direct.as_int_term() if isinstance(n_direct, fp.SFloat) else z3.IntVal(int(n_direct))
        return ka, db, (nd, na, nb), None

    with fp.mode("relaxed"):
        res = explore(run, max_paths=64, branch_timeout_ms=6000, catch=(Exception,))
    kinds = set()
    for k, r in enumerate(res):
        if r.exc is not None:
            rep.error(f"exception[dt={dt}]", repr(r.exc))
            continue
        ka, db, counts, raised = r.out
        rhe = [n_ for key, n_ in r.path.trig.items() if key[0] == "rhe"]
        # the three numpy.around results, in execution order: direct run, first leg, second leg (each proved before it is used)
        lemmas = [(f"rounded-delta-{w}", n_ == c) for n_, (w, c) in zip(rhe, [("direct", db.t), ("first-leg", ka.t * dt), ("second-leg", db.t - ka.t * dt)])]
        if counts is not None:
            lemmas.insert(2, ("first-leg-count", counts[1] == ka.t))
        if raised is not None:
            # a leg was refused (ValueError) on a feasible path: a violation candidate
            kinds.add("raise")
            goal = z3.BoolVal(False)
            rep.prove(f"no-leg-refused[dt={dt}]#{k}", goal, fp.sliced(r.path, goal), lemmas=lemmas, inputs=_split_inputs(dt), replay=replay_split, timeout_ms=120000,
                      sample="no leg of a split run is refused when each leg is at least one step long")
            continue
        kinds.add("count")
        nd, na, nb = counts
        goal = z3.And(na == ka.t, nd == db.t / dt, na + nb == nd)
        rep.reachable(f"split-count[dt={dt}]#{k}:reach", fp.sliced(r.path, goal), timeout_ms=60000)
        rep.prove(f"split-count[dt={dt}]#{k}", goal, fp.sliced(r.path, goal), lemmas=lemmas, inputs=_split_inputs(dt), replay=replay_split, timeout_ms=120000,
                  sample="propagateTo(a); propagateTo(b) requests ka + floor((Db - a)/dt) = floor(Db/dt) steps = what propagateTo(b) requests, for every start date, duration and on-grid a")
    if "count" not in kinds:
        rep.error(f"reach[dt={dt}]", f"no path with three accepted legs: {kinds}")


def o_split_loop(rep, dt):
    """The loops themselves, unrolled (<= 3 steps in total): the split run calls stepForward at exactly the same clock epochs as the single run."""
    from resonaate.scenario import scenario as SC
    from symx.timeenv import time_env

    def run():
        with time_env([("resonaate.scenario.scenario", _ROUNDING), ("resonaate.scenario.clock", {})]) as ns, \
                shadow(SC, datetimeToJulianDate=_any_julian_date(ns)):
            js, ja, jb, ka, db = _split_setup(ns, dt, max_total=3)
            zero = lambda: fp.from_int(z3.IntVal(0), 0, 0)  # noqa: E731
            raised = None
            sc1, direct = _bare_scenario(ns, dt, zero(), js)
            sc2, split = _bare_scenario(ns, dt, zero(), js)
            try:
                sc1.propagateTo(jb)
                sc2.propagateTo(ja)
                first = len(split["calls"])
                sc2.propagateTo(jb)
            except ValueError as e:
                raised, first = e, None
        return ka, db, direct, split, first, raised

    with fp.mode("relaxed"):
        res = explore(run, max_paths=200, max_depth=200, branch_timeout_ms=20000, catch=(Exception,))
    seen = set()
    for k, r in enumerate(res):
        if r.exc is not None:
            rep.error(f"exception[dt={dt}]", repr(r.exc))
            continue
        ka, db, direct, split, first, raised = r.out
        rhe = [n_ for key, n_ in r.path.trig.items() if key[0] == "rhe"]
        lemmas = [(f"rounded-delta-{w}", n_ == c) for n_, (w, c) in zip(rhe, [("direct", db.t), ("first-leg", ka.t * dt), ("second-leg", db.t - ka.t * dt)])]
        if raised is not None:
            goal = z3.BoolVal(False)
            rep.prove(f"no-leg-refused[dt={dt}]#{k}", goal, fp.sliced(r.path, goal), lemmas=lemmas, inputs=_split_inputs(dt), replay=replay_split, timeout_ms=120000)
            continue
        a, b = direct["calls"], split["calls"]
        seen.add((len(a), first))
        goals = [z3.BoolVal(len(a) == len(b)), z3.IntVal(first) == ka.t, z3.IntVal(len(a)) == db.t / dt]
        for i, ((t0, t1), (u0, u1)) in enumerate(zip(a, b)):
            goals += [t0.t == u0.t, t1.t == u1.t, t0.t == i * dt, t1.t == (i + 1) * dt]
        goal = z3.And(*goals)
        rep.prove(f"split-loop[dt={dt}]#{k}(n={len(a)},first={first})", goal, fp.sliced(r.path, goal), lemmas=lemmas, inputs=_split_inputs(dt), replay=replay_split, timeout_ms=120000,
                  sample="unrolled: the split run makes the same stepForward calls at the same clock epochs (i*dt -> (i+1)*dt) as the single run")
    if not {(2, 1), (3, 1), (3, 2)} <= seen:
        rep.error(f"reach[dt={dt}]", f"(total steps, steps in first leg) reached: {sorted(seen)}")


REPLAYS = {}
MAX_VIOLATIONS = 3

PIPE = ["remote:propagate", "remote:predict", "remote:reward", "remote:exec", "remote:update", "put", "db:save", "write"]
EXPECT = {
    "step1": ({"tso": 2, "agents": 4, "orders": 100, "kinds": PIPE}, ("quick", "thorough")),
    "step1-ids": ({"ids": 32, "kinds": PIPE}, ("quick", "thorough")),
    "steps2-sensor": ({"tso": 2, "orders": 4, "events": 4, "legs": 2, "out": 2, "kinds": PIPE}, ("quick", "thorough")),
    "steps2-sensors3": ({"tso": 2, "orders": 36, "kinds": PIPE}, ("quick", "thorough")),
    "steps2-targets": ({"agents": 2, "orders": 36, "events": 4}, ("quick", "thorough")),
    "split2-offgrid": ({}, ("quick", "thorough")),
    "steps3-cadence": ({"legs": 4, "events": 3, "out": 6}, ("quick", "thorough")),
    "split3-offgrid": ({"legs": 4, "events": 2}, ("quick", "thorough")),
    "split2-offgrid-sensor": ({"tso": 2, "out": 2, "events": 2, "orders": 4, "kinds": PIPE}, ("thorough",)),
    "step1-4agents": ({"tso": 2, "agents": 8, "orders": 300, "kinds": PIPE}, ("thorough",)),
    "steps2-sensors-all": ({"tso": 2, "agents": 2, "orders": 36, "events": 4, "legs": 2, "out": 2}, ("thorough",)),
    "steps2-targets-all": ({"agents": 2, "orders": 36, "events": 8, "legs": 2, "out": 2}, ("thorough",)),
    "steps3-sensor": ({"tso": 2, "orders": 8, "events": 3, "legs": 4, "out": 3}, ("thorough",)),
    "steps2-full-targets": ({"orders": 1000, "kinds": PIPE}, ("thorough",)),
}


# ------------------------------------------------------------------------------------------------
# agents added at run time: truth dynamics come from the truth propagation settings, whatever the filter uses
# ------------------------------------------------------------------------------------------------
MODELS = ("two_body", "special_perturbations")


def _add_sequence(truth_model, filter_model, order):
    """Real Scenario._addTargetConf / _addSensorConf on a bare Scenario; factories are recording stubs.  Returns the calls."""
    from resonaate.scenario import scenario as SC

    sc = object.__new__(SC.Scenario)
    prop = types.SimpleNamespace(propagation_model=truth_model, integration_method="RK45", station_keeping=False, target_realtime_propagation=True,
                                 sensor_realtime_propagation=True, truth_simulation_only=False)
    sc.scenario_config = types.SimpleNamespace(propagation=prop, geopotential="geo", perturbations="pert", time="time", noise="noise",
                                               estimation=types.SimpleNamespace(sequential_filter=types.SimpleNamespace(dynamics_model=filter_model)))
    sc.clock = "clock"
    sc.target_agents, sc._estimate_agents, sc._sensor_agents = {}, {}, {}
    eng = types.SimpleNamespace(addTarget=lambda i: None, addSensor=lambda i: None)
    sc._tasking_engines = {1: eng}
    calls = []

    def factory(spec, prop_cfg, geo, pert, clock):
        calls.append(("dynamics", spec.id, prop_cfg.propagation_model, prop_cfg is sc.scenario_config.propagation))
        return ("dyn", spec.id, len(calls))

    class TA:
        @staticmethod
        def fromConfig(tgt_cfg, clock, dynamics, prop_cfg):
            calls.append(("truth-target", tgt_cfg.id, dynamics, prop_cfg.propagation_model))
            return types.SimpleNamespace(simulation_id=tgt_cfg.id)

    class EA:
        @staticmethod
        def fromConfig(tgt_cfg, clock, dynamics, time_cfg, noise_cfg, estimation_cfg):
            calls.append(("estimate", tgt_cfg.id, dynamics))
            return types.SimpleNamespace(simulation_id=tgt_cfg.id)

    class SA:
        @staticmethod
        def fromConfig(sen_cfg, clock, dynamics, prop_cfg):
            calls.append(("truth-sensor", sen_cfg.id, dynamics, prop_cfg.propagation_model))
            return types.SimpleNamespace(simulation_id=sen_cfg.id)

    with shadow(SC, dynamicsFactory=factory, TargetAgent=TA, EstimateAgent=EA, SensingAgent=SA):
        for kind, aid in order:
            spec = types.SimpleNamespace(id=aid)
            if kind == "target":
                SC.Scenario._addTargetConf(sc, spec, 1)
            else:
                SC.Scenario._addSensorConf(sc, spec, 1)
    return calls, sc.scenario_config.propagation.propagation_model


def replay_add(d):
    calls, after = _add_sequence(MODELS[d["truth"]], MODELS[d["filter"]], [tuple(x) for x in d["order"]])
    bad = after != MODELS[d["truth"]]
    dyn_of = {}
    for c in calls:
        if c[0] == "dynamics":
            dyn_of.setdefault(c[1], []).append(c[2])
    for c in calls:
        if c[0] in ("truth-target", "truth-sensor"):
            first = dyn_of[c[1]][0]
            bad = bad or first != MODELS[d["truth"]] or c[3] != MODELS[d["truth"]]
    return bool(bad), {"propagation_model_after": after, "dynamics_models_requested": dyn_of, "configured_truth_model": MODELS[d["truth"]], "filter_model": MODELS[d["filter"]]}


def o_add_config(rep):
    """For every choice of truth/filter dynamics model (solver-chosen) and every order of adding two targets and a sensor at run time:
    each added agent's truth dynamics are requested with the configured truth propagation model, and the scenario's propagation
    settings are the same after the additions."""
    import itertools

    orders = [list(p) for p in itertools.permutations([("target", 31), ("target", 32), ("sensor", 41)])]
    for oi, order in enumerate(orders):
        def run(order=order):
            used = set()
            a, _ta = free_choice("truth_model", 2, used)
            b, _tb = free_choice("filter_model", 2, used)
            return a, b, _add_sequence(MODELS[a], MODELS[b], order)

        res = explore(run, max_paths=16)
        for k, r in enumerate(res):
            if r.exc is not None:
                rep.error(f"exception#{oi}", repr(r.exc))
                continue
            a, b, (calls, after) = r.out
            ok = after == MODELS[a]
            first_dyn = {}
            for c in calls:
                if c[0] == "dynamics" and c[1] not in first_dyn:
                    first_dyn[c[1]] = c[2]
            for c in calls:
                if c[0] in ("truth-target", "truth-sensor"):
                    ok = ok and first_dyn[c[1]] == MODELS[a] and c[3] == MODELS[a]
            rep.prove(f"add-config[order {oi}]#{k}", z3.BoolVal(bool(ok)), r.constraints, inputs=lambda m, a=a, b=b, order=order: {"truth": a, "filter": b, "order": order},
                      replay=replay_add, sample="agents added at run time get truth dynamics of the configured truth model; the propagation settings are not modified by adding agents")


# ------------------------------------------------------------------------------------------------
# output cadence and the step grid: two scenarios that differ only in output_step_sec integrate truth on the same grid
# ------------------------------------------------------------------------------------------------
CAD_START, CAD_STOP = _dt.datetime(2021, 3, 30, 16, 0, 0), _dt.datetime(2021, 3, 30, 17, 0, 0)
CAD_MAX_OUT = 86400


def _clock_request(cfg):
    """What the real ScenarioClock.fromConfig asks the clock constructor for: (start, time span, step)."""
    from resonaate.scenario import clock as CK

    got = []

    class RecClock(CK.ScenarioClock):
        def __init__(self, start_date, time_span, dt_step):
            got.append((start_date, time_span, dt_step))

    RecClock.fromConfig(cfg)
    return got[0]


def _scenario_step(cfg):
    """The step propagateTo advances by: the real Scenario.physics_time_step of a scenario holding this time configuration."""
    from resonaate.scenario import scenario as SC

    sc = object.__new__(SC.Scenario)
    sc.scenario_config = Duck(time=cfg)
    return sc.physics_time_step


def replay_cadence(d):
    """The real pydantic TimeConfig and the real ScenarioClock (constructor included) for two output cadences."""
    from resonaate.scenario import clock as CK
    from resonaate.scenario.config.time_config import TimeConfig

    out = {}
    seen = []
    db = types.SimpleNamespace(insertData=lambda *rows: None)
    for key in ("output_1", "output_2"):
        try:
            cfg = TimeConfig(start_timestamp=CAD_START, stop_timestamp=CAD_STOP, physics_step_sec=d["physics"], output_step_sec=d[key])
        except ValueError as e:  # a rejected configuration runs no scenario at all
            return False, {"rejected": key, "error": repr(e)[:300]}
        with shadow(CK, getDBConnection=lambda: db):
            clock = CK.ScenarioClock.fromConfig(cfg)
        epochs = []
        for _ in range(4):
            clock.ticToc()
            epochs.append(float(clock.time))
        out[key] = {"output_step_sec": d[key], "physics_step_sec": cfg.physics_step_sec, "clock_dt_step": float(clock.dt_step), "time_span": float(clock.time_span),
                    "start": cfg.start_timestamp.isoformat(), "first_epochs": epochs, "scenario_physics_time_step": float(_scenario_step(cfg))}
        seen.append((cfg.physics_step_sec, float(clock.dt_step), float(clock.time_span), cfg.start_timestamp, cfg.stop_timestamp, tuple(epochs), float(_scenario_step(cfg))))
    return seen[0] != seen[1], out


def o_cadence_config(rep, physics):
    """TimeConfig validation + ScenarioClock.fromConfig for a given physics step and two symbolic output cadences."""
    from resonaate.scenario.config import time_config as TC
    from symx.core import assume, integer
    from symx.ext_c10 import field_preconditions, math_functions_on_proxies, run_validators

    def run():
        o1, o2 = integer("output_1"), integer("output_2")
        assume(o1.t <= CAD_MAX_OUT, o2.t <= CAD_MAX_OUT)
        made = []
        with shadow(TC, **math_functions_on_proxies(TC)):
            for o in (o1, o2):
                vals = dict(start_timestamp=CAD_START, stop_timestamp=CAD_STOP, physics_step_sec=physics, output_step_sec=o)
                assume(*field_preconditions(TC.TimeConfig, vals))
                try:
                    cfg = run_validators(TC.TimeConfig, vals)
                except ValueError as e:
                    return o1, o2, None, repr(e)
                made.append((cfg.physics_step_sec, cfg.start_timestamp, cfg.stop_timestamp, _clock_request(cfg), _scenario_step(cfg)))
        return o1, o2, made, None

    res = explore(run, max_paths=400, max_depth=200, catch=(Exception,))
    accepted = 0
    regions = {"assumptions": lambda o1, o2: [], "non-multiple cadence": lambda o1, o2: [o1.t % physics == 0, o2.t % physics != 0, o2.t > physics],
               "cadence shorter than the step": lambda o1, o2: [o1.t == physics, o2.t < physics]}
    reached = set()
    for k, r in enumerate(res):
        if r.exc is not None:
            rep.error(f"exception[physics={physics}]#{k}", repr(r.exc))
            continue
        o1, o2, made, rejected = r.out
        if rejected is not None:
            rep.note(f"physics={physics} path {k}: configuration rejected by validation ({rejected[:80]}): no scenario, nothing to relate")
            continue
        accepted += 1
        (p1, s1, e1, c1, q1), (p2, s2, e2, c2, q2) = made
        ck = Checks()
        ck.add("physics_step_sec after validation depends on the output cadence", _same_i(p1, p2))
        ck.add("start/stop after validation depend on the output cadence", [s1 == s2, e1 == e2])
        ck.add("clock start depends on the output cadence", c1[0] == c2[0])
        ck.add("clock time span depends on the output cadence", _same_i(c1[1], c2[1]))
        ck.add("clock step depends on the output cadence", _same_i(c1[2], c2[2]))
        ck.add("Scenario.physics_time_step depends on the output cadence", _same_i(q1, q2))
        for what, region in regions.items():
            # vacuity guards: each interesting class of cadence pairs lies on some accepted path
            if what not in reached and solve(r.constraints + region(o1, o2), 20000).status == "sat":
                reached.add(what)
                rep.reachable(f"cadence-config[physics={physics}]:{what}", r.constraints + region(o1, o2))
        if len(rep.violations) >= MAX_VIOLATIONS:
            continue
        rep.prove(f"cadence-config[physics={physics}]#{k}", ck.goal(), r.constraints,
                  inputs=lambda m, o1=o1, o2=o2: {"physics": physics, "output_1": mval(m, o1.t), "output_2": mval(m, o2.t)}, replay=replay_cadence,
                  sample=f"physics_step_sec={physics}: for all output cadences o1, o2 in 2..{CAD_MAX_OUT} the validated physics step, time span and the clock's step are the same")
    if not accepted:
        rep.error(f"reach[physics={physics}]", "no path on which both configurations are accepted")
    for what in regions:
        if accepted and what not in reached:
            rep.note(f"physics={physics}: no accepted path with: {what} (such configurations are rejected by validation)")


def _same_i(a, b):
    """Equality of two integers/durations that may be proxies."""
    ta, tb = getattr(a, "t", None), getattr(b, "t", None)
    if ta is None and tb is None:
        return bool(a == b)
    ta = ta if ta is not None else (z3.IntVal(int(a)) if float(a) == int(a) else rv(a))
    tb = tb if tb is not None else (z3.IntVal(int(b)) if float(b) == int(b) else rv(b))
    if ta.sort() != tb.sort():
        ta, tb = (z3.ToReal(ta) if ta.sort() == z3.IntSort() else ta), (z3.ToReal(tb) if tb.sort() == z3.IntSort() else tb)
    return True if ta.eq(tb) else ta == tb


# ------------------------------------------------------------------------------------------------------------------------
# remove-frame: removing a target while the scenario runs leaves the other agents, and everything scheduled for them, alone
# ------------------------------------------------------------------------------------------------------------------------
_UNIVERSE = (11, 12, 13)


def _bare_scenario_for_removal(db, log):
    from resonaate.scenario import scenario as SC

    class Tok:
        def __init__(self, aid):
            self.simulation_id = aid

    class Eng:
        def removeTarget(self, aid):
            log.append(("engine.removeTarget", aid))

    class Log:
        def __getattr__(self, n):
            return lambda *a, **k: None

    sc = object.__new__(SC.Scenario)
    sc.target_agents = {a: Tok(a) for a in _UNIVERSE}
    sc._estimate_agents = {a: Tok(a) for a in _UNIVERSE}
    sc._tasking_engines = {1: Eng()}
    sc.logger = Log()
    sc.database = db
    sc._importer_db = None
    return sc


def replay_remove(d):
    """Real in-memory database with one scheduled maneuver per target, real Scenario.removeTarget: what is left for the others."""
    from resonaate.data.events import EventScope
    from resonaate.data.events.scheduled_impulse import ScheduledImpulseEvent
    from resonaate.data.events import Event
    from resonaate.data.resonaate_database import ResonaateDatabase
    from sqlalchemy.orm import Query

    db = ResonaateDatabase(None)
    for a in _UNIVERSE:
        db.insertData(ScheduledImpulseEvent(scope=EventScope.AGENT_PROPAGATION.value, scope_instance_id=a, start_time_jd=2459000.5 + a, end_time_jd=2459000.5 + a,
                                            event_type="impulse", thrust_vec_0=0.0, thrust_vec_1=0.001, thrust_vec_2=0.0, thrust_frame="ntw", planned=False))
    log = []
    sc = _bare_scenario_for_removal(db, log)
    removed = int(d["removed"])
    try:
        sc.removeTarget(removed, 1)
    except Exception as e:  # noqa: BLE001
        return True, {"raised": f"{type(e).__name__}: {e}"[:200]}
    left = sorted(int(e.scope_instance_id) for e in db.getData(Query(Event)))
    others = sorted(a for a in _UNIVERSE if a != removed)
    agents = sorted(sc.target_agents)
    bad = any(a not in left for a in others) or agents != others or sorted(sc._estimate_agents) != others
    return bad, {"removed": removed, "scheduled maneuvers left for": left, "targets left": agents}


def o_remove_frame(rep):
    from harness.c01 import eval_where
    from resonaate.data.events import EventScope
    from symx.core import SBool, integer, assume

    def run():
        removed, rid = integer("removed"), integer("row_id")
        assume(z3.Or(*[removed.t == a for a in _UNIVERSE]), z3.Or(*[rid.t == a for a in _UNIVERSE]))
        deleted, log = [], []

        class DB:
            """deleteData / getData evaluate the real query's where-clause on a symbolic event row (one row of each scope, any addressee)."""

            def deleteData(self, query):
                n = 0
                for sc_ in EventScope:
                    row = {"scope": sc_.value, "scope_instance_id": rid, "event_type": "impulse"}
                    v = eval_where(query.whereclause, row) if query.whereclause is not None else True
                    if bool(v):
                        deleted.append(sc_.value)
                        n += 1
                return n

            def getData(self, query, multi=True):
                return [] if multi else None

            def insertData(self, *rows):
                log.append(("insert", len(rows)))

            def bulkSave(self, rows):
                log.append(("bulk", len(rows)))

        sc = _bare_scenario_for_removal(DB(), log)
        before = {k: dict(getattr(sc, k)) for k in ("target_agents", "_estimate_agents")}
        # the id arrives from the event row as a plain int: one path per member of the universe
        for a in _UNIVERSE:
            if bool(removed == a):
                sc.removeTarget(a, 1)
                break
        return removed, rid, deleted, log, sc, before

    res = explore(run, max_paths=64)
    n = 0
    for k, r in enumerate(res):
        if r.exc is not None:
            rep.prove(f"no-exception#{k} [{type(r.exc).__name__}]", z3.BoolVal(False), r.constraints, inputs=lambda m: {"removed": int(str(m.eval(z3.Int("removed"), model_completion=True)))},
                      replay=replay_remove, sample="removing an existing target does not raise")
            continue
        removed, rid, deleted, log, sc, before = r.out
        inputs = lambda m: {"removed": int(str(m.eval(z3.Int("removed"), model_completion=True)))}  # noqa: E731
        # (a) a deleted event row is addressed to the removed target, in the agent-propagation scope
        ok_rows = z3.And(*[z3.And(rid.t == removed.t, z3.BoolVal(scope == EventScope.AGENT_PROPAGATION.value)) for scope in deleted]) if deleted else z3.BoolVal(True)
        rep.prove(f"events-of-others-untouched#{k}", ok_rows, r.constraints, inputs=inputs, replay=replay_remove,
                  sample="whatever removeTarget deletes from the event table is addressed to the removed target (scheduled maneuvers of the other agents stay)")
        # (b) the other agents are the same objects as before, the removed one is gone, nothing was written
        same = all(getattr(sc, key).get(a) is before[key][a] for key in before for a in _UNIVERSE if a in getattr(sc, key))
        gone = z3.And(*[z3.Implies(removed.t == a, z3.BoolVal(all(a not in getattr(sc, key) for key in before) and all(b in getattr(sc, key) for key in before for b in _UNIVERSE if b != a)))
                        for a in _UNIVERSE])
        rep.prove(f"agents-frame#{k}", z3.And(z3.BoolVal(bool(same)), gone, z3.BoolVal(not [x for x in log if x[0] in ("insert", "bulk")])), r.constraints, inputs=inputs, replay=replay_remove,
                  sample="removeTarget drops exactly the removed target and its estimate; every other agent object is untouched; nothing is written")
        n += 1
    if n == 0:
        rep.error("reach", "no path")
    else:
        rep.reachable("reach", res[0].constraints if res[0].exc is None else [])


# ------------------------------------------------------------------------------------------------------------------------
# builder-frame: the truth / filter dynamics the real ScenarioBuilder gives a target depend on that target's configuration only
# ------------------------------------------------------------------------------------------------------------------------
def _builder_world(platforms, order):
    """Bare ScenarioBuilder (real _initTargets / _initEstimates, real dynamicsFactory, real SpecialPerturbations constructor) over the targets in `order`;
    agent construction is a recording stub.  platforms: {id: (area, mass, reflectivity)} (numbers or proxies)."""
    from resonaate.scenario import scenario_builder as SB
    from resonaate.scenario.config.agent_config import AgentConfig
    from resonaate.scenario.config.geopotential_config import GeopotentialConfig
    from resonaate.scenario.config.perturbations_config import PerturbationsConfig
    from resonaate.scenario.config.platform_config import SpacecraftConfig
    from resonaate.scenario.config.propagation_config import PropagationConfig
    from resonaate.physics.time.stardate import JulianDate

    class Tok:
        def __init__(self, **k):
            self.__dict__.update(k)

    class Log:
        def __getattr__(self, n):
            return lambda *a, **k: None

    cfgs = {}
    for aid in order:
        area, mass, refl = platforms[aid]
        base = AgentConfig(id=aid, name=f"T{aid}", state={"type": "eci", "position": [7000.0 + aid, 100.0, -300.0], "velocity": [0.3, 7.1, 2.0]}, platform={"type": "spacecraft"})
        plat = SpacecraftConfig.model_construct(**{**base.platform.__dict__, "visual_cross_section": area, "mass": mass, "reflectivity": refl})
        cfgs[aid] = base.model_copy(update={"platform": plat})
    b = object.__new__(SB.ScenarioBuilder)
    b.validated_target_configs = cfgs
    b.logger = Log()
    b.clock = Tok(julian_date_start=JulianDate(2459000.5), julian_date_epoch=JulianDate(2459000.5), time=0.0)
    est = Tok(sequential_filter=Tok(dynamics_model="special_perturbations"))
    b._config = Tok(propagation=PropagationConfig(propagation_model="special_perturbations"), geopotential=GeopotentialConfig(),
                   perturbations=PerturbationsConfig(third_bodies=["sun"], solar_radiation_pressure=True, general_relativity=False), time=None, noise=None, estimation=est)
    got = {"truth": {}, "filter": {}}

    class TA:
        @staticmethod
        def fromConfig(tgt_cfg, clock, dynamics, prop_cfg):
            got["truth"][tgt_cfg.id] = dynamics
            return Tok(simulation_id=tgt_cfg.id)

    class EA:
        @staticmethod
        def fromConfig(tgt_cfg, clock, dynamics, time_cfg, noise_cfg, estimation_cfg):
            got["filter"][tgt_cfg.id] = dynamics
            return Tok(simulation_id=tgt_cfg.id)

    with shadow(SB, TargetAgent=TA, EstimateAgent=EA):
        b._initTargets()
        b._initEstimates()
    return got


def _dyn_params(d):
    """What a SpecialPerturbations object carries that is specific to an agent or a configuration (the coefficient tables are shared data)."""
    return {k: v for k, v in vars(d).items() if k not in ("c_nm", "s_nm")}


def replay_builder(d):
    plats = {int(k): tuple(v) for k, v in d["platforms"].items()}
    ids = sorted(plats)
    worst, where = 0.0, None
    for order in (ids, ids[::-1]):
        both = _builder_world(plats, order)
        for aid in ids:
            alone = _builder_world(plats, [aid])
            for kind in ("truth", "filter"):
                a, b = both[kind][aid].sat_ratio, alone[kind][aid].sat_ratio
                want = (1.0 + plats[aid][2]) * plats[aid][0] / plats[aid][1]
                e = max(abs(a - b), abs(a - want)) / max(1e-12, abs(want))
                if e > worst:
                    worst, where = e, f"{kind} dynamics of target {aid}, targets listed as {order}"
    return worst > 1e-9, {"largest relative deviation of the area-to-mass coefficient": worst, "where": where}


def o_builder_frame(rep):
    from symx.core import assume, real, single_path

    ids = (11, 12)
    with single_path() as p:
        plats = {}
        for aid in ids:
            a, m, r = real(f"area{aid}"), real(f"mass{aid}"), real(f"refl{aid}")
            assume(a.t > 0, a.t <= 1000, m.t >= 1, m.t <= 100000, r.t >= 0, r.t <= 1)
            plats[aid] = (a, m, r)
        runs = {"12": _builder_world(plats, [11, 12]), "21": _builder_world(plats, [12, 11])}
        alone = {aid: _builder_world(plats, [aid]) for aid in ids}
        cons = p.constraints()

        def inputs(mo):
            return {"platforms": {str(aid): [float(mval(mo, v.t)) for v in plats[aid]] for aid in ids}}

        for tag, both in runs.items():
            for aid in ids:
                for kind in ("truth", "filter"):
                    A, B = _dyn_params(both[kind][aid]), _dyn_params(alone[aid][kind][aid])
                    goals = [z3.BoolVal(sorted(A) == sorted(B))]
                    for k in sorted(set(A) & set(B)):
                        x, y = A[k], B[k]
                        if isinstance(x, SReal) or isinstance(y, SReal):
                            goals.append((x.t if isinstance(x, SReal) else rv(x)) == (y.t if isinstance(y, SReal) else rv(y)))
                        elif isinstance(x, dict):
                            goals.append(z3.BoolVal(sorted(map(str, x)) == sorted(map(str, y))))
                        else:
                            try:
                                goals.append(z3.BoolVal(bool(x == y)))
                            except Exception:  # noqa: BLE001
                                goals.append(z3.BoolVal(type(x) is type(y)))
                    area, mass, refl = plats[aid]
                    goals.append(both[kind][aid].sat_ratio.t * mass.t == (1 + refl.t) * area.t)
                    rep.prove(f"{kind}-dynamics[target {aid}, listed {tag}]", z3.And(*goals), cons, inputs=inputs, replay=replay_builder,
                              sample="the dynamics object the builder gives a target carries that target's own area-to-mass coefficient and equals what it gets when it is the only target")
        rep.reachable("reach", cons)


def obligations(tier):
    obs = []
    for fam, (expect, tiers) in EXPECT.items():
        if tier not in tiers:
            continue
        name = f"frame-{fam}"
        obs.append(Ob(name, (lambda f, x: lambda rep: o_family(rep, f, x))(fam, expect), f"non-interference of truth, family {fam}: {FAMILIES[fam]}", 880))
        REPLAYS[name] = replay_family
    obs.append(Ob("builder-frame", o_builder_frame, "ScenarioBuilder._initTargets/_initEstimates with two spacecraft of symbolic area, mass, reflectivity: each target's dynamics is its own", 300))
    REPLAYS["builder-frame"] = replay_builder
    obs.append(Ob("remove-frame", o_remove_frame, "Scenario.removeTarget on a running scenario: only the removed target disappears; scheduled events of the other agents stay", 300))
    REPLAYS["remove-frame"] = replay_remove
    obs.append(Ob("add-config", o_add_config, "run-time additions do not change the truth propagation settings", 300))
    REPLAYS["add-config"] = replay_add
    for ph in ((60, 300) if tier == "quick" else (2, 7, 45, 60, 300, 3080)):
        obs.append(Ob(f"cadence-config-physics{ph}", (lambda ph: lambda rep: o_cadence_config(rep, ph))(ph),
                      f"physics_step_sec={ph}: the validated time configuration and the clock built from it do not depend on output_step_sec", 300))
        REPLAYS[f"cadence-config-physics{ph}"] = replay_cadence
    for dt in ((60, 300) if tier == "quick" else (1, 7, 60, 300, 3080)):
        obs.append(Ob(f"split-count-dt{dt}", (lambda dt: lambda rep: o_split_count(rep, dt))(dt), f"split run requests the same number of steps as the single run, dt={dt}", 880))
        REPLAYS[f"split-count-dt{dt}"] = replay_split
    for dt in ((60,) if tier == "quick" else (1, 60, 300)):
        obs.append(Ob(f"split-loop-dt{dt}", (lambda dt: lambda rep: o_split_loop(rep, dt))(dt), f"split run, loops unrolled (<= 3 steps), dt={dt}", 880))
        REPLAYS[f"split-loop-dt{dt}"] = replay_split
    return obs


BOUNDS["run-time removal"] = "remove-frame: real Scenario.removeTarget for any member of a 3-target universe; the where-clause of every delete it issues is evaluated on a symbolic event row (any scope, any addressee)"
BOUNDS["builder"] = "builder-frame: real ScenarioBuilder._initTargets/_initEstimates and dynamicsFactory for two spacecraft with symbolic area (0,1000] m^2, mass [1,1e5] kg, reflectivity [0,1], both list orders, against each target built alone"
ASSUMPTIONS.append("builder-frame: TargetAgent.fromConfig / EstimateAgent.fromConfig are recording stubs; platform configs are built with model_construct so that their fields can be solver variables")


obligations("thorough")  # fills REPLAYS for `check C10 --replay <file>`
