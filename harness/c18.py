"""C18 - multiple-model estimation keeps valid probabilities and moment-matched output."""
from __future__ import annotations

import logging

import numpy as np
import z3

from symx.core import SBool, SInt, SReal, assume, cur, explore, marray, mfloat, mval, real, reals, refute, rv, slice_for
from symx.runner import Ob
from symx.stubs import shadow, sym_zeros

ID = "C18"
TECHNIQUE = ("the real StaticMultipleModel.update / GeneralizedPseudoBayesian1.update / AdaptiveFilter.prune / _compileUpdateStep / _resumeSequentialFiltering / eciStack "
             "are executed on duck-typed member filters with symbolic estimates, covariances, NIS values, innovation covariances, prior weights and thresholds; exp is a cut "
             "function (same argument -> same value e_i >= 0, 0 = underflow allowed), det is computed exactly, sqrt is the engine's contract; numpy's argwhere/delete/sum fork "
             "and run on proxies; on each path z3 proves: every divisor is non-zero, weights are >= 0 and sum to one, the posterior equals prior times the harness's own Gaussian "
             "likelihood N(innovation_i; 0, S_i) = exp(-nis_i/2)/sqrt((2 pi)^m det S_i) of each model's own innovation covariance, renormalised (the oracle is built before and "
             "independently of the code), moment matching, closure hands back the surviving model")
FLOAT_SEMANTICS = "Real-ideal; a non-zero divisor is a proof obligation (0/0 = NaN in doubles)"
ENCODED = ["resonaate.estimation.adaptive.smm:StaticMultipleModel.update", "resonaate.estimation.adaptive.smm:StaticMultipleModel._prunedToSingleModel",
           "resonaate.estimation.adaptive.smm:StaticMultipleModel._convergedToSingleModel", "resonaate.estimation.adaptive.gpb1:GeneralizedPseudoBayesian1.update",
           "resonaate.estimation.adaptive.gpb1:GeneralizedPseudoBayesian1._constructMixMatrix", "resonaate.estimation.adaptive.adaptive_filter:AdaptiveFilter.prune",
           "resonaate.estimation.adaptive.adaptive_filter:AdaptiveFilter._compileUpdateStep", "resonaate.estimation.adaptive.adaptive_filter:AdaptiveFilter._compileForecastStep",
           "resonaate.estimation.adaptive.adaptive_filter:AdaptiveFilter._compilePredictStep", "resonaate.estimation.adaptive.adaptive_filter:AdaptiveFilter._resumeSequentialFiltering",
           "resonaate.estimation.adaptive.mmae_stacking_utils:eciStack"]
BOUNDS = {"models": "2..3 (quick), 2..4 (thorough)", "state dimension": "2", "measurement dimension": "1 (innovation covariance 1x1, symbolic and different per model, > 0)",
          "steps": "one update followed by its pruning/convergence logic", "thresholds": "prune_threshold, prune_percentage symbolic in (0,1)",
          "likelihoods": "exp(-nis_i/2) any value >= 0 including exact 0 (underflow); det S_i any value > 0",
          "bayes tolerance": "exact identity proved on every path of the unchanged tree; when the exact identity fails the solver is asked for a posterior off by more than 1e-6 "
                             "(first among everyday magnitudes: exp factor in [1e-3,1], det S in [1e-2,1e2], prior >= 1e-2; then anywhere)"}
OUTSIDE = ["model generation (initialize, Lambert targeting)", "5..30 models", "the numeric value of exp (cut to a function symbol: congruence, monotone, exp(0)=1, >= 0, small rational multiples of the "
           "exponent; its argument is what the code passes)", "chi-square gate value (uninterpreted)", "measurement dimension >= 2 (det is exact there too, but not run)",
           "total prior-weighted likelihood mass strictly between 5e-16 and 2e-15 (either side of the code's 1e-15 float-resolution threshold for the underflow reset) when the exact "
           "identity does not hold",
           "a refactoring that moves rounding-level constants (e.g. a pre-computed double sqrt(2 pi)) makes the exact identity fail by 1e-16; the tolerance query is then the deciding one "
           "and nlsat may time out on it (reported UNDECIDED, never VIOLATION)"]
ASSUMPTIONS = ["exp is cut: exp(-0.5 nis_i) = e_i >= 0 (0 allowed = underflow); any other argument gets a fresh value constrained by congruence/monotonicity/exp(0)=1/power law for small "
               "rational multiples of a known argument", "det is computed exactly by cofactor expansion (no cut); innovation covariances are positive definite (leading minors > 0)",
               "sqrt is the engine contract r >= 0, r*r = arg (argument >= 0 is a proof obligation)", "chi2.isf uninterpreted", "member filters are duck-typed objects with symbolic fields",
               "prior weights are >= 0 and sum to one (the invariant itself: one inductive step from an arbitrary valid state)"]
LEVEL_TEXT = ("One inductive step of the multiple-model logic from an arbitrary valid weight vector, for every likelihood vector (zeros included), every per-model innovation covariance, "
              "threshold pair and small model count: the probability invariant, Bayes' rule against an independently built Gaussian likelihood, and moment matching are proved by z3 on "
              "every path; an unreachable-by-sampling corner (all weights below the pruning threshold with a zero first weight) is a satisfiable query.")
LEVEL_NOTE = "Model count and dimensions bounded; exp/chi2 cut to symbols; one update step (induction over steps is by the assumed invariant)."

ISF = z3.Function("chi2_isf", z3.RealSort(), z3.RealSort(), z3.RealSort())


def _tr(x):
    if isinstance(x, SReal):
        return x.t
    if isinstance(x, SInt):
        return z3.ToReal(x.t)
    if isinstance(x, SBool):
        return z3.If(x.t, z3.RealVal(1), z3.RealVal(0))
    return rv(x)


TOL = rv(1e-9)


def _approx(a, b):
    """equality up to 1e-9: the code mixes in Python-float constants (1/3, 1/(N-1+mix_ratio)) whose exact rational value is off by ~1e-16"""
    return z3.And(a - b <= TOL, b - a <= TOL)


class Chi2Stub:
    def isf(self, a, d):
        return SReal(ISF(_tr(a), _tr(d)))


def _det(M):
    """exact determinant (cofactor expansion) of a small square array of proxies: a ring expression, no cut"""
    M = np.asarray(M, dtype=object)
    n = M.shape[0]
    if M.ndim != 2 or M.shape[1] != n:
        raise ValueError(f"det of a non-square array {M.shape}")
    if n == 0:
        return SReal(1)
    if n == 1:
        x = M[0, 0]
        return x if isinstance(x, SReal) else SReal(_tr(x))
    tot = SReal(0)
    for j in range(n):
        minor = np.delete(np.delete(M, 0, axis=0), j, axis=1)
        term = M[0, j] * _det(minor)
        tot = tot + term if j % 2 == 0 else tot - term
    return tot


class ExpCut:
    """exp as a cut function: the same argument gives the same value.

    The harness owns e_i := exp(-nis_i/2) (a solver variable >= 0, exact 0 = underflow).  A call of exp on a
    syntactically equal argument returns that variable; any other argument gets a fresh value tied to the known
    ones by the facts every exp satisfies (Ackermann congruence, monotone, exp(0)=1, >= 0) - so the verdict does
    not depend on how the code spells the exponent."""

    def __init__(self):
        self.known = []  # (argument term, value SReal)
        self.calls = []

    def own(self, arg, val):
        self.known.append((arg.t, val))

    def __call__(self, x):
        self.calls.append(x)
        if isinstance(x, np.ndarray):
            out = np.empty(x.shape, dtype=object)
            for idx in np.ndindex(*x.shape):
                out[idx] = self._one(x[idx])
            return out
        return self._one(x)

    def _one(self, x):
        t = _tr(x)
        ts = z3.simplify(t)
        if z3.is_rational_value(ts) and ts.numerator_as_long() == 0:
            return SReal(1)
        for a, v in self.known:
            d = z3.simplify(t - a)
            if z3.is_rational_value(d) and d.numerator_as_long() == 0:
                return v
        v = real(f"expv{len(self.known)}")
        assume(v.t >= 0, z3.Implies(t == 0, v.t == 1), z3.Implies(t < 0, v.t <= 1), z3.Implies(t > 0, v.t >= 1))
        for a, u in self.known:
            assume(z3.Implies(t == a, v.t == u.t), z3.Implies(t < a, v.t <= u.t), z3.Implies(t > a, v.t >= u.t))
            # a small rational multiple of a known argument: exp(p/q * a)^q = exp(a)^p
            for p, q in self.RATIOS:
                d = z3.simplify(t * q - a * p)
                if z3.is_rational_value(d) and d.numerator_as_long() == 0:
                    vq, up = self._pow(v.t, q), self._pow(u.t, abs(p))
                    assume(vq == up if p > 0 else z3.Implies(u.t > 0, vq * up == 1))
                    break
        self.known.append((t, v))
        return v

    RATIOS = [(p * s, q) for q in (1, 2, 3, 4) for p in (1, 2, 3, 4) for s in (1, -1) if p != q or s < 0]

    @staticmethod
    def _pow(x, n):
        r = x
        for _ in range(n - 1):
            r = r * x
        return r


class Model:
    def __init__(self, i, n=2, m=1):
        self.i = i
        self.pred_x, self.est_x = reals(f"px{i}", n), reals(f"ex{i}", n)
        self.Lp, self.Le = reals(f"Lp{i}", n, n), reals(f"Le{i}", n, n)
        self.pred_p, self.est_p = self.Lp.dot(self.Lp.T), self.Le.dot(self.Le.T)
        self.nis = real(f"nis{i}")
        assume(self.nis.t >= 0)
        # e_i stands for the value of exp(-nis_i/2): any value >= 0, exact 0 = underflow (see ExpCut)
        self.e = real(f"e{i}")
        assume(self.e.t >= 0)
        # innovation covariance: positive definite (leading principal minors > 0); its determinant is computed exactly (_det)
        self.innov_cvr = reals(f"S{i}", m, m)
        for k in range(1, m + 1):
            assume(_det(self.innov_cvr[:k, :k]).t > 0)
        self.cross_cvr, self.kalman_gain = reals(f"C{i}", n, m), reals(f"K{i}", n, m)
        self.mean_pred_y, self.innovation, self.true_y = reals(f"my{i}", m), reals(f"inn{i}", m), reals("y", m)
        self.is_angular, self.r_matrix = np.array([False] * m), reals("R", m, m)
        self.time, self.source = 300.0, "Observation"

    def predict(self, *a, **k):
        pass

    def forecast(self, *a, **k):
        pass

    def update(self, *a, **k):
        pass


class Captured:
    """Stands for the sequential filter class handed back on closure."""

    def __init__(self, **kw):
        self.kw = kw


def _mk(kind, N):
    from resonaate.estimation.adaptive import adaptive_filter as AF
    from resonaate.estimation.adaptive import gpb1 as G
    from resonaate.estimation.adaptive import smm as S
    from resonaate.estimation.adaptive.mmae_stacking_utils import eciStack
    from resonaate.estimation.sequential_filter import FilterFlag

    cls = S.StaticMultipleModel if kind == "smm" else G.GeneralizedPseudoBayesian1
    f = object.__new__(cls)
    f.logger = logging.getLogger("symx")
    f.target_id, f.time, f.x_dim = 7, 300.0, 2
    f.models = [Model(i) for i in range(N)]
    f.num_models = N
    w = reals("w", N)
    for x in w:
        assume(x.t >= 0)
    assume(z3.Sum([x.t for x in w]) == 1)
    f.model_weights = w
    f.model_likelihoods = np.array([SReal(1)] * N, dtype=object)
    mu = reals("mu", N)
    for x in mu:
        assume(x.t >= 0)
    assume(z3.Sum([x.t for x in mu]) == 1)
    f.mode_probabilities = mu
    f.prune_threshold, f.prune_percentage = real("thr"), real("pct")
    assume(f.prune_threshold.t > 0, f.prune_threshold.t < 1, f.prune_percentage.t > 0, f.prune_percentage.t < 1)
    f.stacking_method = eciStack
    f._flags = FilterFlag.ADAPTIVE_ESTIMATION_START
    f._filter_class = Captured
    f._converged_filter = None

    class Orig:
        extra_parameters = {}

    f._original_filter = Orig()
    f.dynamics = f.q_matrix = f.maneuver_detection = None
    f.maneuver_metric = None
    f.est_x, f.pred_x = reals("fx", 2), reals("fpx", 2)
    f.true_y = reals("y", 1)
    f.nis = real("fnis")
    f.mix_ratio = 1.5
    return f


def _run(kind, N, then_empty=False):
    from resonaate.estimation.adaptive import adaptive_filter as AF
    from resonaate.estimation.adaptive import gpb1 as G
    from resonaate.estimation.adaptive import smm as S
    from resonaate.physics import statistics as ST

    f = _mk(kind, N)
    w0 = f.model_weights.copy()
    mu0 = f.mode_probabilities.copy()
    models0 = list(f.models)
    # the oracle's Gaussian likelihood of every model's innovation, built by the harness BEFORE the code runs and
    # independently of it:  L_i = exp(-nis_i/2) / sqrt((2 pi)^m det S_i)   (exp cut to e_i, det exact, sqrt = engine contract)
    import math

    m_dim = int(f.true_y.shape[0])
    cut = ExpCut()
    like, dets = [], []

    def det_stub(M):
        dets.append(M)
        return _det(M)

    for mdl in models0:
        cut.own(-0.5 * mdl.nis, mdl.e)
        q = ((2 * math.pi) ** m_dim * _det(mdl.innov_cvr)).sqrt()
        like.append(mdl.e.t / q.t)
    es = [mdl.e for mdl in models0]
    ds = [_det(mdl.innov_cvr) for mdl in models0]
    calls = {"exp": cut.calls, "det": dets}
    exp_stub = cut

    snaps = []
    real_compile = type(f)._compileUpdateStep

    def snap_compile(obs):
        snaps.append({"w": f.model_weights.copy(), "n": len(f.models), "mu": np.array(f.mode_probabilities, dtype=object).copy()})
        real_compile(f, obs)
        snaps[-1].update(est_x=np.array(f.est_x, dtype=object).copy(), est_p=np.array(f.est_p, dtype=object).copy(), models=list(f.models),
                         pred_x=np.array(f.pred_x, dtype=object).copy())

    f._compileUpdateStep = snap_compile
    mod = S if kind == "smm" else G
    with shadow(mod, exp=exp_stub, det=det_stub), shadow(AF, zeros=sym_zeros), shadow(ST, chi2=Chi2Stub()), shadow(G, zeros=sym_zeros, ones=_ones):
        f.update(["obs"])
        if then_empty:
            # a step in which nothing was measured follows (only while adaptive estimation is still open)
            mid = {"w": np.array(f.model_weights, dtype=object).copy(), "mu": np.array(f.mode_probabilities, dtype=object).copy(), "n": len(f.models),
                   "closed": f._converged_filter is not None, "nsnaps": len(snaps)}
            if not mid["closed"]:
                f.update([])
            return f, w0, mu0, models0, es, ds, calls, snaps, like, mid
    return f, w0, mu0, models0, es, ds, calls, snaps, like


def _ones(shape, dtype=None):
    a = np.empty(shape, dtype=object)
    a.fill(SReal(1))
    return a


def _dispatch(d, kind):
    fn = {"bayes": replay_bayes, "mode-prob": replay_mode_prob, "moments": replay_moments, "noobs": replay_noobs}.get(d.get("check"), replay_mm)
    return fn(d, kind)


def replay_smm(d):
    return _dispatch(d, "smm")


def replay_gpb1(d):
    return _dispatch(d, "gpb1")


def _numeric_update(d, kind):
    """One update of the real class on plain floats; returns (filter, weights seen by the first _compileUpdateStep)."""
    import warnings

    from resonaate.estimation.adaptive.gpb1 import GeneralizedPseudoBayesian1
    from resonaate.estimation.adaptive.smm import StaticMultipleModel
    from resonaate.estimation.adaptive.mmae_stacking_utils import eciStack
    from resonaate.estimation.sequential_filter import FilterFlag
    from resonaate.physics import statistics as ST

    StaticMultipleModel = StaticMultipleModel if kind == "smm" else GeneralizedPseudoBayesian1  # noqa: N806
    N = len(d["w"])

    class M:
        def __init__(self, i):
            self.est_x = np.array(d["est_x"][i], dtype=float) if d.get("est_x") else np.array([float(i), 1.0])
            self.est_p = np.array(d["est_p"][i], dtype=float) if d.get("est_p") else np.eye(2)
            self.pred_x = np.array(d["pred_x"][i], dtype=float) if d.get("pred_x") else self.est_x
            self.pred_p = np.array(d["pred_p"][i], dtype=float) if d.get("pred_p") else self.est_p
            self.nis = d["nis"][i]
            self.innov_cvr = np.array([[d["det"][i]]])
            self.cross_cvr = self.kalman_gain = np.ones((2, 1))
            self.mean_pred_y = self.innovation = self.true_y = np.array([0.5])
            self.is_angular, self.r_matrix = np.array([False]), np.eye(1)
            self.time, self.source = 300.0, "Observation"

        def update(self, obs):
            pass

    f = object.__new__(StaticMultipleModel)
    f.logger = logging.getLogger("symx")
    f.target_id, f.time, f.x_dim = 7, 300.0, 2
    f.models = [M(i) for i in range(N)]
    f.num_models = N
    f.model_weights = np.array(d["w"], dtype=float)
    f.model_likelihoods = np.ones(N)
    f.mode_probabilities = np.array(d["mu"], dtype=float) if d.get("mu") else np.ones(N) / N
    f.mix_ratio = 1.5
    f._converged_filter = None
    f.prune_threshold, f.prune_percentage = d["thr"], d["pct"]
    f.stacking_method = eciStack
    f._flags = FilterFlag.ADAPTIVE_ESTIMATION_START
    f._filter_class = Captured

    class Orig:
        extra_parameters = {}

    f._original_filter = Orig()
    f.dynamics = f.q_matrix = f.maneuver_detection = None
    f.maneuver_metric = None
    f.est_x = f.pred_x = np.zeros(2)
    f.true_y, f.nis = np.array([0.5]), 1.0

    class Gate:  # the chi-square gate of the convergence test: open or closed as in the counterexample
        @staticmethod
        def isf(a, dof):
            return 1e300 if d.get("gate_open", True) else -1.0

    first = []
    real_compile = type(f)._compileUpdateStep

    def snap_compile(obs):
        snap = {"w": np.asarray(f.model_weights, dtype=float).copy(), "mu": np.asarray(f.mode_probabilities, dtype=float).copy()}
        first.append(snap)
        real_compile(f, obs)
        snap.update(models=list(f.models), est_x=np.asarray(f.est_x, dtype=float).copy(), est_p=np.asarray(f.est_p, dtype=float).copy())

    f._compileUpdateStep = snap_compile
    f.compile_snaps = first
    with warnings.catch_warnings():
        warnings.simplefilter("ignore")
        with np.errstate(all="ignore"), shadow(ST, chi2=Gate):
            f.update(["obs"])
            if d.get("then_empty") and f._converged_filter is None:
                f.mid_weights = np.asarray(f.model_weights, dtype=float).copy()
                f.mid_n = len(f.models)
                f.update([])
    return f, (first[0]["w"] if first else None)


BAYES_TOL = 1e-6  # the solver is asked for a posterior off by more than this; the replay accepts a deviation above a tenth of it
MASS_HI, MASS_LO = 2e-15, 5e-16  # either side of the code's float-resolution threshold (1e-15) for "the whole mass underflowed"


def replay_bayes(d, kind):
    """The posterior model probabilities of the real update (as seen by the first stacking step, before pruning)
    against an independently computed  prior_i * N(innovation_i; 0, S_i) / sum_j ..."""
    import math

    f, post = _numeric_update(d, kind)
    N = len(d["w"])
    prior = [float(x) for x in (d["w"] if kind == "smm" else d["mu"])]
    like = [math.exp(-0.5 * d["nis"][i]) / math.sqrt(2 * math.pi * d["det"][i]) for i in range(N)]
    mass = sum(p * l for p, l in zip(prior, like))
    detail = {"prior": prior, "gaussian_likelihoods": like, "posterior_of_the_code": None if post is None else post.tolist()}
    if post is None or len(post) != N or not np.all(np.isfinite(post)):
        detail["why"] = "no finite posterior of the right length"
        return True, detail
    if mass >= MASS_HI:
        want = [p * l / mass for p, l in zip(prior, like)]
    elif mass <= MASS_LO:
        want = [1.0 / N] * N if kind == "smm" else prior
    else:
        return False, detail
    detail["posterior_by_bayes_rule"] = want
    dev = max(abs(a - b) for a, b in zip(post, want))
    detail["max_deviation"] = dev
    return bool(dev > BAYES_TOL / 10), detail


def replay_noobs(d, kind):
    """An update without observations after an observed one: nothing was measured, so the model probabilities must stay what they were
    (Bayes' rule with no evidence) and the combined estimate the probability-weighted mean of the models."""
    d = dict(d, then_empty=True)
    f, _post = _numeric_update(d, kind)
    if not hasattr(f, "mid_weights"):
        return False, {"why": "adaptive estimation closed in the observed step"}
    w1, w2 = f.mid_weights, np.asarray(f.model_weights, dtype=float)
    detail = {"probabilities_after_observed_step": w1.tolist(), "probabilities_after_empty_step": w2.tolist()}
    if f._converged_filter is not None and len(w2) != len(w1):
        # closing on an empty step can only come from pruning/convergence on unchanged probabilities
        return False, detail
    if len(w1) != len(w2) or not np.all(np.isfinite(w2)):
        return True, detail
    dev = float(np.abs(w1 - w2).max())
    detail["max_deviation"] = dev
    return bool(dev > BAYES_TOL / 10), detail


def replay_mode_prob(d, kind):
    """GPB1: the mixed mode probabilities after the update are a distribution."""
    f, _post = _numeric_update(d, kind)
    mu = f.compile_snaps[0]["mu"] if f.compile_snaps else np.array([np.nan])
    bad = (not np.all(np.isfinite(mu))) or np.any(mu < 0) or abs(mu.sum() - 1) > 1e-7
    return bool(bad), {"mode_probabilities_after_mixing": mu.tolist()}


def replay_moments(d, kind):
    """Every stacking step: est_x / est_p against the probability-weighted mean and the moment-matched mixture covariance."""
    f, _post = _numeric_update(d, kind)
    worst, detail = 0.0, {}
    for k, s in enumerate(f.compile_snaps):
        w, ms = s["w"], s["models"]
        if len(w) != len(ms) or not (np.all(np.isfinite(s["est_x"])) and np.all(np.isfinite(s["est_p"]))):
            return True, {"step": k, "why": "weights/models of different length or non-finite estimate", "weights": w.tolist(), "models": len(ms)}
        ex = sum(w[i] * ms[i].est_x for i in range(len(ms)))
        ep = sum(w[i] * (ms[i].est_p + np.outer(ms[i].est_x - ex, ms[i].est_x - ex)) for i in range(len(ms)))
        scale = 1.0 + max(np.max(np.abs(ep)), np.max(np.abs(ex)))
        dev = max(np.max(np.abs(s["est_x"] - ex)), np.max(np.abs(s["est_p"] - ep)), np.max(np.abs(s["est_p"] - s["est_p"].T))) / scale
        if dev > worst:
            worst, detail = dev, {"step": k, "weights": w.tolist(), "est_x": s["est_x"].tolist(), "weighted_mean": ex.tolist(), "est_p": s["est_p"].tolist(), "mixture_covariance": ep.tolist()}
    detail["max_relative_deviation"] = float(worst)
    return bool(worst > 1e-9), detail


def replay_mm(d, kind):
    """Numeric replay of one update (likelihoods, Bayes step, pruning, closure) on the real class."""
    f, _first = _numeric_update(d, kind)
    w = np.asarray(f.model_weights, dtype=float)
    bad = (not np.all(np.isfinite(w))) or np.any(w < 0) or abs(w.sum() - 1) > 1e-9 or len(f.models) < 1 or len(w) != len(f.models)
    bad = bad or not np.all(np.isfinite(np.asarray(f.est_x, dtype=float)))
    detail = {"weights_after": w.tolist(), "models_left": len(f.models), "est_x": np.asarray(f.est_x, dtype=float).tolist()}
    if f._converged_filter is not None:
        kw = f._converged_filter.kw
        detail["closed_with_models"] = len(f.models)
        single = len(f.models) == 1 and np.allclose(np.asarray(kw["est_x"], dtype=float), f.models[0].est_x) and np.allclose(np.asarray(kw["est_p"], dtype=float), f.models[0].est_p)
        if kind == "smm" and d["pct"] > 0.5 and not single:
            bad = True
            detail["closure"] = "the filter handed back is not the single surviving model"
    return bool(bad), detail


def _prove(rep, label, goal, cons, sample=None, **kw):
    """Sliced query first (only the constraints over the goal's own variables: dropping hypotheses is sound for a proof and
    takes the thresholds/estimates out of nlsat's way - measured 0.2 s instead of 24 s on the N=4 Bayes identity); a sat/unknown
    answer of the sliced query means nothing, the full query through Report.prove decides then."""
    cons = list(cons)
    sl = slice_for(goal, cons)
    if len(sl) < len(cons):
        t = kw.get("timeout_ms", 30000)
        v = refute(goal, sl, min(t, 15000) if t <= 60000 else t // 2)
        if v.status == "unsat":
            rep._item(label, "prove", v, {"sliced": f"{len(sl)} of {len(cons)} constraints"})
            if sample is not None:
                rep.sample({"obligation": f"{rep.ob}:{label}", "verdict": "unsat", "what": sample})
            return True
    return rep.prove(label, goal, cons, sample=sample, **kw)


def o_mm(rep, kind, N, part=0, parts=1):
    """part/parts: the paths are shared out over `parts` obligations (each explores all paths - cheap - and proves its share)."""
    res = explore(lambda: _run(kind, N), max_paths=3000, max_depth=200, recip=False)
    rep.note(f"{kind} N={N}: paths={len(res)} (this obligation proves paths with index % {parts} == {part})")
    n = 0
    closed = 0
    witnessed = False
    for r in res:
        if r.exc is not None:
            rep.error("exception", f"{r.exc!r}")
            continue
        f, w0, mu0, models0, es, ds, calls, snaps, like = r.out
        n += 1
        if f._converged_filter is not None:
            closed += 1
        tag = f"{kind}[N={N}]#{n}"
        if not witnessed:
            # vacuity guard (over all paths, not only this obligation's share): a path where Bayes' rule is the claim (mass above the
            # underflow zone) with two models whose innovation covariances have different determinants and both carry weight
            pri = w0 if kind == "smm" else mu0
            mass = z3.Sum([pri[i].t * like[i] for i in range(N)])
            wit = rep.feasible(f"{tag}-bayes-reach", list(r.constraints) + [mass >= rv(MASS_HI), ds[0].t != ds[1].t, pri[0].t * like[0] > 0, pri[1].t * like[1] > 0], timeout_ms=10000)
            witnessed = wit is not None and wit is not True
        if (n - 1) % parts != part:
            continue

        def inputs(m, es=es, ds=ds):
            # likelihood e_i/sqrt(2 pi d_i): realise through nis and a 1x1 innovation covariance
            import math

            e = [mfloat(m, x.t) for x in es]
            dd = [mfloat(m, x.t) for x in ds]
            nis = [(-2 * math.log(x) if x > 0 else 1e6) for x in e]
            return {"w": [mfloat(m, z3.Real(f"w_{i}")) for i in range(N)], "mu": [mfloat(m, z3.Real(f"mu_{i}")) for i in range(N)], "nis": nis, "det": dd,
                    "thr": mfloat(m, z3.Real("thr")), "pct": mfloat(m, z3.Real("pct")), "gate_open": True}

        # (0) every divisor is non-zero / every sqrt argument non-negative when it is reached
        for k, (c, hyp) in enumerate(r.path.domain_obligations()):
            _prove(rep, f"{tag}-finite{k}", c, hyp, inputs=inputs, replay=replay_smm if kind == "smm" else replay_gpb1,
                      sample="divisor != 0 (weights stay finite) at the point where the division happens")
        cons = r.constraints
        big = 30000 if N <= 3 else 120000  # nlsat's time on the N=4 normalisation identities varies between 0.4 s and 30 s from run to run
        # (1) invariant after the whole update (incl. pruning)
        wf = f.model_weights
        goals = [z3.And(*[_tr(x) >= 0 for x in wf]), _approx(z3.Sum([_tr(x) for x in wf]), z3.RealVal(1)), z3.BoolVal(len(f.models) >= 1),
                 z3.BoolVal(len(wf) == len(f.models) == len(f.model_likelihoods) == len(f.mode_probabilities) == f.num_models)]
        # proof hint (cut rule, itself proved first by Report.prove): the posterior seen by the first stacking step is a distribution
        p0 = [_tr(x) for x in snaps[0]["w"]]
        post_is_dist = ("posterior-is-a-distribution", z3.And(_approx(z3.Sum(p0), z3.RealVal(1)), *[x >= 0 for x in p0]))
        _prove(rep, f"{tag}-invariant", z3.And(*goals), cons, timeout_ms=big, lemmas=[post_is_dist], inputs=inputs, replay=replay_smm if kind == "smm" else replay_gpb1,
                  sample="after update+prune: weights >= 0, sum to one, >= 1 model, all per-model arrays of equal length")
        # (2) Bayes' rule at the first compile (before pruning): posterior = prior * Gaussian likelihood of the model's own
        #     innovation (its own S_i), renormalised.  `like` is the harness's own formula (built before the code ran).
        #     The exact identity is tried first: when it is a theorem it is the deciding item.  When it is not, it is only a candidate:
        #     the deciding query then asks for a posterior off by more than BAYES_TOL so that a counterexample replays robustly in doubles.
        s0 = snaps[0]
        replay = replay_smm if kind == "smm" else replay_gpb1
        prior = w0 if kind == "smm" else mu0
        post = [_tr(x) for x in s0["w"]]
        ok_len = len(post) == N
        if not ok_len:
            post = (post + [z3.RealVal(0)] * N)[:N]
        tot = z3.Sum([prior[i].t * like[i] for i in range(N)])
        tiny = z3.And(tot < rv(1e-15), tot > -rv(1e-15))
        bayes = z3.And(*[post[i] * tot == prior[i].t * like[i] for i in range(N)])
        bt = rv(BAYES_TOL)
        bayes_tol = z3.And(*[z3.And(post[i] * tot - prior[i].t * like[i] <= bt * tot, prior[i].t * like[i] - post[i] * tot <= bt * tot) for i in range(N)])
        if kind == "smm":
            reset = z3.And(*[_approx(post[i] * N, z3.RealVal(1)) for i in range(N)])
            what = "SMM: w' = w*N(innov_i;0,S_i) / sum_j w_j*N(innov_j;0,S_j), uniform reset when the mass underflows"
        else:
            reset = z3.And(*[_approx(post[i], prior[i].t) for i in range(N)])
            what = "GPB1: w' = mu*N(innov_i;0,S_i) / c (likelihoods reset to one when c underflows)"
        goal = z3.And(z3.BoolVal(ok_len), z3.Implies(tot >= rv(MASS_HI), bayes_tol), z3.Implies(tot <= rv(MASS_LO), reset))

        def tagged(check, inputs=inputs, models0=models0):
            def fn(m):
                dct = inputs(m)
                dct["check"] = check
                if check == "moments":  # the member filters' own estimates matter only here (elsewhere the replay uses distinct defaults)
                    for key in ("est_x", "est_p", "pred_x", "pred_p"):
                        dct[key] = [marray(m, getattr(mdl, key)).tolist() for mdl in models0]
                return dct

            return fn

        inputs_bayes = tagged("bayes")

        exact = z3.And(z3.BoolVal(ok_len), z3.If(tiny, reset, bayes))
        # short budgets once a violation is on record; long ones for N=4 (measured: the same identity takes 0.04 s on most paths, 6..25 s on a few)
        t_sliced, t_full = (3000, 3000) if rep.violations else ((15000, 30000) if N <= 3 else (60000, 120000))
        lv = refute(exact, slice_for(exact, cons), t_sliced)
        if lv.status != "unsat":
            lv = refute(exact, cons, t_full)
        if lv.status == "unsat":
            # the exact identity (with the code's own 1e-15 underflow threshold) is a theorem on this path: it implies `goal`
            rep._item(f"{tag}-bayes", "prove", lv)
            rep.sample({"obligation": f"{rep.ob}:{tag}-bayes", "verdict": "unsat", "what": what})
        else:
            rep._item(f"{tag}-bayes:exact", "candidate", lv)
            # the exact identity is not a theorem on this path: look for a counterexample of everyday size first (likelihood
            # factors, determinants and priors well inside the double range: nothing near the underflow threshold), then anywhere
            typical = [z3.And(es[i].t >= rv(1e-3), es[i].t <= 1, ds[i].t >= rv(1e-2), ds[i].t <= 100, prior[i].t >= rv(1e-2)) for i in range(N)]
            # once a violation is on record the remaining paths get a short budget; a timed-out (not refuted) exact identity gets a long one
            budget = 3000 if rep.violations else (10000 if lv.status == "sat" else big)
            if rep.prove(f"{tag}-bayes-typical", goal, list(cons) + typical, timeout_ms=budget, inputs=inputs_bayes, replay=replay, sample=what + " [everyday magnitudes]") is not False:
                rep.prove(f"{tag}-bayes", goal, cons, timeout_ms=budget, inputs=inputs_bayes, replay=replay, sample=what)
        if kind != "smm":
            mu1 = s0["mu"]
            _prove(rep, f"{tag}-mode-prob", z3.And(_approx(z3.Sum([_tr(x) for x in mu1]), z3.RealVal(1)), *[_tr(x) >= 0 for x in mu1]), cons, timeout_ms=big, lemmas=[post_is_dist], inputs=tagged("mode-prob"), replay=replay, sample="GPB1: mixed mode probabilities stay a distribution")
        # (3) moment matching at every compile
        for k, s in enumerate(snaps):
            ms, w = s["models"], None
            w = f.model_weights if k == len(snaps) - 1 else s["w"]
            if len(ms) != len(w):
                w = s["w"]
            ex = [z3.Sum([_tr(w[i]) * ms[i].est_x[c].t for i in range(len(ms))]) for c in range(2)]
            g = [_tr(s["est_x"][c]) == ex[c] for c in range(2)]
            for a in range(2):
                for b in range(2):
                    mix = z3.Sum([_tr(w[i]) * (_tr(ms[i].est_p[a, b]) + (ms[i].est_x[a].t - ex[a]) * (ms[i].est_x[b].t - ex[b])) for i in range(len(ms))])
                    g.append(_tr(s["est_p"][a, b]) == mix)
                    g.append(_tr(s["est_p"][a, b]) == _tr(s["est_p"][b, a]))
            _prove(rep, f"{tag}-moments{k}", z3.And(*g), cons, timeout_ms=60000, inputs=tagged("moments"), replay=replay, sample="est_x = sum w_i x_i; est_p = sum w_i (P_i + d d^T), symmetric")
        # (4) closure hands back the surviving model
        if f._converged_filter is not None:
            kw = f._converged_filter.kw
            g = [z3.BoolVal(len(f.models) >= 1)]
            # with a convergence percentage above one half at most one model can have reached it: exactly that model survives
            # (static multiple model only: GPB1 merges its models every step and hands back the merged estimate by design)
            if kind == "smm":
                g.append(z3.Or(z3.Real("pct") <= rv(0.5), z3.BoolVal(len(f.models) == 1)))
            if len(f.models) == 1:
                g += [_tr(kw["est_x"][c]) == f.models[0].est_x[c].t for c in range(2)]
                g += [_tr(kw["est_p"][a, b]) == _tr(f.models[0].est_p[a, b]) for a in range(2) for b in range(2)]
            from resonaate.estimation.sequential_filter import FilterFlag

            g.append(z3.BoolVal(FilterFlag.ADAPTIVE_ESTIMATION_CLOSE in f.flags and FilterFlag.ADAPTIVE_ESTIMATION_START not in f.flags))
            _prove(rep, f"{tag}-closure", z3.And(*g), cons, timeout_ms=60000, inputs=inputs, replay=replay_smm if kind == "smm" else replay_gpb1, sample="on closure the filter handed back carries the surviving model's estimate; flags START->CLOSE")
    if n == 0:
        rep.error("reach", "no path")
    if not witnessed:
        rep.error("reach", "no path on which Bayes' rule is checked with different innovation covariances")
    rep.note(f"paths with closure: {closed}")
    if closed == 0:
        rep.error("reach", "closure never reached")


REPLAYS = {}


def o_noobs(rep, kind, N):
    """observed step, then a step without observations (while adaptive estimation is open): probabilities unchanged"""
    res = explore(lambda: _run(kind, N, then_empty=True), max_paths=3000, max_depth=200, recip=False)
    rep.note(f"{kind} N={N} observed+empty: paths={len(res)}")
    replay = replay_smm if kind == "smm" else replay_gpb1
    n = open_paths = 0
    for r in res:
        if r.exc is not None:
            rep.error("exception", f"{r.exc!r}")
            continue
        f, w0, mu0, models0, es, ds, calls, snaps, like, mid = r.out
        n += 1
        if mid["closed"]:
            continue
        open_paths += 1
        tag = f"{kind}[N={N}]#{n}"

        def inputs(m, es=es, ds=ds):
            import math

            e = [mfloat(m, x.t) for x in es]
            dd = [mfloat(m, x.t) for x in ds]
            nis = [(-2 * math.log(x) if x > 0 else 1e6) for x in e]
            return {"w": [mfloat(m, z3.Real(f"w_{i}")) for i in range(N)], "mu": [mfloat(m, z3.Real(f"mu_{i}")) for i in range(N)], "nis": nis, "det": dd,
                    "thr": mfloat(m, z3.Real("thr")), "pct": mfloat(m, z3.Real("pct")), "gate_open": True, "check": "noobs"}

        w1 = [_tr(x) for x in mid["w"]]
        still_open = f._converged_filter is None
        w2 = [_tr(x) for x in f.model_weights]
        if not still_open and len(w2) != len(w1):
            # the empty step closed adaptive estimation (pruning / convergence on the unchanged probabilities): weights are those of the survivor
            continue
        bt = rv(BAYES_TOL)
        same = z3.And(z3.BoolVal(len(w1) == len(w2)), *[z3.And(a - b <= bt, b - a <= bt) for a, b in zip(w1, w2)]) if len(w1) == len(w2) else z3.BoolVal(False)
        _prove(rep, f"{tag}-empty-step-keeps-probabilities", same, r.constraints, timeout_ms=60000, inputs=inputs, replay=replay,
               sample="model probabilities after a step without observations = the probabilities before it (no evidence, no Bayes factor)")
        # the step's stacked estimate is the probability-weighted mean of the models' estimates under those probabilities
        if len(snaps) > mid["nsnaps"] and len(w1) == len(w2):
            s1 = snaps[-1]
            ex = np.array(s1["est_x"], dtype=object)
            want = sum((np.array(mdl.est_x, dtype=object) * SReal(wi) for mdl, wi in zip(s1["models"], w1)), np.zeros(len(ex), dtype=object))
            _prove(rep, f"{tag}-empty-step-mean", z3.And(*[_tr(a) == _tr(b) for a, b in zip(ex, want)]), r.constraints, timeout_ms=60000, inputs=inputs, replay=replay,
                   sample="combined estimate of the empty step = mean of the models' estimates weighted with the unchanged probabilities")
    if open_paths == 0:
        rep.error("reach", "no path on which adaptive estimation stays open after the observed step")
    else:
        rep.reach.append(f"{kind}[N={N}] paths still open after the observed step: {open_paths}")


def obligations(tier):
    obs = []
    for kind in ("smm", "gpb1"):
        for N in ((2,) if tier == "quick" else (2, 3)):
            name = f"{kind}-N{N}-noobs"
            obs.append(Ob(name, (lambda k, n: lambda rep: o_noobs(rep, k, n))(kind, N), f"{kind}: an observed update followed by an update without observations, {N} models", 900))
            REPLAYS[name] = replay_smm if kind == "smm" else replay_gpb1
    for kind in ("smm", "gpb1"):
        for N in ((2, 3) if tier == "quick" else (2, 3, 4)):
            parts = 6 if (kind == "smm" and N >= 3) else (3 if N >= 4 else 1)
            for part in range(parts):
                name = f"{kind}-N{N}" + (f"-p{part}" if parts > 1 else "")
                obs.append(Ob(name, (lambda k, n, p, ps: lambda rep: o_mm(rep, k, n, p, ps))(kind, N, part, parts), f"{kind} update/prune/closure with {N} models"
                              + (f" (paths {part} mod {parts})" if parts > 1 else ""), 1500))
                REPLAYS[name] = replay_smm if kind == "smm" else replay_gpb1
    return obs


obligations("thorough")  # fills REPLAYS (python -m symx.runner C18 --replay <file> looks the replay up by obligation name)
