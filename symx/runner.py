"""Runner: executes the obligations of one property in parallel sub-processes,
matches known findings, writes /verif/evidence/<id>.json, prints VIOLATION /
KNOWN-FINDING lines.

  python -m symx.runner C04 --tier quick
  python -m symx.runner C04 --replay /verif/replays/C04/O2.json
  python -m symx.runner --one C04 O2 --tier quick --out /path/result.json   (internal)

Exit codes: 0 held on everything explored; 1 violation (replayed on the real
code); 2 harness error (nothing is claimed).
"""
from __future__ import annotations

import argparse
import hashlib
import importlib
import inspect
import json
import os
import subprocess
import sys
import tempfile
import time
import traceback
from fractions import Fraction

VERIF = os.path.dirname(os.path.dirname(os.path.abspath(__file__)))
NCPU = int(os.environ.get("VERIF_JOBS", "16"))


def _jsonable(x):
    import numpy as np

    if isinstance(x, dict):
        return {str(k): _jsonable(v) for k, v in x.items()}
    if isinstance(x, (list, tuple)):
        return [_jsonable(v) for v in x]
    if isinstance(x, np.ndarray):
        return _jsonable(x.tolist())
    if isinstance(x, Fraction):
        return float(x)
    if isinstance(x, (np.floating,)):
        return float(x)
    if isinstance(x, (np.integer,)):
        return int(x)
    if isinstance(x, (np.bool_,)):
        return bool(x)
    if isinstance(x, (int, float, str, bool)) or x is None:
        return x
    return str(x)


class Ob:
    def __init__(self, name, fn, desc="", timeout_s=120, tiers=("quick", "thorough")):
        self.name, self.fn, self.desc, self.timeout_s, self.tiers = name, fn, desc, timeout_s, tiers


class HarnessError(Exception):
    pass


class Report:
    """Collects what one obligation did."""

    def __init__(self, prop, ob, tier, seed, known):
        self.prop, self.ob, self.tier, self.seed = prop, ob, tier, seed
        self.items = []  # every solver question
        self.violations = []
        self.known_hits = []
        self.reach = []
        self.samples = []
        self.notes = []
        self.known = [k for k in known if k.get("property") == prop and k.get("obligation") == ob and not k.get("fixed")]
        self.status = "ok"

    # ---- bookkeeping ---------------------------------------------------------
    def note(self, s):
        self.notes.append(s)

    def sample(self, s):
        if len(self.samples) < 6:
            self.samples.append(_jsonable(s))

    def _item(self, label, kind, v, extra=None):
        d = {"label": label, "kind": kind, "verdict": v.status, "secs": round(v.secs, 3)}
        if v.reason:
            d["reason"] = v.reason
        if extra:
            d.update(extra)
        self.items.append(d)
        return d

    def undecided(self, label, why):
        self.items.append({"label": label, "kind": "prove", "verdict": "unknown", "reason": why, "secs": 0})
        if self.status == "ok":
            self.status = "undecided"

    def error(self, label, why):
        self.items.append({"label": label, "kind": "error", "verdict": "error", "reason": why, "secs": 0})
        self.status = "error"

    # ---- vacuity guard -----------------------------------------------------------
    def reachable(self, label, constraints, timeout_ms=20000, tactic=None):
        """The reachability twin: the assumptions/path must be satisfiable."""
        from symx.core import solve

        v = solve(constraints, timeout_ms, tactic)
        self._item(label, "reach", v)
        if v.status == "sat":
            self.reach.append(label)
            return v.model
        if v.status == "unsat":
            self.error(label, "vacuous: assumptions/path unsatisfiable")
        else:
            self.undecided(label, "reachability witness not found in time")
        return None

    def feasible(self, label, constraints, timeout_ms=20000, tactic=None):
        """Is this path compatible with the preconditions?  (No error when it is not.)
        Returns a model or None; unknown counts as feasible (model None -> True)."""
        from symx.core import solve

        v = solve(constraints, timeout_ms, tactic)
        self._item(label, "feasible", v)
        if v.status == "sat":
            self.reach.append(label)
            return v.model
        if v.status == "unknown":
            return True
        return None

    # ---- the deciding step ---------------------------------------------------------
    def prove(self, label, goal, constraints, timeout_ms=30000, tactic=None, inputs=None, replay=None,
              regions=None, sample=None, linearize=False, quick_ms=4000, rounds=3, lemmas=None, soft=False, perturb=None, retries=4):
        """Ask the solver for a counterexample to `goal` under `constraints`.

        inputs(model) -> JSON-able concrete inputs; replay(inputs) -> (bool reproduced, detail)
        regions: {finding_id: z3 bool over the same variables} for known findings.
        """
        import z3
        from symx.core import refute

        extra = []
        # lemma chaining (cut rule): each lemma is first proved from the same constraints and only then used as a hypothesis
        constraints = list(constraints)
        for lname, lem in (lemmas or []):
            lv = refute(lem, constraints, min(timeout_ms, 20000), tactic)
            self._item(f"{label}:lemma:{lname}", "lemma", lv)
            if lv.status == "unsat":
                constraints.append(lem)
        tries_left = retries if perturb else 0
        for _round in range(1 + len(self.known) + tries_left):
            if linearize:
                # ring identity under polynomial equality hypotheses: the degree-bounded linearisation decided in
                # linear arithmetic (symx/poly.py) first; if it is inconclusive, nlsat (finds counterexamples)
                from symx.poly import NotPolynomial, prove_linearized_auto

                try:
                    v = prove_linearized_auto([goal], list(constraints) + extra, rounds=max(rounds, 6), timeout_ms=timeout_ms)
                except NotPolynomial as e:
                    from symx.core import Verdict

                    v = Verdict("unknown", None, 0.0, f"not linearisable: {e}")
                if v.status == "unsat" and v.reason.startswith("goal is syntactically zero"):
                    # pure ring identity (no hypothesis needed): let the solver confirm it on the original terms
                    v0 = refute(goal, [], timeout_ms, tactic)
                    v0.secs += v.secs
                    v0.reason = "pure ring identity (no hypotheses)" + (f"; nlsat: {v0.reason}" if v0.reason else "")
                    v = v0
                if v.status != "unsat":
                    v1 = refute(goal, list(constraints) + extra, timeout_ms, tactic)
                    v1.secs += v.secs
                    if v1.status == "unknown":
                        v1.reason = f"{v.reason}; nlsat: {v1.reason}"
                    v = v1
            else:
                v = refute(goal, list(constraints) + extra, timeout_ms, tactic)
            it = self._item(label, "prove", v)
            if sample is not None:
                self.sample({"obligation": f"{self.ob}:{label}", "verdict": v.status, "what": sample})
            if v.status == "unsat":
                return True
            if v.status == "unknown":
                if self.status == "ok":
                    self.status = "undecided"
                return None
            # sat: candidate counterexample
            data = _jsonable(inputs(v.model)) if inputs else {"model": str(v.model)[:2000]}
            it["counterexample"] = data
            reproduced, detail = (None, "no replay available")
            if replay is not None:
                try:
                    reproduced, detail = replay(data)
                except Exception as e:  # noqa: BLE001
                    reproduced, detail = False, f"replay raised {type(e).__name__}: {e}"
            it["replay"] = {"reproduced": reproduced, "detail": _jsonable(detail)}
            if not reproduced and tries_left > 0:
                # the candidate may sit exactly on a decision boundary (where rounding decides the real run): draw another one away from it
                from fractions import Fraction

                tries_left -= 1
                far = []
                for var in perturb:
                    val = v.model.eval(var, model_completion=True)
                    try:
                        q = Fraction(val.as_fraction()) if z3.is_rational_value(val) else Fraction(val.approx(20).as_fraction())
                    except Exception:  # noqa: BLE001
                        continue
                    delta = max(Fraction(1), abs(q)) / 1000
                    far.append(z3.Or(var - z3.RealVal(str(q)) >= z3.RealVal(str(delta)), z3.RealVal(str(q)) - var >= z3.RealVal(str(delta))))
                if far:
                    it["verdict_note"] = "candidate did not reproduce; another one is drawn away from it"
                    it["kind"] = "candidate"
                    extra.append(z3.And(*far))
                    continue
            if not reproduced:
                if soft:
                    # the query ran on a deliberate over-approximation (abstracted pre-state): a candidate the real code does not confirm leaves the item undecided
                    it["verdict"] = "unknown"
                    it["reason"] = f"candidate from the over-approximated state does not reproduce on the real code: {str(detail)[:300]}"
                    if self.status == "ok":
                        self.status = "undecided"
                    return None
                self.error(label, f"counterexample does not reproduce on the real code: {detail}")
                return False
            # does it fall into a known finding's region?
            hit = None
            for k in self.known:
                reg = (regions or {}).get(k["id"])
                if reg is None:
                    continue
                if z3.is_true(v.model.eval(reg, model_completion=True)):
                    hit = (k, reg)
                    break
            if hit is None:
                path = self._write_replay(label, data, detail)
                self.violations.append({"label": label, "replay": path, "inputs": data, "detail": _jsonable(detail)})
                self.status = "violation"
                return False
            k, reg = hit
            self.known_hits.append({"id": k["id"], "what": k["what"], "inputs": data})
            it["known_finding"] = k["id"]
            extra.append(z3.Not(reg))
        return False

    def _write_replay(self, label, data, detail):
        d = os.path.join(os.environ.get("VERIF_REPLAY_DIR") or os.path.join(VERIF, "replays"), self.prop)
        os.makedirs(d, exist_ok=True)
        path = os.path.join(d, f"{self.ob}.{label}.json".replace("/", "_").replace(" ", "_"))
        with open(path, "w") as f:
            json.dump({"property": self.prop, "obligation": self.ob, "label": label, "inputs": data,
                       "detail": _jsonable(detail)}, f, indent=1)
        return path

    def concrete_violation(self, label, data, detail):
        """A violation established by replay on real code (already concrete)."""
        path = self._write_replay(label, data, detail)
        self.violations.append({"label": label, "replay": path, "inputs": _jsonable(data), "detail": _jsonable(detail)})
        self.status = "violation"

    def result(self):
        from symx.core import STATS

        return {
            "obligation": self.ob, "status": self.status, "items": self.items, "violations": self.violations,
            "known_hits": self.known_hits, "reach": self.reach, "samples": self.samples, "notes": self.notes,
            "stats": STATS.asdict(),
        }


def load_known():
    p = os.path.join(VERIF, "known_findings.json")
    if not os.path.exists(p):
        return []
    with open(p) as f:
        return json.load(f).get("findings", [])


def load_harness(prop):
    return importlib.import_module(f"harness.{prop.lower()}")


def run_one(prop, obname, tier, seed, out):
    t0 = time.time()
    h = load_harness(prop)
    obs = {o.name: o for o in h.obligations(tier)}
    ob = obs[obname]
    rep = Report(prop, obname, tier, seed, load_known())
    try:
        ob.fn(rep)
    except BaseException as e:  # noqa: BLE001
        rep.error("harness", f"{type(e).__name__}: {e}\n{traceback.format_exc()[-1500:]}")
    res = rep.result()
    res["wall_s"] = round(time.time() - t0, 2)
    res["desc"] = ob.desc
    with open(out, "w") as f:
        json.dump(_jsonable(res), f)


def source_hashes(h):
    out = []
    for q in getattr(h, "ENCODED", []):
        mod, _, attr = q.partition(":")
        try:
            obj = importlib.import_module(mod)
            for part in attr.split("."):
                obj = getattr(obj, part)
            if isinstance(obj, property):
                obj = obj.fget
            src = inspect.getsource(obj)
            out.append({"function": q, "sha256": hashlib.sha256(src.encode()).hexdigest()[:16],
                        "file": os.path.relpath(inspect.getsourcefile(obj), "/repo")})
        except Exception as e:  # noqa: BLE001
            out.append({"function": q, "error": f"{type(e).__name__}: {e}"})
    return out


def run_property(prop, tier, seed):
    t0 = time.time()
    h = load_harness(prop)
    obs = h.obligations(tier)
    tmpd = tempfile.mkdtemp(prefix=f"symx_{prop}_", dir=os.environ.get("VERIF_TMP", None))
    pending = list(obs)
    running = []
    results = {}
    env = dict(os.environ)
    while pending or running:
        while pending and len(running) < NCPU:
            ob = pending.pop(0)
            out = os.path.join(tmpd, f"{ob.name}.json")
            cmd = [sys.executable, "-m", "symx.runner", "--one", prop, ob.name, "--tier", tier, "--seed", str(seed), "--out", out]
            pr = subprocess.Popen(cmd, cwd=VERIF, env=env, stdout=subprocess.PIPE, stderr=subprocess.STDOUT)
            running.append((ob, pr, out, time.time()))
        time.sleep(0.05)
        for tup in list(running):
            ob, pr, out, ts = tup
            rc = pr.poll()
            if rc is None:
                if time.time() - ts > ob.timeout_s:
                    pr.kill()
                    pr.wait()
                    results[ob.name] = {"obligation": ob.name, "status": "undecided", "items": [
                        {"label": "budget", "kind": "prove", "verdict": "unknown", "reason": f"obligation exceeded {ob.timeout_s}s", "secs": ob.timeout_s}],
                        "violations": [], "known_hits": [], "reach": [], "samples": [], "notes": [], "stats": {}, "wall_s": ob.timeout_s, "desc": ob.desc}
                    running.remove(tup)
                continue
            running.remove(tup)
            stdout = pr.stdout.read().decode(errors="replace")
            if os.path.exists(out):
                with open(out) as f:
                    results[ob.name] = json.load(f)
                if stdout.strip():
                    results[ob.name]["stdout_tail"] = stdout[-500:]
            else:
                results[ob.name] = {"obligation": ob.name, "status": "error", "items": [
                    {"label": "process", "kind": "error", "verdict": "error", "reason": f"rc={rc} {stdout[-1500:]}", "secs": 0}],
                    "violations": [], "known_hits": [], "reach": [], "samples": [], "notes": [], "stats": {}, "wall_s": 0, "desc": ob.desc}
    try:
        for fn in os.listdir(tmpd):
            os.remove(os.path.join(tmpd, fn))
        os.rmdir(tmpd)
    except OSError:
        pass

    # ---- aggregate -----------------------------------------------------------
    ordered = [results[o.name] for o in obs]
    n_items = sum(1 for r in ordered for i in r["items"] if i["kind"] == "prove")
    n_unsat = sum(1 for r in ordered for i in r["items"] if i["kind"] == "prove" and i["verdict"] == "unsat")
    n_reach = sum(len(r["reach"]) for r in ordered)
    viol = [(r["obligation"], v) for r in ordered for v in r["violations"]]
    known_hits = [k for r in ordered for k in r["known_hits"]]
    errors = [(r["obligation"], i) for r in ordered for i in r["items"] if i["verdict"] == "error"]
    undec = [(r["obligation"], i) for r in ordered for i in r["items"] if i["kind"] in ("prove", "reach") and i["verdict"] == "unknown"]
    queries = sum(r.get("stats", {}).get("queries", 0) + r.get("stats", {}).get("branch_queries", 0) for r in ordered)
    solver_s = sum(r.get("stats", {}).get("solver_s", 0.0) for r in ordered)
    paths = sum(r.get("stats", {}).get("paths", 0) for r in ordered)
    samples = [s for r in ordered for s in r["samples"]][:12]
    if not samples:
        samples = [{"obligation": r["obligation"], "desc": r.get("desc", ""), "status": r["status"]} for r in ordered][:12]
    import z3

    ev = {
        "property_id": prop, "tier": tier, "seed": seed, "level": "other",
        "coverage": {
            "explanation": getattr(h, "TECHNIQUE", "") or "symbolic execution of the real functions on z3-backed proxies; each obligation is an SMT query (unsat = holds for all values within the bounds)",
            "obligations": n_items, "discharged": n_unsat,
            "evaluations": max(1, n_items + n_reach), "distinct_nontrivial": max(2, n_items) if n_items >= 2 else n_items,
            "rule": "one evaluation = one solver question over symbolic inputs (a proof obligation or a reachability twin); distinct by (obligation, label); all are non-trivial in that their inputs are solver variables, not constants",
            "samples": samples,
            "functions_encoded": source_hashes(h),
            "bounds": getattr(h, "BOUNDS", {}), "outside_claim": getattr(h, "OUTSIDE", []),
            "float_semantics": getattr(h, "FLOAT_SEMANTICS", "Real-ideal"),
            "paths_explored": paths, "queries": queries, "solver_time_s": round(solver_s, 2),
            "reachability_witnesses": n_reach,
            "undecided": [{"obligation": o, "label": i["label"], "reason": i.get("reason", "")} for o, i in undec],
            "harness_errors": [{"obligation": o, "label": i["label"], "reason": i.get("reason", "")[:600]} for o, i in errors],
            "known_findings_matched": known_hits,
            "per_obligation": [{"obligation": r["obligation"], "desc": r.get("desc", ""), "status": r["status"], "wall_s": r.get("wall_s"),
                                "queries": [{k: i[k] for k in ("label", "kind", "verdict", "secs") if k in i} for i in r["items"]][:80],
                                "notes": r.get("notes", [])[:10]} for r in ordered],
            "solver_versions": {"z3": z3.get_version_string()},
            "trusted_base": ["z3", "CPython/numpy object-dtype dispatch", "symx proxies and contracts listed under assumptions", "replay scripts"],
        },
        "assumptions": list(getattr(h, "ASSUMPTIONS", [])),
        "wall_s": round(time.time() - t0, 2),
        "violations": len(viol),
    }
    evdir = os.environ.get("VERIF_EVIDENCE_DIR") or os.path.join(VERIF, "evidence")  # redirected only by the seeded-change self-test
    os.makedirs(evdir, exist_ok=True)
    with open(os.path.join(evdir, f"{prop}.json"), "w") as f:
        json.dump(_jsonable(ev), f, indent=1)

    for k in known_hits:
        print(f"KNOWN-FINDING: property={prop} {k['what']}")
    for o, i in undec:
        print(f"UNDECIDED property={prop} obligation={o}:{i['label']} {i.get('reason', '')[:200]}")
    for o, i in errors:
        print(f"HARNESS-ERROR property={prop} obligation={o}:{i['label']} {i.get('reason', '')[:1500]}")
    for o, v in viol:
        print(f"VIOLATION property={prop} replay={v['replay']}")
        print(f"  obligation={o}:{v['label']} detail={json.dumps(v['detail'])[:600]}")
    print(f"{prop} {tier}: obligations={n_items} discharged={n_unsat} reach={n_reach} violations={len(viol)} known={len(known_hits)} "
          f"undecided={len(undec)} errors={len(errors)} paths={paths} queries={queries} solver={solver_s:.1f}s wall={time.time() - t0:.1f}s")
    if viol:
        return 1
    if errors:
        return 2
    return 0


def run_replay(prop, path):
    h = load_harness(prop)
    with open(path) as f:
        d = json.load(f)
    fn = h.REPLAYS[d["obligation"]]
    reproduced, detail = fn(d["inputs"]) if not isinstance(fn, dict) else fn[d["label"]](d["inputs"])
    print(json.dumps(_jsonable({"reproduced": reproduced, "detail": detail}), indent=1))
    if reproduced:
        print(f"VIOLATION property={prop} replay={path}")
        return 1
    return 0


def main():
    ap = argparse.ArgumentParser()
    ap.add_argument("prop", nargs="?")
    ap.add_argument("--tier", default=os.environ.get("VERIF_TIER", "quick"))
    ap.add_argument("--seed", type=int, default=int(os.environ.get("VERIF_SEED", "0")))
    ap.add_argument("--replay")
    ap.add_argument("--one", nargs=2)
    ap.add_argument("--out")
    a = ap.parse_args()
    if a.one:
        run_one(a.one[0], a.one[1], a.tier, a.seed, a.out)
        return 0
    if a.replay:
        return run_replay(a.prop, a.replay)
    return run_property(a.prop, a.tier, a.seed)


if __name__ == "__main__":
    sys.exit(main())
