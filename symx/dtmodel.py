"""Symbolic model of datetime/timedelta for whole-second instants in 1901-01-01 .. 2099-12-31.

`datetime` and `timedelta` are C types, so the analysed modules get these classes
under those names (module-global shadowing).  An instant is (N, sod): N = days since
1901-01-01 (z3 Int), sod = second of the day (z3 Int, 0..86399).  In 1901..2099 a year
is leap iff year % 4 == 0 (2000 is a leap year), which makes the civil calendar a pure
4-year cycle: that is the whole model.  It is part of the trusted base and is validated
differentially against the real `datetime` (harness obligations `dtmodel-*`).
"""
from __future__ import annotations

import datetime as _real
from fractions import Fraction

import z3

from .core import SBool, SInt, Unsupported, cur
from .fp import SFloat, from_int

CUM = [0, 31, 59, 90, 120, 151, 181, 212, 243, 273, 304, 334, 365]  # days before month m (non-leap)
N_MAX = 72683  # 2099-12-31


def _iterm(x, what):
    """z3 Int term of an integer-valued thing."""
    if isinstance(x, bool):
        raise TypeError(what)
    if isinstance(x, int):
        return z3.IntVal(x)
    if isinstance(x, z3.ArithRef) and x.sort() == z3.IntSort():
        return x
    if isinstance(x, SInt):
        return x.t
    if isinstance(x, SFloat):
        if not x.is_integer():
            raise Unsupported(f"datetime model: {what} is not provably a whole number")
        s = z3.simplify(x.t)
        if z3.is_app(s) and s.decl().kind() == z3.Z3_OP_TO_REAL:
            return s.children()[0]
        return z3.ToInt(x.t)
    if isinstance(x, float):
        if x != int(x):
            raise Unsupported(f"datetime model: fractional {what}")
        return z3.IntVal(int(x))
    import numpy as np

    if isinstance(x, (np.integer,)):
        return z3.IntVal(int(x))
    if isinstance(x, (np.floating,)):
        return _iterm(float(x), what)
    raise TypeError(f"datetime model: {what}: {type(x)}")


def _cum(m, leap):
    """days before month m (z3 Int term 1..12) as a term."""
    ms = z3.simplify(m)
    if z3.is_int_value(ms):
        k = ms.as_long()
        return z3.IntVal(CUM[k - 1]) + (z3.If(leap, 1, 0) if k > 2 else 0)
    t = z3.IntVal(CUM[11]) + z3.If(leap, 1, 0)
    for k in range(11, 0, -1):
        t = z3.If(m == k, z3.IntVal(CUM[k - 1]) + (z3.If(leap, 1, 0) if k > 2 else 0), t)
    return t


def _dim(m, leap):
    ms = z3.simplify(m)
    table = [31, 28, 31, 30, 31, 30, 31, 31, 30, 31, 30, 31]
    if z3.is_int_value(ms):
        k = ms.as_long()
        return z3.If(leap, 29, 28) if k == 2 else z3.IntVal(table[k - 1])
    t = z3.IntVal(31)
    for k in range(11, 0, -1):
        t = z3.If(m == k, z3.If(leap, 29, 28) if k == 2 else z3.IntVal(table[k - 1]), t)
    return t


class IsoToken:
    """Stands for isoformat(): an injective function of the instant."""

    def __init__(self, n, sod):
        self.n, self.sod = n, sod

    def __eq__(self, o):
        if not isinstance(o, IsoToken):
            return NotImplemented
        return SBool(z3.And(self.n == o.n, self.sod == o.sod))

    def __ne__(self, o):
        return SBool(z3.Not((self == o).t))

    def __hash__(self):
        return hash((self.n, self.sod))

    def __repr__(self):
        return f"Iso({self.n},{self.sod})"


class STimeDelta:
    def __init__(self, days=0, seconds=0, microseconds=0, milliseconds=0, minutes=0, hours=0, weeks=0):
        if microseconds or milliseconds:
            raise Unsupported("datetime model: sub-second timedelta")
        self.s = z3.simplify(_iterm(days, "days") * 86400 + _iterm(seconds, "seconds") + _iterm(minutes, "minutes") * 60 + _iterm(hours, "hours") * 3600
                             + _iterm(weeks, "weeks") * 604800)

    @classmethod
    def _of(cls, s):
        o = object.__new__(cls)
        o.s = s
        return o

    def total_seconds(self):
        return from_int(self.s, -N_MAX * 86400, N_MAX * 86400)

    # the normalised fields of the real timedelta: days = floor(total / 86400), 0 <= seconds < 86400
    days = property(lambda self: from_int(self.s / 86400, -N_MAX, N_MAX))
    seconds = property(lambda self: from_int(self.s % 86400, 0, 86399))
    microseconds = 0

    def __add__(self, o):
        if isinstance(o, STimeDelta):
            return STimeDelta._of(self.s + o.s)
        return NotImplemented

    def __sub__(self, o):
        if isinstance(o, STimeDelta):
            return STimeDelta._of(self.s - o.s)
        return NotImplemented

    def __neg__(self):
        return STimeDelta._of(-self.s)

    def __eq__(self, o):
        return SBool(self.s == o.s) if isinstance(o, STimeDelta) else NotImplemented

    def __hash__(self):
        return hash(self.s)


class SDateTime:
    """datetime(year, month, day, hour, minute, second) on integer terms; raises ValueError like the real one."""

    def __init__(self, year, month=None, day=None, hour=0, minute=0, second=0, microsecond=0, tzinfo=None):
        if tzinfo is not None:
            raise Unsupported("datetime model: tzinfo")
        if isinstance(microsecond, (SFloat, SInt)) or microsecond != 0:
            raise Unsupported("datetime model: microseconds")
        y, m, d = _iterm(year, "year"), _iterm(month, "month"), _iterm(day, "day")
        h, mi, s = _iterm(hour, "hour"), _iterm(minute, "minute"), _iterm(second, "second")
        leap = (y % 4 == 0)
        valid = z3.And(y >= 1901, y <= 2099, m >= 1, m <= 12, d >= 1, d <= _dim(m, leap), h >= 0, h <= 23, mi >= 0, mi <= 59, s >= 0, s <= 59)
        if not cur().branch(valid):
            raise ValueError("datetime model: field out of range (or year outside 1901..2099)")
        self._f = (y, m, d, h, mi, s)
        yy = y - 1901
        self._n = z3.simplify(365 * yy + yy / 4 + _cum(m, leap) + d - 1)
        self._sod = z3.simplify(3600 * h + 60 * mi + s)
        self.tot = z3.simplify(self._n * 86400 + self._sod)

    @classmethod
    def _of(cls, n, sod):
        """From (day number, second of day); both must already be in range."""
        o = object.__new__(cls)
        o._n, o._sod = z3.simplify(n), z3.simplify(sod)
        o.tot = z3.simplify(o._n * 86400 + o._sod)
        o._f = None
        return o

    @classmethod
    def _of_total(cls, tot):
        """From the total number of seconds since 1901-01-01 (the primary representation: sums of offsets stay linear)."""
        o = object.__new__(cls)
        o.tot = z3.simplify(tot)
        o._n = o._sod = None
        o._f = None
        return o

    @property
    def n(self):
        if self._n is None:
            self._n = z3.simplify(self.tot / 86400)
        return self._n

    @property
    def sod(self):
        if self._sod is None:
            self._sod = z3.simplify(self.tot % 86400)
        return self._sod

    def _fields(self):
        if self._f is None:
            n, sod = self.n, self.sod
            a, r = n / 1461, n % 1461
            yy = z3.If(r >= 1095, 3, r / 365)  # year inside the cycle: 0, 1, 2, 3 (3 = leap, 366 days)
            doy = r - 365 * yy  # 0-based
            y = 1901 + 4 * a + yy
            leap = yy == 3
            m = z3.IntVal(12)
            for k in range(11, 0, -1):
                m = z3.If(doy < CUM[k] + (z3.If(leap, 1, 0) if k >= 2 else 0), k, m)
            d = doy - _cum(m, leap) + 1
            self._f = tuple(z3.simplify(x) for x in (y, m, d, sod / 3600, (sod % 3600) / 60, sod % 60))
        return self._f

    year = property(lambda self: from_int(self._fields()[0], 1901, 2099))
    month = property(lambda self: from_int(self._fields()[1], 1, 12))
    day = property(lambda self: from_int(self._fields()[2], 1, 31))
    hour = property(lambda self: from_int(self._fields()[3], 0, 23))
    minute = property(lambda self: from_int(self._fields()[4], 0, 59))
    second = property(lambda self: from_int(self._fields()[5], 0, 59))
    microsecond = 0
    tzinfo = None

    def _shift(self, secs):
        tot = self.tot + secs
        if not cur().branch(z3.And(tot >= 0, tot < (N_MAX + 1) * 86400)):
            raise OverflowError("datetime model: outside 1901..2099")
        return SDateTime._of_total(tot)

    def __add__(self, o):
        if isinstance(o, STimeDelta):
            return self._shift(o.s)
        return NotImplemented

    __radd__ = __add__

    def __sub__(self, o):
        if isinstance(o, STimeDelta):
            return self._shift(-o.s)
        if isinstance(o, SDateTime):
            return STimeDelta._of(self.tot - o.tot)
        return NotImplemented

    def _key(self):
        return self.tot

    def __eq__(self, o):
        return SBool(self._key() == o._key()) if isinstance(o, SDateTime) else NotImplemented

    def __ne__(self, o):
        return SBool(self._key() != o._key()) if isinstance(o, SDateTime) else NotImplemented

    def __lt__(self, o):
        return SBool(self._key() < o._key())

    def __le__(self, o):
        return SBool(self._key() <= o._key())

    def __gt__(self, o):
        return SBool(self._key() > o._key())

    def __ge__(self, o):
        return SBool(self._key() >= o._key())

    def __hash__(self):
        return hash(self.tot)

    def isoformat(self, sep="T", timespec="auto"):
        return IsoToken(self.tot, z3.IntVal(0))

    def replace(self, **kw):
        raise Unsupported("datetime model: replace")

    def __repr__(self):
        return f"SDateTime(tot={self.tot})"


class DatetimeModule:
    """Stands for `import datetime` (module style use)."""

    datetime = SDateTime
    timedelta = STimeDelta


def to_real_datetime(model, dt):
    """The real datetime of a model instant."""
    tot = model.eval(dt.tot, model_completion=True).as_long()
    return _real.datetime(1901, 1, 1) + _real.timedelta(seconds=tot)


def real_to_key(d):
    delta = d - _real.datetime(1901, 1, 1)
    return delta.days, delta.seconds
