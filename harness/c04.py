"""C04 - reference-frame conversions are exact inverses, rigid, continuous in time."""
from __future__ import annotations

import datetime as _dt
import math
from fractions import Fraction

import numpy as np
import z3

from symx.core import (PI_F, TWOPI_F, SBool, SInt, SReal, assume, const_array, cur, eq_arrays, explore, integer, marray, mfloat, mval, real,
                       reals, resume, rv, single_path, slice_for, terms)
from symx.runner import Ob
from symx.ext_c04 import Chain, cbrt_pow, explore_inputs_first, fork_sign, refute_fresh, sym_arctan
from symx.stubs import shadow, sym_array

ID = "C04"
TECHNIQUE = ("symbolic execution of the real rotation helpers, frame conversions, calendar / sidereal-time functions and the geodetic closed form on z3 proxies "
             "(Real / Int) in numpy object arrays; trigonometry by an angle algebra ((cos,sin) pairs with c^2+s^2=1 and exact addition formulas); sqrt / cube root / "
             "arctan by contracts; every identity is an SMT query (nlsat / mixed integer-real arithmetic), unsat = holds for all inputs in the bounds, sat = "
             "model -> concrete inputs -> replay on the real code.  The FK5 matrices are produced by the real ReductionParams.build on symbolic angles and then cut "
             "to symbolic orthogonal matrices after their orthogonality has been proved.  The Borkowski closed form of ecef2lla is decided by a proof script: "
             "lemma schemas (Ferrari resolvent, positive root, nearest normal ...) are proved by z3 on free variables and instantiated on the contract "
             "variables of the executed path after the solver has matched them; nothing is assumed, a step that is not proved stops the script (undecided)")
FLOAT_SEMANTICS = "Real-ideal (rounding outside the claim); calendar arithmetic exact Int/Real"
ENCODED = [
    "resonaate.physics.transforms.methods:razel2radec", "resonaate.physics.transforms.methods:radec2razel", "resonaate.physics.transforms.methods:eci2razel",
    "resonaate.physics.transforms.methods:getSlantRangeVector",
    "resonaate.physics.maths:rot1", "resonaate.physics.maths:rot2", "resonaate.physics.maths:rot3", "resonaate.physics.maths:dotRot1",
    "resonaate.physics.maths:dotRot2", "resonaate.physics.maths:dotRot3", "resonaate.physics.maths:skewSymmetric", "resonaate.physics.maths:wrapAngle2Pi",
    "resonaate.physics.transforms.methods:sez2ecef", "resonaate.physics.transforms.methods:ecef2sez",
    "resonaate.physics.transforms.methods:eci2ecef", "resonaate.physics.transforms.methods:ecef2eci",
    "resonaate.physics.transforms.methods:rsw2eci", "resonaate.physics.transforms.methods:eci2rsw", "resonaate.physics.transforms.methods:ntw2eci",
    "resonaate.physics.transforms.methods:lla2ecef", "resonaate.physics.transforms.methods:ecef2lla",
    "resonaate.physics.transforms.reductions:ReductionParams.build", "resonaate.physics.transforms.reductions:getRotR",
    "resonaate.physics.transforms.reductions:PolarMotion.__init__", "resonaate.physics.transforms.reductions:PrecessionNutation.__init__",
    "resonaate.physics.time.conversions:dayOfYear", "resonaate.physics.time.conversions:greenwichApparentTime",
    "resonaate.physics.time.conversions:greenwichMeanTime", "resonaate.physics.time.conversions:utc2TerrestrialTime",
    "resonaate.physics.time.conversions:seconds2hms", "resonaate.physics.time.stardate:JulianDate.getJulianDate",
]
BOUNDS = {"angles": "all real angles", "vectors": "all real 3-/6-vectors (non-zero where a direction is normalised; O5: r, v, r x v non-zero)",
          "dates (O7a dayOfYear)": "every Gregorian date 1583-01-01 .. 2399-12-31 (symbolic year, month, day), any hour/minute, second in [-1, 61]",
          "dates (O7b/O7d/O7e getRotR, utc2TerrestrialTime, New Year)": "every instant (symbolic month, day, hour, minute, second, microsecond) of each year 2013..2023 (quick) / 1975..2060 (thorough), "
                                                                        "year enumerated; dUT1 in [-1, 1] s (O7e: [-0.9, 0.9]), eq. of equinoxes in [-1e-3, 1e-3] rad, dAT in [10, 40] s; "
                                                                        "dUT1 not at an exact half-microsecond tie when the code rounds it through timedelta",
          "year rollover (O7c)": "GAST(y, days_in_year + f) vs GAST(y+1, f), f in [0,1) symbolic, the same years",
          "positions (O8 ecef2lla)": "every ECEF position on or outside the reference ellipsoid scaled by 0.98 (i.e. from about 127 km below the surface) and within 70000 km of the centre (> 10 Earth radii), "
                                     "incl. polar axis, equatorial plane, antimeridian; three input classes: on the axis, x != 0, x = 0",
          "geodetic triples (O8a, O8u)": "all latitudes with cos(lat) > 0 plus the two poles pinned, all longitudes, all heights (O8u: h >= -120 km against any second preimage with h >= -6000 km)",
          "tolerances": "rotation angle 1e-9 rad (2e-9 across New Year), day of year 1e-9 d, ttt 1e-12 centuries, ECEF round trip 1e-6 km (exact equality is what is proved off the polar axis), "
                        "polar closed form 1e-9 km / cos(lat) <= 1e-18"}
OUTSIDE = ["floating-point rounding everywhere (in doubles the real ecef2lla loses up to 0.25 m within about 1 m of the polar axis at GEO height and divides by an underflowed 0 on the axis itself)",
           "ecef2lla inside the ellipsoid scaled by 0.98 (deeper than about 127 km), in particular the D < 0 / arccos branch, which is proved unreachable in the region",
           "spherical2cartesian / cartesian2spherical / razel2sez / sez2razel as formulas (DESIGN O6): the rate components of their round trips were not decided by nlsat; O6r takes 'each is a function and "
           "the inverse of its partner' as a contract and decides the compositions razel2radec / radec2razel / eci2razel / getSlantRangeVector on top of it",
           "numerical content of the IAU-76 nutation series and EOP table values, EOP interpolation", "leap-second jumps (dut1/dAT are symbols; the UTC day is taken as 86400 s)",
           "the composition steps 'round trip + injectivity => two-sided inverse' and '=> mirror symmetry in z' are stated in LEVEL_NOTE, each ingredient is solver-decided, the two-line composition is not",
           "O7b/O7e observe the angle handed to rot3 inside getRotR (a recording wrapper around the real rot3); a getRotR that builds its matrix without rot3 makes these obligations report a harness error, not a violation"]
ASSUMPTIONS = ["angle algebra for cos/sin; sqrt contract (r >= 0, r^2 = x); arcsin/arctan2 contracts; arctan(u) := arctan2(u, 1) with oddness/monotonicity between applications",
               "x ** (1/3) -> cube-root contract (c >= 0, c^3 = x, domain x >= 0 as numpy yields nan for a negative base; strictly monotone between applications)",
               "numpy.sign -> fork into +1 / -1 / 0", "pi identified with const.PI (the double)",
               "Earth.radius / Earth.eccentricity enter as the exact rational values of their doubles, so sqrt(1 - e^2) is the exact real root (O8)",
               "O4b: rot_pnr / rot_w replaced by symbolic matrices constrained only by the orthogonality proved of the real ones in O4a",
               "O4a: getRotR's calendar inputs are symbols there (dayOfYear / greenwichApparentTime / utc2TerrestrialTime / nutation replaced), a timedelta shift of the date is ignored",
               "O5: the RSW round trips use 'W (W^T d) = d for every W with W W^T = I' proved on a symbolic matrix; the real matrix's orthonormality is proved entry-wise",
               "O7b/O7e: utc_date is a model object with the calendar fields (year concrete per obligation, the rest z3 Ints); utc_date + timedelta(seconds=x) is civil-calendar arithmetic "
               "with carries by forking and the nearest-microsecond contract; the rotation angle is read from the argument of rot3",
               "O7b/O7c/O7e reference: IAU-1982 GMST polynomial evaluated in exact rationals at 1 Jan 0h of the year plus its exact derivative times the true elapsed UT1 days "
               "(calendar oracle: cumulative-days table + Gregorian rule, validated against CPython datetime on 240 dates in every run)",
               "O7d: JulianDate (a float subclass) is re-based on the symbolic Real (the real getJulianDate body runs unchanged); float() is the identity on proxies; divmod/floordiv of a proxy by a positive literal",
               "O8-x/y/axis: proof script (symx.ext_c04.Chain) - schemas proved on free variables, contract variables of the path matched by solver-proved equality of their arguments; "
               "domain conditions (sqrt/cbrt arguments, divisors) are proved, not assumed; when a step fails its solver model is only a candidate that is replayed against the behavioural oracle",
               "O8 reachability twin: satisfiability of the branch conditions + preconditions of each path (contract variables are total on their proved domains)"]
LEVEL_TEXT = ("Bounded symbolic verification: each conversion pair is executed on symbolic states and the inverse/rigidity identities are discharged by z3 for all real inputs; "
              "day-of-year is proved equal to the civil calendar for every Gregorian date; the Earth-rotation angle of getRotR is proved to advance at the IAU-82 rate through every "
              "instant of the enumerated years incl. leap days and New Year; terrestrial time is proved linear through the day boundary; ecef2lla's closed form is proved to be a right "
              "inverse of lla2ecef on the stated region, to pick the nearest normal and the correct hemisphere, with the axis/equator closed forms; lla2ecef is proved to satisfy the "
              "definition of geodetic coordinates and to be injective.  Algebraic and calendar slips are satisfiable queries with concrete replays.")
LEVEL_NOTE = ("Real arithmetic; trig via angle algebra; FK5 numeric series and EOP data outside. Geodetic: O8-x/y/axis give lla2ecef(ecef2lla(x)) = x with alt >= -130 km and |lat| <= pi/2; "
              "O8u gives uniqueness of such a preimage, hence ecef2lla(lla2ecef(p)) = p for h >= -120 km and, with O8a 'mirror', ecef2lla(x, y, -z) = (-lat, lon, alt). "
              "Continuity: O7a (calendar) + O7b (every instant of a year against a reference that is linear in true elapsed time) + O7c/O7e (year boundary) + O7d (TT).")

I3 = const_array(np.eye(3))


def _tag(r):
    return "".join("T" if d else "F" for d in r.path.decisions)


# --------------------------------------------------------------------------------
def replay_rot(d):
    from resonaate.physics import maths as M

    a, b = d["a"], d["b"]
    bad = False
    out = {}
    for i, f in enumerate((M.rot1, M.rot2, M.rot3)):
        R = f(a)
        e1 = np.abs(R @ R.T - np.eye(3)).max()
        e2 = np.abs(f(a) @ f(b) - f(a + b)).max()
        e3 = abs(np.linalg.det(R) - 1)
        axis = np.eye(3)[i]
        e4 = np.abs(R @ axis - axis).max()
        out[f.__name__] = [e1, e2, e3, e4]
        bad = bad or max(e1, e2, e3, e4) > 1e-9
    return bad, out


def o1_rot(rep):
    from resonaate.physics import maths as M

    with single_path() as p:
        a, b = real("a"), real("b")
        inputs = lambda m: {"a": mfloat(m, a.t), "b": mfloat(m, b.t)}  # noqa: E731
        for i, f in enumerate((M.rot1, M.rot2, M.rot3)):
            R = f(a)
            n = f.__name__
            cons = p.constraints()
            rep.prove(f"{n}-orthogonal", eq_arrays(R.dot(R.T), I3), cons, inputs=inputs, replay=replay_rot, sample=f"{n}(a) {n}(a)^T = I")
            rep.prove(f"{n}-inverse", eq_arrays(f(-a), R.T), p.constraints(), inputs=inputs, replay=replay_rot, sample=f"{n}(-a) = {n}(a)^T")
            rep.prove(f"{n}-compose", eq_arrays(R.dot(f(b)), f(a + b)), p.constraints(), inputs=inputs, replay=replay_rot, sample=f"{n}(a){n}(b) = {n}(a+b)")
            det = (R[0, 0] * (R[1, 1] * R[2, 2] - R[1, 2] * R[2, 1]) - R[0, 1] * (R[1, 0] * R[2, 2] - R[1, 2] * R[2, 0])
                   + R[0, 2] * (R[1, 0] * R[2, 1] - R[1, 1] * R[2, 0]))
            rep.prove(f"{n}-det", det.t == 1, p.constraints(), inputs=inputs, replay=replay_rot, sample=f"det {n}(a) = 1")
            axis = const_array(np.eye(3)[i])
            rep.prove(f"{n}-axis", eq_arrays(R.dot(axis), axis), p.constraints(), inputs=inputs, replay=replay_rot, sample=f"{n} fixes its axis")
        rep.reachable("angles", p.constraints() + [a.t == 1, b.t == 2])


# --------------------------------------------------------------------------------
def replay_skew(d):
    from resonaate.physics import maths as M

    w, v, a = np.array(d["w"]), np.array(d["v"]), d["a"]
    S = M.skewSymmetric(w)
    e1 = np.abs(S @ v - np.cross(w, v)).max()
    e2 = np.abs(S + S.T).max()
    e3 = max(np.abs(f(a, w) - g(a) @ S).max() for f, g in ((M.dotRot1, M.rot1), (M.dotRot2, M.rot2), (M.dotRot3, M.rot3)))
    # dotRot against the cross-product definition: dR v = R (w x v)
    e4 = max(np.abs(f(a, w) @ v - g(a) @ np.cross(w, v)).max() for f, g in ((M.dotRot1, M.rot1), (M.dotRot2, M.rot2), (M.dotRot3, M.rot3)))
    return max(e1, e2, e3, e4) > 1e-9, {"|S v - w x v|": e1, "|S + S^T|": e2, "|dotRot - R S|": e3, "|dotRot v - R (w x v)|": e4}


def o2_skew(rep):
    from resonaate.physics import maths as M

    with single_path() as p:
        w, v = reals("w", 3), reals("v", 3)
        a = real("a")
        inputs = lambda m: {"w": marray(m, w), "v": marray(m, v), "a": mfloat(m, a.t)}  # noqa: E731
        S = M.skewSymmetric(w)
        rep.prove("skew-is-cross", eq_arrays(S.dot(v), np.cross(w, v)), p.constraints(), inputs=inputs, replay=replay_skew,
                  sample="skewSymmetric(w) v = w x v")
        rep.prove("skew-antisymmetric", eq_arrays(S.T, -S), p.constraints(), inputs=inputs, replay=replay_skew, sample="S^T = -S")
        for f, g in ((M.dotRot1, M.rot1), (M.dotRot2, M.rot2), (M.dotRot3, M.rot3)):
            rep.prove(f"{f.__name__}", eq_arrays(f(a, w).dot(v), g(a).dot(np.cross(w, v))), p.constraints(), inputs=inputs, replay=replay_skew,
                      sample=f"{f.__name__}(a,w) v = {g.__name__}(a) (w x v)")
        rep.reachable("vectors", p.constraints() + [w[0].t == 1, w[1].t == 2, w[2].t == 3])


# --------------------------------------------------------------------------------
def replay_sez(d):
    from resonaate.physics.transforms import methods as T

    x, lat, lon = np.array(d["x"]), d["lat"], d["lon"]
    y = T.ecef2sez(x, lat, lon)
    e1 = np.abs(T.sez2ecef(y, lat, lon) - x).max()
    e2 = np.abs(T.ecef2sez(T.sez2ecef(x, lat, lon), lat, lon) - x).max()
    e3 = abs(np.linalg.norm(y[:3]) - np.linalg.norm(x[:3])) + abs(np.linalg.norm(y[3:]) - np.linalg.norm(x[3:]))
    # zenith: local vertical maps to Z
    up = np.array([math.cos(lat) * math.cos(lon), math.cos(lat) * math.sin(lon), math.sin(lat), 0, 0, 0])
    e4 = np.abs(T.ecef2sez(up, lat, lon)[:3] - np.array([0, 0, 1])).max()
    sc = max(1.0, np.abs(x).max())
    return max(e1, e2, e3) > 1e-9 * sc or e4 > 1e-9, {"roundtrip": e1, "roundtrip2": e2, "norms": e3, "zenith": e4}


def o3_sez(rep):
    from resonaate.physics.transforms import methods as T

    with single_path() as p:
        x = reals("x", 6)
        lat, lon = real("lat"), real("lon")
        inputs = lambda m: {"x": marray(m, x), "lat": mfloat(m, lat.t), "lon": mfloat(m, lon.t)}  # noqa: E731
        y = T.ecef2sez(x, lat, lon)
        rep.prove("sez2ecef(ecef2sez)", eq_arrays(T.sez2ecef(y, lat, lon), x), p.constraints(), inputs=inputs, replay=replay_sez, sample="sez2ecef(ecef2sez(x)) = x")
        rep.prove("ecef2sez(sez2ecef)", eq_arrays(T.ecef2sez(T.sez2ecef(x, lat, lon), lat, lon), x), p.constraints(), inputs=inputs, replay=replay_sez,
                  sample="ecef2sez(sez2ecef(x)) = x")
        n = lambda v: (v[0] * v[0] + v[1] * v[1] + v[2] * v[2]).t  # noqa: E731
        rep.prove("norms", z3.And(n(y[:3]) == n(x[:3]), n(y[3:]) == n(x[3:])), p.constraints(), inputs=inputs, replay=replay_sez, sample="|ecef2sez(x)| = |x| (position and velocity)")
        up = np.array([lat.cos() * lon.cos(), lat.cos() * lon.sin(), lat.sin(), 0, 0, 0], dtype=object)
        z = T.ecef2sez(up, lat, lon)
        rep.prove("zenith", eq_arrays(z[:3], const_array([0, 0, 1])), p.constraints(), inputs=inputs, replay=replay_sez, sample="local vertical maps to SEZ +Z")
        south = np.array([lat.sin() * lon.cos(), lat.sin() * lon.sin(), -lat.cos(), 0, 0, 0], dtype=object)
        rep.prove("south", eq_arrays(T.ecef2sez(south, lat, lon)[:3], const_array([1, 0, 0])), p.constraints(), inputs=inputs, replay=replay_sez, sample="local south maps to SEZ +S")
        rep.reachable("inputs", p.constraints() + [lat.t == 1])


# --------------------------------------------------------------------------------
class _Eops:
    def __init__(self):
        self.x_p, self.y_p = real("xp"), real("yp")
        self.delta_atomic_time = real("dat")
        self.d_delta_psi, self.d_delta_eps = real("ddpsi"), real("ddeps")
        self.delta_ut1 = real("dut1")
        self.length_of_day = real("lod")


class _TdIgnore:
    """O4a only: a timedelta whose addition leaves the datetime unchanged - the calendar functions that would read the shifted fields are replaced by symbols there"""

    def __init__(self, *a, **k):
        pass

    def __radd__(self, other):
        return other

    __rsub__ = __radd__


def _build_real():
    """Run the real ReductionParams.build on symbolic angles (time series replaced by symbols)."""
    from resonaate.physics.transforms import reductions as RD

    ttt = real("ttt")
    gast = real("gast")
    with shadow(RD, utc2TerrestrialTime=lambda *a: (real("jd_tt"), ttt),
                _getNutationParameters=lambda t, a, b, num=2: (real("dpsi"), real("teps"), real("meps"), real("eqe")),
                dayOfYear=lambda *a: real("doy"), greenwichApparentTime=lambda *a: gast, timedelta=_TdIgnore):
        return RD.ReductionParams.build(_dt.datetime(2020, 3, 1, 12, 0, 5), eops=_Eops())


def replay_fk5(d):
    from resonaate.physics.transforms.reductions import ReductionParams

    red = ReductionParams.build(_dt.datetime(2018, 5, 17, 3, 21, 7))
    e = max(np.abs(red.rot_pnr @ red.rot_pnr.T - np.eye(3)).max(), np.abs(red.rot_w @ red.rot_w.T - np.eye(3)).max(),
            np.abs(red.rot_rnp - red.rot_pnr.T).max(), np.abs(red.rot_wt - red.rot_w.T).max())
    return e > 1e-9, {"max_orthogonality_error": e}


def o4a_fk5(rep):
    with single_path() as p:
        red = _build_real()
        cons = p.constraints()
        W, PNR = red.rot_w, red.rot_pnr
        rep.note(f"trig atoms: {sum(1 for k in p.trig if k[0] == 'atom')}")
        for name, g in [("W-orthogonal", eq_arrays(W.dot(W.T), I3)), ("W^T-orthogonal", eq_arrays(W.T.dot(W), I3)),
                        ("rot_wt=W^T", eq_arrays(red.rot_wt, W.T)), ("rot_rnp=PNR^T", eq_arrays(red.rot_rnp, PNR.T))]:
            rep.prove(name, g, slice_for(g, cons), replay=replay_fk5, sample=name)
        # PNR orthogonality factor by factor: P N and R are products of elementary rotations of symbolic angles
        PN = red.rot_pn
        for name, M_ in (("PN", PN), ("PNR", PNR)):
            for i in range(3):
                for j in range(i, 3):
                    g = (M_[i].dot(M_[j])).t == (1 if i == j else 0)
                    rep.prove(f"{name}-rows[{i}{j}]", g, slice_for(g, cons), timeout_ms=60000, linearize=True, rounds=8, replay=replay_fk5, sample=f"rows {i},{j} of {name} orthonormal")
        rep.reachable("angles", cons)


def _cut_reduction(prefix=""):
    """Symbolic orthogonal W and PNR (cut of the real matrices, justified by O4a)."""
    W = reals(prefix + "W", 3, 3)
    N = reals(prefix + "N", 3, 3)
    for M_ in (W, N):
        assume(eq_arrays(M_.dot(M_.T), I3), eq_arrays(M_.T.dot(M_), I3))

    class Red:
        rot_w, rot_wt, rot_pnr, rot_rnp = W, W.T, N, N.T
        lod = real(prefix + "lod")

    return Red


def replay_eci(d):
    """Positions and velocities judged separately and relative to their own scale (a velocity error of 1e-7 km/s is 1e-11 of a position in km but
    1e-8 of an orbital velocity): 1e-11 relative, four orders above the round-off of the double-precision round trip."""
    from resonaate.physics.transforms import methods as T

    t = _dt.datetime(2019, 7, 3, 11, 13, 17)
    x, y = np.array(d["x"], dtype=float), np.array(d["y"], dtype=float)
    om = 7.292115e-5
    sr = max(1.0, np.abs(x[:3]).max(), np.abs(y[:3]).max())
    sv = max(1e-3, np.abs(x[3:]).max(), om * np.abs(x[:3]).max())
    a, b = T.ecef2eci(T.eci2ecef(x, t), t) - x, T.eci2ecef(T.ecef2eci(x, t), t) - x
    e1, e2 = max(np.abs(a[:3]).max() / sr, np.abs(a[3:]).max() / sv), max(np.abs(b[:3]).max() / sr, np.abs(b[3:]).max() / sv)
    e3 = abs(np.linalg.norm(T.eci2ecef(x, t)[:3]) - np.linalg.norm(x[:3])) / sr
    e4 = abs(np.linalg.norm((T.eci2ecef(x, t) - T.eci2ecef(y, t))[:3]) - np.linalg.norm((x - y)[:3])) / sr
    return max(e1, e2, e3, e4) > 1e-11, {"ecef2eci(eci2ecef) (relative)": e1, "eci2ecef(ecef2eci) (relative)": e2, "norm (relative)": e3, "relative position (relative)": e4}


def o4b_eci(rep):
    from resonaate.physics.transforms import methods as T

    with single_path() as p:
        Red = _cut_reduction()

        class RP:
            @staticmethod
            def build(utc_date, eops=None):
                return Red

        x, y = reals("x", 6), reals("y", 6)
        inputs = lambda m: {"x": marray(m, x), "y": marray(m, y)}  # noqa: E731
        with shadow(T, ReductionParams=RP, array=sym_array):
            fx = T.eci2ecef(x, None)
            back = T.ecef2eci(fx, None)
            back2 = T.eci2ecef(T.ecef2eci(x, None), None)
            fy = T.eci2ecef(y, None)
        cons = p.constraints()
        for i in range(6):
            g = back[i].t == x[i].t
            rep.prove(f"ecef2eci(eci2ecef)[{i}]", g, cons, timeout_ms=60000, linearize=True, inputs=inputs, replay=replay_eci, sample="ecef2eci(eci2ecef(x)) = x, component-wise")
            g = back2[i].t == x[i].t
            rep.prove(f"eci2ecef(ecef2eci)[{i}]", g, cons, timeout_ms=60000, linearize=True, inputs=inputs, replay=replay_eci, sample="eci2ecef(ecef2eci(x)) = x, component-wise")
        n = lambda v: (v[0] * v[0] + v[1] * v[1] + v[2] * v[2]).t  # noqa: E731
        rep.prove("position-norm", n(fx[:3]) == n(x[:3]), cons, timeout_ms=60000, linearize=True, inputs=inputs, replay=replay_eci, sample="|r_ecef| = |r_eci|")
        rep.prove("relative-position-rigid", n((fx - fy)[:3]) == n((x - y)[:3]), cons, timeout_ms=60000, linearize=True, inputs=inputs, replay=replay_eci,
                  sample="|r1-r2| preserved by eci2ecef")
        rep.reachable("orthogonal-matrices-exist", cons, timeout_ms=60000)


# --------------------------------------------------------------------------------
# O5: satellite frames RSW / NTW
# --------------------------------------------------------------------------------
def _cone(goal, cons):
    """constraint slicing by contract variables (names with '!'): keep the constraints over input variables and those contract variables that are
    connected to the goal's.  Dropping constraints is sound for proving; a `sat` of a sliced query is only a candidate (it is replayed)."""
    from symx.core import free_vars

    cv = lambda t: {n for n in free_vars(t) if "!" in n}  # noqa: E731
    S = cv(goal)
    cvs = [cv(c) for c in cons]
    changed = True
    while changed:
        changed = False
        for k in cvs:
            if k & S and not k <= S:
                S |= k
                changed = True
    return [c for c, k in zip(cons, cvs) if k <= S]


def replay_rsw(d):
    from resonaate.physics.transforms import methods as T

    x, y, z = np.array(d["x"]), np.array(d["y"]), np.array(d["z"])
    r, v = x[:3], x[3:]
    h = np.cross(r, v)
    out = {}
    bad = False
    for name, f, ax in (("rsw", T.rsw2eci, (r, None, h)), ("ntw", T.ntw2eci, (None, v, h))):
        M = np.array([f(x, e)[:3] for e in np.eye(6)[:3]]).T
        e1 = np.abs(M.T @ M - np.eye(3)).max()
        e2 = abs(np.linalg.det(M) - 1)
        e3 = max(np.abs(np.cross(M[:, k], a)).max() / max(1e-300, np.linalg.norm(a)) for k, a in enumerate(ax) if a is not None)
        e4 = min(M[:, k].dot(a) / max(1e-300, np.linalg.norm(a)) for k, a in enumerate(ax) if a is not None)
        fz = f(x, z)
        e5 = max(np.abs(fz[:3] - M @ z[:3]).max(), np.abs(fz[3:] - M @ z[3:]).max()) / max(1.0, np.abs(z).max())
        out[name] = {"orthonormal": e1, "det-1": e2, "axis misalignment": e3, "axis orientation": e4, "linear": e5}
        bad = bad or max(e1, e2, e3, e5) > 1e-9 or e4 < 0.5
    sc = max(1.0, np.abs(x).max(), np.abs(y).max())
    e6 = np.abs(T.rsw2eci(x, T.eci2rsw(x, y)) - (y - x)).max() / sc
    e7 = np.abs(T.eci2rsw(x, x + T.rsw2eci(x, z)) - z).max() / max(1.0, np.abs(z).max())
    out["rsw2eci(eci2rsw)"] = e6
    out["eci2rsw(rsw2eci)"] = e7
    return bool(bad or e6 > 1e-9 or e7 > 1e-9), out


def o5_rsw(rep):
    from resonaate.physics.transforms import methods as T

    with single_path(recip=True) as p:
        x, y, z = reals("x", 6), reals("y", 6), reals("z", 6)
        r, v = x[:3], x[3:]
        h = np.cross(r, v)
        n2 = lambda q: (q[0] * q[0] + q[1] * q[1] + q[2] * q[2]).t  # noqa: E731
        assume(n2(r) > 0, n2(v) > 0, n2(h) > 0)  # a direction is normalised: non-degenerate orbit state
        inputs = lambda m: {"x": marray(m, x), "y": marray(m, y), "z": marray(m, z)}  # noqa: E731
        unit = const_array(np.eye(6))
        kw = dict(timeout_ms=60000, inputs=inputs, replay=replay_rsw)
        with shadow(T, array=sym_array):
            mats = {}
            for name, f in (("rsw", T.rsw2eci), ("ntw", T.ntw2eci)):
                mats[name] = np.array([f(x, unit[k])[:3] for k in range(3)], dtype=object).T
                fz = f(x, z)
                M = mats[name]
                g_ = z3.And(eq_arrays(fz[:3], M.dot(z[:3])), eq_arrays(fz[3:], M.dot(z[3:])))
                rep.prove(f"{name}-linear", g_, _cone(g_, p.constraints()), sample=f"{name}2eci(x, z) = [M z_r, M z_v] with M = images of the unit vectors", **kw)
            rel = T.eci2rsw(x, y)
            back = T.rsw2eci(x, rel)
            fwd = T.eci2rsw(x, x + T.rsw2eci(x, z))
        cons = p.constraints()

        def prove(label, goal, sample, **extra):
            rep.prove(label, goal, _cone(goal, cons), sample=sample, **dict(kw, **extra))

        for name, M in mats.items():
            G, G2 = M.T.dot(M), M.dot(M.T)
            for i_ in range(3):
                for j in range(i_, 3):
                    want = 1 if i_ == j else 0
                    prove(f"{name}-MtM[{i_}{j}]", G[i_, j].t == want, f"columns of the {name.upper()} rotation are orthonormal")
                    prove(f"{name}-MMt[{i_}{j}]", G2[i_, j].t == want, f"rows of the {name.upper()} rotation are orthonormal")
            det = M[:, 0].dot(np.cross(M[:, 1], M[:, 2]))
            prove(f"{name}-det", det.t == 1, f"{name.upper()} rotation is right-handed (det = +1)")
        R_, N_ = mats["rsw"], mats["ntw"]
        for lab, col, axis in (("rsw-R-axis", R_[:, 0], r), ("rsw-W-axis", R_[:, 2], h), ("ntw-T-axis", N_[:, 1], v), ("ntw-W-axis", N_[:, 2], h)):
            prove(lab, z3.And(eq_arrays(np.cross(col, axis), const_array(np.zeros(3))), col.dot(axis).t > 0), f"{lab}: the axis points along the documented vector (radial / velocity / orbit normal)")
        # round trips: (1) the real output is M (M^T d) resp. M^T (M z) - ring identity on the real terms; (2) W (W^T d) = d for every W with W W^T = I -
        # proved on a symbolic matrix by the linearisation prover; (3) the real matrix satisfies the hypothesis of (2) (the MMt / MtM items above)
        W, dv = reals("W_", 3, 3), reals("d_", 3)
        ent = [(i_, j) for i_ in range(3) for j in range(i_, 3)]
        hy_r = [W.dot(W.T)[i_, j].t == (1 if i_ == j else 0) for i_, j in ent]
        hy_c = [W.T.dot(W)[i_, j].t == (1 if i_ == j else 0) for i_, j in ent]
        d6 = y - x
        for part, sl in (("r", slice(0, 3)), ("v", slice(3, 6))):
            g1 = eq_arrays(back[sl], R_.dot(R_.T.dot(d6[sl])))
            prove(f"rsw2eci(eci2rsw).{part}:shape", g1, "rsw2eci(x, eci2rsw(x, y)) = M (M^T (y - x))")
            g2 = eq_arrays(fwd[sl], R_.T.dot(R_.dot(z[sl])))
            prove(f"eci2rsw(rsw2eci).{part}:shape", g2, "eci2rsw(x, x + rsw2eci(x, z)) = M^T (M z)")
        for k in range(3):
            rep.prove(f"orthogonal-roundtrip[{k}]", W.dot(W.T.dot(dv))[k].t == dv[k].t, hy_r, linearize=True, timeout_ms=60000,
                      sample="W (W^T d) = d for every matrix with W W^T = I (instantiated with the real RSW matrix, whose orthonormality is proved above) => rsw2eci(x, eci2rsw(x, y)) = y - x")
            rep.prove(f"orthogonal-roundtrip-T[{k}]", W.T.dot(W.dot(dv))[k].t == dv[k].t, hy_c, linearize=True, timeout_ms=60000,
                      sample="W^T (W d) = d for every matrix with W^T W = I => eci2rsw(x, x + rsw2eci(x, z)) = z")
        rep.reachable("non-degenerate-state", cons + [x[0].t == 7000, x[1].t == 0, x[2].t == 0, x[3].t == 0, x[4].t == 7, x[5].t == 1], timeout_ms=60000)


# --------------------------------------------------------------------------------
# O7: calendar arithmetic and continuity of the Earth-rotation angle
# --------------------------------------------------------------------------------
_CUM = [0, 31, 59, 90, 120, 151, 181, 212, 243, 273, 304, 334]  # days before month m in a common year (oracle table, independent of /repo)
_DIM = [31, 28, 31, 30, 31, 30, 31, 31, 30, 31, 30, 31]
TOL_RAD = Fraction(1, 10**9)


def _isleap(y):
    return y % 4 == 0 and (y % 100 != 0 or y % 400 == 0)


def _leap_t(y):
    """Gregorian leap rule on a z3 Int term (the oracle's own statement of it)"""
    return z3.And(y % 4 == 0, z3.Or(y % 100 != 0, y % 400 == 0))


def _table_t(m, table, leap, leap_from):
    """table[m-1] (+1 in leap years from month `leap_from` on) as a z3 Int term of the month term m"""
    t = z3.IntVal(table[11]) + z3.If(leap, 1, 0) if 12 >= leap_from else z3.IntVal(table[11])
    for k in range(11, 0, -1):
        v = z3.IntVal(table[k - 1])
        if k >= leap_from:
            v = v + z3.If(leap, 1, 0)
        t = z3.If(m == k, v, t)
    return t


def _days_before_t(m, d, leap):
    """whole days from 1 January 00:00 to the start of day (m, d) of the same year"""
    return _table_t(m, _CUM, leap, 3) + d - 1


def _dim_t(m, leap):
    t = z3.IntVal(31)
    for k in range(11, 0, -1):
        t = z3.If(m == k, z3.If(leap, 29, 28) if k == 2 else z3.IntVal(_DIM[k - 1]), t)
    return t


def _oracle_selfcheck(rep):
    """translator validation of the calendar oracle against CPython's datetime on pinned dates (not a deciding step)"""
    y, m, d = z3.Ints("oy om od")
    term = _days_before_t(m, d, _leap_t(y))
    dimt = _dim_t(m, _leap_t(y))
    bad = []
    for yy in (1600, 1700, 1900, 1999, 2000, 2016, 2019, 2020, 2100, 2399):
        for mm in range(1, 13):
            last = (_dt.date(yy + (mm == 12), mm % 12 + 1, 1) - _dt.timedelta(days=1)).day
            for dd in (1, last):
                got = z3.simplify(z3.substitute(term, (y, z3.IntVal(yy)), (m, z3.IntVal(mm)), (d, z3.IntVal(dd)))).as_long()
                if got != (_dt.date(yy, mm, dd) - _dt.date(yy, 1, 1)).days:
                    bad.append((yy, mm, dd, got))
            if z3.simplify(z3.substitute(dimt, (y, z3.IntVal(yy)), (m, z3.IntVal(mm)))).as_long() != last:
                bad.append((yy, mm, "dim"))
    if bad:
        rep.error("calendar-oracle", f"oracle disagrees with datetime on {bad[:5]}")
    rep.note("calendar oracle (cumulative-days table + Gregorian rule) agrees with datetime on 240 pinned dates")


def replay_doy(d):
    from resonaate.physics.time.conversions import dayOfYear

    y, m, dd, h, mi, s = int(d["year"]), int(d["month"]), int(d["day"]), int(d["hour"]), int(d["minute"]), float(d["second"])
    got = float(dayOfYear(y, m, dd, h, mi, s))
    exp = (_dt.date(y, m, dd) - _dt.date(y, 1, 1)).days + 1 + (h * 3600 + mi * 60 + s) / 86400.0
    return abs(got - exp) > 5e-10, {"dayOfYear": got, "true day of year (datetime)": exp, "date": f"{y:04d}-{m:02d}-{dd:02d} {h:02d}:{mi:02d}:{s}"}


def _o7a(lo, hi):
    def o7a_doy(rep):
        from resonaate.physics.time import conversions as CV

        _oracle_selfcheck(rep)

        def run():
            y, m, d, h, mi = integer("year"), integer("month"), integer("day"), integer("hour"), integer("minute")
            s = real("second")
            leap = _leap_t(y.t)
            assume(y.t >= lo, y.t <= hi, m.t >= 1, m.t <= 12, d.t >= 1, d.t <= _dim_t(m.t, leap), h.t >= 0, h.t <= 23, mi.t >= 0, mi.t <= 59,
                   s.t >= -1, s.t <= 61)
            return (y, m, d, h, mi, s), CV.dayOfYear(y, m, d, h, mi, s)

        res = explore(run, max_paths=1500, max_depth=200)
        rep.note(f"{len(res)} paths of dayOfYear")
        tol = rv(TOL_RAD)
        seen = {}
        for r in res:
            if r.exc is not None:
                rep.error(f"doy[{_tag(r)}]", f"dayOfYear raised {type(r.exc).__name__}: {r.exc}")
                continue
            (y, m, d, h, mi, s), out = r.out
            leap = _leap_t(y.t)
            oracle = z3.ToReal(_days_before_t(m.t, d.t, leap) + 1) + z3.ToReal(h.t * 3600 + mi.t * 60) / 86400 + s.t / 86400
            got = terms(out)[0]
            inputs = lambda mo, y=y, m=m, d=d, h=h, mi=mi, s=s: {"year": mval(mo, y), "month": mval(mo, m), "day": mval(mo, d), "hour": mval(mo, h),  # noqa: E731
                                                               "minute": mval(mo, mi), "second": mfloat(mo, s.t)}
            rep.prove(f"doy[{_tag(r)}]", z3.And(got - oracle <= tol, oracle - got <= tol), r.constraints, inputs=inputs, replay=replay_doy,
                      sample="dayOfYear(y,m,d,h,mi,s) = days since 1 Jan (cumulative table + Gregorian leap rule) + 1 + day fraction")
            # which interesting dates does this path carry?  (vacuity guards)
            for name, cond in (("29-Feb", z3.And(m.t == 2, d.t == 29)), ("1-Mar-leap", z3.And(m.t == 3, d.t == 1, leap)), ("31-Dec-leap", z3.And(m.t == 12, d.t == 31, leap)),
                               ("1-Feb-leap", z3.And(m.t == 2, d.t == 1, leap)), ("1-Jan", z3.And(m.t == 1, d.t == 1)),
                               ("century-common-year-Mar", z3.And(y.t % 100 == 0, z3.Not(leap), m.t == 3)), ("400-year-29-Feb", z3.And(y.t % 400 == 0, m.t == 2, d.t == 29))):
                if name not in seen and rep.feasible(f"reach:{name}[{_tag(r)}]", r.constraints + [cond]) not in (None, True):
                    seen[name] = True
        need = ["29-Feb", "1-Mar-leap", "31-Dec-leap", "1-Feb-leap", "1-Jan"] + (["century-common-year-Mar"] if lo <= 1900 <= hi or lo <= 2100 <= hi else []) + (["400-year-29-Feb"] if lo <= 2000 <= hi else [])
        for name in need:
            if name not in seen:
                rep.error(f"reach:{name}", "vacuous: no path of dayOfYear carries this date class")

    return o7a_doy


def _gmst82_sec(T):
    """IAU-1982 GMST (seconds) as an exact rational polynomial of UT1 Julian centuries since J2000 (Aoki et al. 1982 constants)"""
    return Fraction("67310.54841") + (876600 * 3600 + Fraction("8640184.812866")) * T + Fraction("0.093104") * T * T - Fraction("6.2e-6") * T * T * T


def _gmst82_rate(T):
    """d GMST / d t in revolutions per UT1 day (exact derivative of the same polynomial)"""
    return ((876600 * 3600 + Fraction("8640184.812866")) + 2 * Fraction("0.093104") * T - 3 * Fraction("6.2e-6") * T * T) / (36525 * 86400)


def _ref_year(year):
    """(GMST at 1 Jan 0h UT1 in rad, Earth rate in rad/day) of the reference, exact rationals; pi is the code's double"""
    jd1 = Fraction(_dt.date(year, 1, 1).toordinal()) + Fraction("1721424.5")
    T0 = (jd1 - 2451545) / 36525
    return _gmst82_sec(T0) * Fraction(1, 240) * PI_F / 180, _gmst82_rate(T0) * TWOPI_F


def _wrap_pm(x):
    return (x + math.pi) % (2 * math.pi) - math.pi


def replay_rotr(d):
    from resonaate.physics.transforms.reductions import getRotR

    y = int(d["year"])
    t = _dt.datetime(y, int(d["month"]), int(d["day"]), int(d["hour"]), int(d["minute"]), int(d["second"]), int(d["microsecond"]))
    R = getRotR(t, float(d["dut1"]), float(d["eqe"]))
    got = math.atan2(R[1, 0], R[0, 0])
    g0, w = _ref_year(y)
    E = Fraction((t.date() - _dt.date(y, 1, 1)).days) + (Fraction(t.hour * 3600 + t.minute * 60 + t.second) + Fraction(t.microsecond, 10**6) + Fraction(float(d["dut1"]))) / 86400
    exp = float((g0 + w * E + Fraction(float(d["eqe"]))) % TWOPI_F)
    diff = _wrap_pm(got - exp)
    ortho = float(np.abs(R @ R.T - np.eye(3)).max())
    return abs(diff) > 5e-10 or ortho > 1e-12, {"angle of getRotR (rad)": got, "reference GMST82(1 Jan) + rate*elapsed + eqe (rad)": exp, "difference (rad)": diff,
                                                "difference (deg)": math.degrees(diff), "utc": t.isoformat()}


def _sint(x):
    return x if isinstance(x, SInt) else SInt(int(x))


class _Td:
    """model of datetime.timedelta(seconds=..., ...) for |value| < 1 day: whole microseconds, rounded half-to-even like CPython"""

    def __init__(self, days=0, seconds=0, microseconds=0, **kw):
        from symx.core import Unsupported, _real_term

        if kw:
            raise Unsupported(f"timedelta model: {sorted(kw)}")
        tot = SReal(_real_term(days)) * 86400 * 10**6 + SReal(_real_term(seconds)) * 10**6 + SReal(_real_term(microseconds))
        ts = z3.simplify(tot.t)
        if z3.is_rational_value(ts):
            self.us = SInt(z3.simplify(z3.ToInt(tot.rint().t)))
        else:
            # nearest whole microsecond as a linear contract; exact half-microsecond ties are excluded from the inputs (a bound: their replay would
            # depend on the binary rounding of the decimal value)
            k = cur().new("td_us", "int")
            assume(z3.ToReal(k) - rv(Fraction(1, 2)) < ts, ts < z3.ToReal(k) + rv(Fraction(1, 2)))
            self.us = SInt(k)


    def __radd__(self, other):
        if isinstance(other, _dt.datetime):  # a real datetime met by the code under analysis (O4a): continue in the model
            return _Utc(other.year, other.month, other.day, other.hour, other.minute, other.second, other.microsecond) + self
        return NotImplemented


class _Utc:
    """model of a datetime for the code under analysis: calendar fields (year a Python int, the others Python ints or z3 Int proxies);
    `utc + timedelta` is civil-calendar arithmetic with carries decided by forking (shift of less than one day)"""

    def __init__(self, year, month, day, hour, minute, second, microsecond):
        self.year, self.month, self.day, self.hour, self.minute, self.second, self.microsecond = year, month, day, hour, minute, second, microsecond

    def _dim(self, y, m):
        return SInt(z3.simplify(_dim_t(_sint(m).t, z3.BoolVal(_isleap(y)))))

    def __add__(self, td):
        from symx.core import Unsupported

        if not isinstance(td, _Td):
            return NotImplemented
        DAY = 86400 * 10**6
        us = ((_sint(self.hour) * 60 + self.minute) * 60 + self.second) * 10**6 + self.microsecond + td.us
        y, m, d = self.year, _sint(self.month), _sint(self.day)
        if us < 0:
            us = us + DAY
            if d > 1:
                d = d - 1
            elif m > 1:
                m = m - 1
                d = self._dim(y, m)
            else:
                y, m, d = y - 1, SInt(12), SInt(31)
        elif us >= DAY:
            us = us - DAY
            if d < self._dim(y, m):
                d = d + 1
            elif m < 12:
                m, d = m + 1, SInt(1)
            else:
                y, m, d = y + 1, SInt(1), SInt(1)
        if (us < 0) | (us >= DAY):
            raise Unsupported("datetime model: shift of a day or more")
        # time-of-day fields: the unique (H, Mi, S, U) in range with ((H*60 + Mi)*60 + S)*1e6 + U == us (linear contract instead of div/mod terms)
        p = cur()
        H, Mi, S_, U = (SInt(p.new(n, "int")) for n in ("hour", "minute", "second", "micro"))
        assume(H.t >= 0, H.t <= 23, Mi.t >= 0, Mi.t <= 59, S_.t >= 0, S_.t <= 59, U.t >= 0, U.t <= 999999, ((H.t * 60 + Mi.t) * 60 + S_.t) * 10**6 + U.t == us.t)
        return _Utc(y, m, d, H, Mi, S_, U)

    __radd__ = __add__

    def __sub__(self, td):
        if isinstance(td, _Td):
            neg = _Td()
            neg.us = -td.us
            return self + neg
        return NotImplemented


def _run_rotr(year):
    from resonaate.physics import maths as M
    from resonaate.physics.transforms import reductions as RD

    cap = []

    def rec_rot3(a):
        cap.append(a)
        return M.rot3(a)

    m, d, h, mi, s, us = (integer(n) for n in ("month", "day", "hour", "minute", "second", "microsecond"))
    dut1, eqe = real("dut1"), real("eqe")
    leap = z3.BoolVal(_isleap(year))
    assume(m.t >= 1, m.t <= 12, d.t >= 1, d.t <= _dim_t(m.t, leap), h.t >= 0, h.t <= 23, mi.t >= 0, mi.t <= 59, s.t >= 0, s.t <= 59, us.t >= 0, us.t <= 999999,
           dut1.t >= -1, dut1.t <= 1, eqe.t >= -Fraction(1, 1000), eqe.t <= Fraction(1, 1000))
    u = _Utc(year, m, d, h, mi, s, us)
    with shadow(RD, rot3=rec_rot3, timedelta=_Td):
        R = RD.getRotR(u, dut1, eqe)
    if len(cap) != 1:
        raise RuntimeError("getRotR did not build its matrix with exactly one rot3 call: the angle cannot be observed")
    return (m, d, h, mi, s, us, dut1, eqe), -cap[0], R, leap


def _o7b(years):
    def o7b_gast(rep):
        tol = rv(TOL_RAD)
        for year in years:
            res = explore(lambda year=year: _run_rotr(year), max_paths=400, max_depth=200)
            g0, w = _ref_year(year)
            months = set()
            for r in res:
                lab = f"{year}[{_tag(r)}]"
                if r.exc is not None:
                    rep.error(f"rotation-angle {lab}", f"getRotR raised {type(r.exc).__name__}: {r.exc}")
                    continue
                (m, d, h, mi, s, us, dut1, eqe), theta, R, leap = r.out
                p = r.path
                E = z3.ToReal(_days_before_t(m.t, d.t, leap)) + (z3.ToReal(h.t * 3600 + mi.t * 60 + s.t) + z3.ToReal(us.t) / 1000000 + dut1.t) / 86400
                ref = rv(g0) + rv(w) * E + eqe.t
                with resume(p):
                    dm = (theta - SReal(ref)) % (2 * math.pi)
                inputs = lambda mo, v=(m, d, h, mi, s, us, dut1, eqe), year=year: dict(year=year, month=mval(mo, v[0]), day=mval(mo, v[1]), hour=mval(mo, v[2]), minute=mval(mo, v[3]),  # noqa: E731
                                                                                   second=mval(mo, v[4]), microsecond=mval(mo, v[5]), dut1=mfloat(mo, v[6].t), eqe=mfloat(mo, v[7].t))
                rep.prove(f"rotation-angle {lab}", z3.Or(dm.t <= tol, dm.t >= rv(TWOPI_F) - tol), p.constraints(), timeout_ms=60000, inputs=inputs, replay=replay_rotr,
                          sample="angle of getRotR(utc, dut1, eqe) = GMST82(1 Jan 0h) + rate * (true elapsed UT1 days since 1 Jan) + eqe (mod 2pi) within 1e-9 rad, all instants of the year")
                for k in range(1, 13):
                    if k not in months and rep.feasible(f"reach:{year}-{k:02d}[{_tag(r)}]", p.constraints() + [m.t == k, d.t == (29 if (k == 2 and _isleap(year)) else _DIM[k - 1])]) not in (None, True):
                        months.add(k)
            if len(months) != 12:
                rep.error(f"reach:{year}", f"vacuous: months reached {sorted(months)}")
            # the reference itself is continuous over the year boundary (exact rational evaluation of the IAU-82 polynomial; oracle sanity, not a claim about /repo)
            g1, _w1 = _ref_year(year + 1)
            n = 366 if _isleap(year) else 365
            jump = float((g0 + w * n - g1 + PI_F) % TWOPI_F - PI_F)
            rep.note(f"reference: GMST82 linearised over {year} misses GMST82(1 Jan {year + 1}) by {jump:.3e} rad")
            if abs(jump) > 1e-9:
                rep.error(f"reference:{year}", "the piecewise-linear reference is itself discontinuous by more than 1e-9 rad")

    return o7b_gast


def replay_newyear(d):
    from resonaate.physics.transforms.reductions import getRotR

    y = int(d["year"])
    ta = _dt.datetime(y, 12, 31, 23, 59, int(d["sa"]), int(d["usa"]))
    tb = _dt.datetime(y + 1, 1, 1, 0, 0, int(d["sb"]), int(d["usb"]))
    dut1, eqe = float(d["dut1"]), float(d["eqe"])
    Ra, Rb = getRotR(ta, dut1, eqe), getRotR(tb, dut1, eqe)
    ga, gb = math.atan2(Ra[1, 0], Ra[0, 0]), math.atan2(Rb[1, 0], Rb[0, 0])
    _g0, w = _ref_year(y)
    dt_days = Fraction((tb - ta) // _dt.timedelta(microseconds=1), 86400 * 10**6)
    diff = _wrap_pm(gb - ga - float(w * dt_days % TWOPI_F))
    return abs(diff) > 1e-9, {"angle before New Year": ga, "angle after": gb, "elapsed (s)": float(dt_days * 86400), "deviation from Earth rate (rad)": diff, "deviation (deg)": math.degrees(diff),
                              "utc": [ta.isoformat(), tb.isoformat()]}


def _o7e(years):
    def o7e_newyear(rep):
        """two instants on either side of a New Year through the real getRotR: the rotation angle advances by rate * elapsed time (no jump, no leap second assumed)"""
        from resonaate.physics import maths as M
        from resonaate.physics.transforms import reductions as RD

        tol = rv(2 * TOL_RAD)
        for year in years:
            def run(year=year):
                cap = []

                def rec_rot3(a):
                    cap.append(a)
                    return M.rot3(a)

                sa, usa, sb, usb = (integer(n) for n in ("sa", "usa", "sb", "usb"))
                dut1, eqe = real("dut1"), real("eqe")
                assume(sa.t >= 57, sa.t <= 59, sb.t >= 0, sb.t <= 2, usa.t >= 0, usa.t <= 999999, usb.t >= 0, usb.t <= 999999, dut1.t >= -Fraction(9, 10), dut1.t <= Fraction(9, 10),
                       eqe.t >= -Fraction(1, 1000), eqe.t <= Fraction(1, 1000))
                with shadow(RD, rot3=rec_rot3, timedelta=_Td):
                    RD.getRotR(_Utc(year, 12, 31, 23, 59, sa, usa), dut1, eqe)
                    RD.getRotR(_Utc(year + 1, 1, 1, 0, 0, sb, usb), dut1, eqe)
                if len(cap) != 2:
                    raise RuntimeError("getRotR did not build its matrix with exactly one rot3 call")
                return (sa, usa, sb, usb, dut1, eqe), -cap[0], -cap[1]

            res = explore(run, max_paths=200, max_depth=100)
            _g0, w = _ref_year(year)
            for r in res:
                lab = f"{year}/{year + 1}[{_tag(r)}]"
                if r.exc is not None:
                    rep.error(lab, f"getRotR raised {type(r.exc).__name__}: {r.exc}")
                    continue
                (sa, usa, sb, usb, dut1, eqe), ga, gb = r.out
                p = r.path
                dt_days = (z3.ToReal(sb.t + 60 - sa.t) + z3.ToReal(usb.t - usa.t) / 1000000) / 86400
                with resume(p):
                    dm = (gb - ga - SReal(rv(w) * dt_days)) % (2 * math.pi)
                inputs = lambda mo, v=(sa, usa, sb, usb, dut1, eqe), year=year: dict(year=year, sa=mval(mo, v[0]), usa=mval(mo, v[1]), sb=mval(mo, v[2]), usb=mval(mo, v[3]),  # noqa: E731
                                                                                   dut1=mfloat(mo, v[4].t), eqe=mfloat(mo, v[5].t))
                rep.prove(f"new-year {lab}", z3.Or(dm.t <= tol, dm.t >= rv(TWOPI_F) - tol), p.constraints(), timeout_ms=60000, inputs=inputs, replay=replay_newyear,
                          sample="getRotR angle at 1 Jan 00:00:0x minus angle at 31 Dec 23:59:5x = Earth rate * elapsed time (mod 2pi) within 2e-9 rad, same dUT1 (symbolic, |dUT1| <= 0.9 s)")
            rep.reachable(f"reach:{year}", res[0].constraints if res else [z3.BoolVal(False)])

    return o7e_newyear


def replay_tt(d):
    """the model's rational second/dAT are converted to doubles: the neighbouring doubles are tried as well (the property has a step at TT = 24 h, a rational
    model value on the step may round to either side)"""
    from resonaate.physics.time.conversions import utc2TerrestrialTime

    y, m, dd, h, mi = int(d["year"]), int(d["month"]), int(d["day"]), int(d["hour"]), int(d["minute"])
    best = None
    for s in (float(d["second"]), math.nextafter(float(d["second"]), math.inf), math.nextafter(float(d["second"]), -math.inf)):
        for dat in (float(d["dat"]), math.nextafter(float(d["dat"]), math.inf), math.nextafter(float(d["dat"]), -math.inf)):
            if not (0 <= s < 60):
                continue
            tt, ttt = utc2TerrestrialTime(y, m, dd, h, mi, s, dat)
            jd = Fraction(_dt.date(y, m, dd).toordinal()) + Fraction("1721424.5") + (Fraction(h * 3600 + mi * 60) + Fraction(s) + Fraction(dat) + Fraction(32.184)) / 86400
            exp = float((jd - 2451545) / 36525)
            e1, e2 = abs(float(ttt) - exp), abs(float(tt) - (h * 3600 + mi * 60 + s + dat + 32.184))
            det = {"second": s, "dat": dat, "ttt": float(ttt), "expected Julian centuries of TT": exp, "difference (days)": (float(ttt) - exp) * 36525, "tt_secs error": e2}
            if e1 > 5e-13 or e2 > 1e-6:
                return True, det
            best = best or det
    return False, best


class _SymJD(SReal):
    """JulianDate (a float subclass in /repo) re-based on the symbolic Real: the real getJulianDate body runs unchanged"""

    __slots__ = ()

    def __init__(self, v):
        from symx.core import _real_term

        SReal.__init__(self, _real_term(v))


def _sym_float(x):
    from symx.core import _real_term

    if isinstance(x, (SReal, SInt)):
        return SReal(_real_term(x))
    return float(x)


def _o7d(years):
    def o7d_tt(rep):
        """utc2TerrestrialTime: TT = UTC + dAT + 32.184 s as a Julian century count advances linearly through the day boundary"""
        from resonaate.physics.time import conversions as CV
        from resonaate.physics.time import stardate as SD
        from symx.ext_c04 import real_divmod

        _SymJD.getJulianDate = classmethod(SD.JulianDate.getJulianDate.__func__)
        tol = rv(Fraction(1, 10**12))
        for year in years:
            def run(year=year):
                m, d, h, mi = integer("month"), integer("day"), integer("hour"), integer("minute")
                s, dat = real("second"), real("dat")
                leap = z3.BoolVal(_isleap(year))
                assume(m.t >= 1, m.t <= 12, d.t >= 1, d.t <= _dim_t(m.t, leap), h.t >= 0, h.t <= 23, mi.t >= 0, mi.t <= 59, s.t >= 0, s.t < 60, dat.t >= 10, dat.t <= 40)
                with shadow(CV, JulianDate=_SymJD, float=_sym_float), real_divmod():
                    tt, ttt = CV.utc2TerrestrialTime(year, m, d, h, mi, s, dat)
                return (m, d, h, mi, s, dat), tt, ttt, leap

            res = explore(run, max_paths=200, max_depth=100)
            jd1 = Fraction(_dt.date(year, 1, 1).toordinal()) + Fraction("1721424.5")
            crossed = False
            for r in res:
                lab = f"{year}[{_tag(r)}]"
                if r.exc is not None:
                    rep.error(lab, f"utc2TerrestrialTime raised {type(r.exc).__name__}: {r.exc}")
                    continue
                (m, d, h, mi, s, dat), tt, ttt, leap = r.out
                utc = z3.ToReal(h.t * 3600 + mi.t * 60) + s.t
                tts = utc + dat.t + rv(Fraction(32.184))
                exp = (rv(jd1) + z3.ToReal(_days_before_t(m.t, d.t, leap)) + tts / 86400 - 2451545) / 36525
                got, gtt = terms(ttt)[0], terms(tt)[0]
                inputs = lambda mo, v=(m, d, h, mi, s, dat), year=year: dict(year=year, month=mval(mo, v[0]), day=mval(mo, v[1]), hour=mval(mo, v[2]), minute=mval(mo, v[3]),  # noqa: E731
                                                                            second=mfloat(mo, v[4].t), dat=mfloat(mo, v[5].t))
                # asked in two parts so that a counterexample is looked for first away from the step at TT = 24 h (a model value exactly on the step
                # would not survive the conversion to doubles), then in the remaining 2 ms band
                away = z3.Or(tts <= 86400 - rv(Fraction(1, 1000)), tts >= 86400 + rv(Fraction(1, 1000)))
                what = "utc2TerrestrialTime: ttt = (JD(date) + (UTC + dAT + 32.184 s)/86400 - 2451545)/36525 for every instant (linear in time, also when TT is already in the next day)"
                if rep.prove(f"ttt {lab}", z3.And(got - exp <= tol, exp - got <= tol), r.constraints + [away], timeout_ms=60000, inputs=inputs, replay=replay_tt, sample=what):
                    rep.prove(f"ttt-at-24h {lab}", z3.And(got - exp <= tol, exp - got <= tol), r.constraints + [z3.Not(away)], timeout_ms=60000, inputs=inputs, replay=replay_tt,
                              sample=what + " [within 1 ms of TT = 24 h]")
                rep.prove(f"tt_secs {lab}", gtt == tts, r.constraints, timeout_ms=60000, inputs=inputs, replay=replay_tt, sample="tt_secs = UTC seconds of day + dAT + 32.184")
                if not crossed and rep.feasible(f"reach:tt-next-day {lab}", r.constraints + [tts >= 86400]) not in (None, True):
                    crossed = True
            if not crossed:
                rep.error(f"reach:{year}", "vacuous: no path with TT past the end of the UTC day")

    return o7d_tt


def replay_rollover(d):
    from resonaate.physics.time.conversions import greenwichApparentTime

    y, f, eqe = int(d["year"]), float(d["f"]), float(d["eqe"])
    n = 366 if _isleap(y) else 365
    a, b = greenwichApparentTime(y, n + f, eqe), greenwichApparentTime(y + 1, f, eqe)
    diff = _wrap_pm(a - b)
    return abs(diff) > 5e-10 or not (0 <= a < 2 * math.pi and 0 <= b < 2 * math.pi), {"GAST(year, days_in_year + f)": a, "GAST(year+1, f)": b, "difference (rad)": diff}


def _o7c(years):
    def o7c_rollover(rep):
        from resonaate.physics.time import conversions as CV

        tol = rv(TOL_RAD)
        for year in years:
            n = 366 if _isleap(year) else 365

            def run(year=year, n=n):
                f, eqe = real("f"), real("eqe")
                assume(f.t >= 0, f.t < 1, eqe.t >= -Fraction(1, 1000), eqe.t <= Fraction(1, 1000))
                return (f, eqe), CV.greenwichApparentTime(year, n + f, eqe), CV.greenwichApparentTime(year + 1, f, eqe)

            res = explore(run, max_paths=16)
            for r in res:
                lab = f"{year}->{year + 1}[{_tag(r)}]"
                if r.exc is not None:
                    rep.error(lab, f"greenwichApparentTime raised {type(r.exc).__name__}: {r.exc}")
                    continue
                (f, eqe), ga, gb = r.out
                p = r.path
                with resume(p):
                    dm = (ga - gb) % (2 * math.pi)
                    rng = z3.And(ga.t >= 0, ga.t < rv(TWOPI_F), gb.t >= 0, gb.t < rv(TWOPI_F))
                inputs = lambda mo, f=f, eqe=eqe, year=year: {"year": year, "f": mfloat(mo, f.t), "eqe": mfloat(mo, eqe.t)}  # noqa: E731
                rep.prove(f"year-rollover {lab}", z3.Or(dm.t <= tol, dm.t >= rv(TWOPI_F) - tol), p.constraints(), timeout_ms=60000, inputs=inputs, replay=replay_rollover,
                          sample="GAST(y, days_in_year(y) + f) = GAST(y+1, f) (mod 2pi) within 1e-9 rad for every day fraction f")
                rep.prove(f"range {lab}", rng, p.constraints(), timeout_ms=60000, inputs=inputs, replay=replay_rollover, sample="GAST in [0, 2pi)")
            rep.reachable(f"reach:{year}", res[0].constraints if res else [z3.BoolVal(False)])

    return o7c_rollover


# --------------------------------------------------------------------------------
# O8: geodetic conversion
# --------------------------------------------------------------------------------
def _earth_consts():
    from resonaate.physics.bodies import Earth

    return Fraction(Earth.radius), Fraction(Earth.eccentricity)


class _EarthX:
    """Earth.radius / Earth.eccentricity as exact constants (their double values), so that sqrt(1 - e^2) is the exact real square root"""


def _earthx():
    a, e = _earth_consts()
    _EarthX.radius, _EarthX.eccentricity = SReal(a), SReal(e)
    return _EarthX


TOL_KM = Fraction(1, 10**6)  # 1 mm
KAPPA2 = Fraction(98, 100) ** 2  # region: on/outside the ellipsoid scaled by 0.98 (i.e. down to >= 127 km below the surface) ...
RMAX = 70000  # ... and within 70000 km of the centre (> 10 Earth radii)


def replay_lla2ecef(d):
    from resonaate.physics.transforms.methods import lla2ecef

    a, e = map(float, _earth_consts())
    lat, lon, h = d["lat"], d["lon"], d["h"]
    x = lla2ecef(np.array([lat, lon, h]))
    x0 = lla2ecef(np.array([lat, lon, 0.0]))
    n = np.array([math.cos(lat) * math.cos(lon), math.cos(lat) * math.sin(lon), math.sin(lat)])
    e1 = abs((x0[0] ** 2 + x0[1] ** 2) / a**2 + x0[2] ** 2 / (a**2 * (1 - e**2)) - 1)
    e2_ = np.abs(x[:3] - x0[:3] - h * n).max()
    g = np.array([x0[0] / a**2, x0[1] / a**2, x0[2] / (a**2 * (1 - e**2))])
    e3 = np.abs(np.cross(g, n)).max() * a
    e4 = np.abs(x[3:]).max()
    sc = max(1.0, abs(h))
    xm = lla2ecef(np.array([-lat, lon, h]))
    e5 = max(abs(xm[0] - x[0]), abs(xm[1] - x[1]), abs(xm[2] + x[2]))
    return e1 > 1e-9 or e2_ > 1e-9 * sc or e3 > 1e-9 or e4 > 0 or g.dot(n) <= 0 or e5 > 1e-9 * sc, {"mirror": e5, "|ellipsoid equation at h=0|": e1, "|x(h) - x(0) - h n|": e2_, "|grad x n| * a": e3, "velocity": e4,
                                                                                   "grad . n": g.dot(n)}


def o8a_lla2ecef(rep):
    """lla2ecef against the definition of geodetic coordinates (no use of the prime-vertical formula in the oracle)"""
    from resonaate.physics.transforms import methods as T

    a, e = _earth_consts()
    with single_path() as p:
        lat, lon, h = real("lat"), real("lon"), real("h")
        cl, sl = lat.cos(), lat.sin()
        co, so = lon.cos(), lon.sin()
        assume(cl.t > 0)  # |lat| < pi/2 (the poles are pinned separately below)
        inputs = lambda m: {"lat": math.atan2(mfloat(m, sl.t), mfloat(m, cl.t)), "lon": math.atan2(mfloat(m, so.t), mfloat(m, co.t)), "h": mfloat(m, h.t)}  # noqa: E731
        with shadow(T, array=sym_array, Earth=_earthx()):
            x = T.lla2ecef(np.array([lat, lon, h], dtype=object))
            x0 = T.lla2ecef(np.array([lat, lon, SReal(0)], dtype=object))
        cons = p.constraints()
        A2, B2 = rv(a * a), rv(a * a * (1 - e * e))
        X0 = terms(x0)
        X = terms(x)
        rep.prove("surface", (X0[0] * X0[0] + X0[1] * X0[1]) / A2 + X0[2] * X0[2] / B2 == 1, cons, inputs=inputs, replay=replay_lla2ecef,
                  sample="lla2ecef(lat, lon, 0) lies on the reference ellipsoid (x^2+y^2)/a^2 + z^2/(a^2(1-e^2)) = 1")
        n = [cl.t * co.t, cl.t * so.t, sl.t]
        rep.prove("height-along-normal", z3.And(*[X[i] - X0[i] == h.t * n[i] for i in range(3)]), cons, inputs=inputs, replay=replay_lla2ecef,
                  sample="lla2ecef(lat, lon, h) = lla2ecef(lat, lon, 0) + h (cos lat cos lon, cos lat sin lon, sin lat)")
        g = [X0[0] / A2, X0[1] / A2, X0[2] / B2]
        cr = [g[1] * n[2] - g[2] * n[1], g[2] * n[0] - g[0] * n[2], g[0] * n[1] - g[1] * n[0]]
        rep.prove("normal-direction", z3.And(cr[0] == 0, cr[1] == 0, cr[2] == 0, g[0] * n[0] + g[1] * n[1] + g[2] * n[2] > 0), cons, inputs=inputs, replay=replay_lla2ecef,
                  sample="the direction (cos lat cos lon, cos lat sin lon, sin lat) is the outward ellipsoid normal at the foot point (geodetic latitude)")
        rep.prove("velocity-zero", z3.And(*[t == 0 for t in X[3:]]), cons, inputs=inputs, replay=replay_lla2ecef, sample="velocity part of lla2ecef is 0")
        with shadow(T, array=sym_array, Earth=_earthx()):
            Xm = terms(T.lla2ecef(np.array([-lat, lon, h], dtype=object)))
        rep.prove("mirror", z3.And(Xm[0] == X[0], Xm[1] == X[1], Xm[2] == -X[2]), p.constraints(), inputs=inputs, replay=replay_lla2ecef, sample="lla2ecef(-lat, lon, h) is lla2ecef(lat, lon, h) mirrored in the equatorial plane")
        # DESIGN's formulation with the prime-vertical radius (N from the oracle's own formula)
        with resume(p):
            N = SReal(a) / (SReal(1) - SReal(e * e) * sl * sl).sqrt()
        rho2, zz = X[0] * X[0] + X[1] * X[1], X[2]
        rep.prove("prime-vertical-form", z3.And(rho2 == ((N + h) * cl).t * ((N + h) * cl).t, zz == ((SReal(1 - e * e) * N + h) * sl).t), p.constraints(), inputs=inputs,
                  replay=replay_lla2ecef, sample="x^2+y^2 = ((N+h) cos lat)^2, z = ((1-e^2) N + h) sin lat with N = a / sqrt(1 - e^2 sin^2 lat)")
        rep.reachable("generic", p.constraints() + [h.t == 10, sl.t * 2 == 1])
    # poles and equator (pinned latitudes, symbolic height): the closed forms the ecef2lla obligations use as oracle
    for name, latv, want in (("north-pole", PI_F / 2, lambda hh, bb, co, so: [0, 0, bb + hh]), ("south-pole", -PI_F / 2, lambda hh, bb, co, so: [0, 0, -(bb + hh)]),
                             ("equator", Fraction(0), lambda hh, bb, co, so: [(rv(a) + hh) * co, (rv(a) + hh) * so, 0])):
        with single_path() as p:
            lon, h = real("lon"), real("h")
            co, so = lon.cos(), lon.sin()
            with shadow(T, array=sym_array, Earth=_earthx()):
                x = T.lla2ecef(np.array([SReal(latv), lon, h], dtype=object))
            b0 = SReal(a) * (SReal(1) - SReal(e * e)).sqrt()
            w = want(h.t, b0.t, co.t, so.t)
            inputs = lambda m, latv=latv: {"lat": float(latv), "lon": math.atan2(mfloat(m, so.t), mfloat(m, co.t)), "h": mfloat(m, h.t)}  # noqa: E731
            rep.prove(name, z3.And(*[xi == (wi if isinstance(wi, z3.ExprRef) else rv(wi)) for xi, wi in zip(terms(x)[:3], w)]), p.constraints(), inputs=inputs, replay=replay_lla2ecef,
                      sample=f"lla2ecef at the {name}: closed form with b = a sqrt(1-e^2)")


def replay_unique(d):
    """two geodetic triples in the documented domain with the same lla2ecef image must be the same triple (real code, floats)"""
    from resonaate.physics.transforms.methods import lla2ecef

    p1, p2 = np.array(d["p1"], dtype=float), np.array(d["p2"], dtype=float)
    x1, x2 = lla2ecef(p1), lla2ecef(p2)
    same_img = float(np.abs(x1 - x2).max())
    dl = max(abs(math.sin(p1[0]) - math.sin(p2[0])), abs(math.cos(p1[1]) - math.cos(p2[1])), abs(math.sin(p1[1]) - math.sin(p2[1])), abs(p1[2] - p2[2]) / 6378.0)
    return same_img < 1e-9 and dl > 1e-6, {"|lla2ecef(p1) - lla2ecef(p2)|": same_img, "difference of the triples": dl}


def o8u_unique(rep):
    """lla2ecef is injective on {|lat| < pi/2, h >= -120 km} against any second preimage with h >= -6000 km: with the round trip of O8-x/y/axis this makes
    ecef2lla the two-sided inverse.  Proof script on abstract variables; the link to the real code is the prime-vertical form of the real lla2ecef's output."""
    from resonaate.physics.transforms import methods as T

    a, e = _earth_consts()
    A, E2 = rv(a), rv(e * e)
    names = "c s co so h sN w t X0 X1 X2 rho".split()
    V = {f"{n}{i}": z3.Real(f"{n}{i}_") for n in names for i in (1, 2)}
    b, rd, rk = z3.Reals("b_ rd_ rk_")
    C2 = A * A - b * b
    Fa, S = {}, {}
    Fa.update({"bsq": b * b == A * A * (1 - E2), "b!=0": b != 0, "b*rk>=0": b * rk >= 0, "b>0 if rk=0": z3.Implies(rk == 0, b > 0),
               "shell": rd * rd * b * b + rk * rk * A * A >= rv(KAPPA2) * A * A * b * b, "rd>0": rd > 0,
               "same-image": z3.And(V["X01"] == V["X02"], V["X11"] == V["X12"], V["X21"] == V["X22"]),
               "rd=rho1": rd == V["rho1"], "rk=X21": rk == V["X21"], "rho-eq": V["rho1"] == V["rho2"], "t-eq": V["t1"] == V["t2"],
               "U-lat": z3.And(V["c1"] == V["c2"], V["s1"] == V["s2"]), "U-h": V["h1"] == V["h2"], "U-lon": z3.And(V["co1"] == V["co2"], V["so1"] == V["so2"])})
    for i in (1, 2):
        c, s_, co, so, h, sN, w, t, X0, X1, X2, rho = (V[f"{n}{i}"] for n in names)
        Fa.update({
            f"c>0.{i}": c > 0, f"cs1.{i}": c * c + s_ * s_ == 1, f"lon1.{i}": co * co + so * so == 1, f"sN>0.{i}": sN > 0, f"sN2.{i}": sN * sN == 1 - E2 * s_ * s_,
            f"h-lo.{i}": h >= (-120 if i == 1 else -6000),
            f"pv.{i}": z3.And(X0 == rho * co, X1 == rho * so, rho == (A / sN + h) * c, X2 == ((1 - E2) * A / sN + h) * s_),
            f"rho>0.{i}": rho > 0, f"s*z>=0.{i}": s_ * X2 >= 0,
            f"w.{i}": z3.And(w >= 0, w * w == b * b * s_ * s_ + A * A * c * c), f"tdef.{i}": t * A * c == w - b * s_,
            f"b*s>=0.{i}": b * s_ >= 0, f"t>0.{i}": t > 0, f"tan.{i}": s_ * 2 * b * t == c * A * (1 - t * t),
            f"quarticR.{i}": (t * t * t * t - 1) * A * rd + 2 * (b * rk - C2) * t * t * t + 2 * (b * rk + C2) * t == 0,
            f"img.{i}": z3.And(rd == (A / sN + h) * c, rk == ((1 - E2) * A / sN + h) * s_),
        })
        S.update({
            f"rho>0.{i}": ([f"c>0.{i}", f"sN>0.{i}", f"sN2.{i}", f"cs1.{i}", f"h-lo.{i}", f"pv.{i}"], [f"rho>0.{i}", f"s*z>=0.{i}"]),
            f"t.{i}": (["bsq", "b!=0", f"c>0.{i}", f"cs1.{i}", f"w.{i}", f"tdef.{i}"], [f"t>0.{i}", f"tan.{i}"]),
            f"quarticR.{i}": (["bsq", "b!=0", f"c>0.{i}", f"cs1.{i}", f"sN>0.{i}", f"sN2.{i}", f"t>0.{i}", f"tan.{i}", f"img.{i}"], [f"quarticR.{i}"]),
        })
    S.update({
        "rho-eq": (["same-image", "pv.1", "pv.2", "rho>0.1", "rho>0.2", "lon1.1", "lon1.2"], ["rho-eq"]),
        "img.1": (["pv.1", "rd=rho1", "rk=X21"], ["img.1"]),
        "img.2": (["pv.2", "rd=rho1", "rk=X21", "rho-eq", "same-image"], ["img.2"]),
        "rd>0": (["rho>0.1", "rd=rho1"], ["rd>0"]),
        "shell": (["bsq", "c>0.1", "cs1.1", "sN>0.1", "sN2.1", "h-lo.1", "img.1"], ["shell"]),
        "t-eq": (["bsq", "b!=0", "rd>0", "b*rk>=0", "shell", "quarticR.1", "quarticR.2", "t>0.1", "t>0.2"], ["t-eq"]),
        "U-lat": (["bsq", "b!=0", "t-eq", "t>0.1", "c>0.1", "cs1.1", "tan.1", "c>0.2", "cs1.2", "tan.2"], ["U-lat"]),
        "U-h": (["U-lat", "c>0.1", "sN>0.1", "sN2.1", "sN>0.2", "sN2.2", "img.1", "img.2"], ["U-h"]),
        "U-lon": (["same-image", "pv.1", "pv.2", "rho-eq", "rho>0.1"], ["U-lon"]),
    })
    with single_path() as p:
        ch = Chain(rep, "U", Fa, S, timeout_ms=60000)
        tr, X = {}, {}
        with shadow(T, array=sym_array, Earth=_earthx()):
            for i in (1, 2):
                lat, lon, h = real(f"lat{i}"), real(f"lon{i}"), real(f"h{i}")
                tr[i] = (lat.cos(), lat.sin(), lon.cos(), lon.sin(), h)
                X[i] = terms(T.lla2ecef(np.array([lat, lon, h], dtype=object)))
        # hypotheses of the claim (the documented domain and "same image")
        assume(tr[1][0].t > 0, tr[2][0].t > 0, tr[1][4].t >= -120, tr[2][4].t >= -6000, *[X[1][k] == X[2][k] for k in range(3)])
        sb = (SReal(1) - SReal(e * e)).sqrt()
        sig = SReal(z3.If(X[1][2] < 0, z3.RealVal(-1), z3.RealVal(1)))
        ch.bind(b, (SReal(a) * sb * sig).t)
        for i in (1, 2):
            c, s_, co, so, h = tr[i]
            sN = (SReal(1) - SReal(e * e) * s_ * s_).sqrt()
            for n, term in (("c", c.t), ("s", s_.t), ("co", co.t), ("so", so.t), ("h", h.t), ("sN", sN.t), ("X0", X[i][0]), ("X1", X[i][1]), ("X2", X[i][2])):
                ch.bind(V[f"{n}{i}"], term)
            ch.bind(V[f"rho{i}"], ch.inst((A / V[f"sN{i}"] + V[f"h{i}"]) * V[f"c{i}"]))
            w = (SReal(ch.inst(b * b * V[f"s{i}"] * V[f"s{i}"] + A * A * V[f"c{i}"] * V[f"c{i}"]))).sqrt()
            ch.bind(V[f"w{i}"], w.t)
            ch.bind(V[f"t{i}"], ch.inst((V[f"w{i}"] - b * V[f"s{i}"]) / (A * V[f"c{i}"])))
        ch.bind(rd, ch.inst(V["rho1"]))
        ch.bind(rk, X[1][2])
        cons = p.constraints()
        ok = ch.leaf(["bsq", "b!=0", "b*rk>=0", "b>0 if rk=0"], cons) and ch.leaf("same-image", cons) and ch.leaf(["rd=rho1", "rk=X21"], [])
        for i in (1, 2):
            ok = ok and ch.leaf([f"c>0.{i}", f"cs1.{i}", f"lon1.{i}", f"h-lo.{i}"], cons) and ch.leaf([f"sN>0.{i}", f"sN2.{i}"], cons) and ch.leaf(f"pv.{i}", cons) and ch.leaf(f"w.{i}", cons)
            ok = ok and ch.leaf(f"tdef.{i}", [], using=[f"c>0.{i}"]) and ch.apply(f"rho>0.{i}") and ch.apply(f"t.{i}")
        ok = ok and ch.apply("rho-eq") and ch.apply("img.1") and ch.apply("img.2") and ch.apply("rd>0") and ch.apply("shell")
        ok = ok and ch.apply("quarticR.1") and ch.apply("quarticR.2") and ch.apply("t-eq") and ch.apply("U-lat") and ch.apply("U-h") and ch.apply("U-lon")
        for name, what in (("U-lat", "equal images => equal latitude"), ("U-h", "equal images => equal height"), ("U-lon", "equal images => equal longitude (cos, sin)")):
            hyps, concl = S[name]
            if ok:
                rep.prove(name, z3.And(*[Fa[c] for c in concl]), [Fa[h] for h in hyps], timeout_ms=60000,
                          sample=f"lla2ecef injective on |lat|<pi/2, h>=-120 km (second preimage h>=-6000 km): {what} [schema on abstract variables; hypotheses established on the real lla2ecef's terms]")
            else:
                rep.undecided(name, "proof script stopped: " + "; ".join(f"{n}: {w}" for n, w in ch.failed)[:300])
        rep.reachable("two-preimages-hypotheses", [c for c in p.constraints()] + [tr[1][4].t == 10, tr[2][4].t == 10, tr[1][1].t * 2 == 1, tr[2][1].t * 2 == 1, tr[1][2].t == 1, tr[2][2].t == 1], timeout_ms=60000)


# ---- ecef2lla -------------------------------------------------------------------------------------------------
def replay_geodetic(d):
    """real ecef2lla, then real lla2ecef: must return the point; documented ranges; hemisphere; mirror symmetry"""
    from resonaate.physics.transforms.methods import ecef2lla, lla2ecef

    a, e = map(float, _earth_consts())
    x = np.array(list(d["x"])[:3] + [0.0, 0.0, 0.0], dtype=float)
    with np.errstate(all="ignore"):
        lla = np.asarray(ecef2lla(x), dtype=float)
        back = np.asarray(lla2ecef(lla), dtype=float)
        xm = x.copy()
        xm[2] = -xm[2]
        llm = np.asarray(ecef2lla(xm), dtype=float)
    err = float(np.abs(back[:3] - x[:3]).max()) if np.all(np.isfinite(back)) else float("inf")
    rd = math.hypot(x[0], x[1])
    out = {"ecef2lla(x)": lla.tolist(), "lla2ecef(ecef2lla(x))": back[:3].tolist(), "x": x[:3].tolist(), "round-trip error (km)": err, "ecef2lla(x mirrored in z)": llm.tolist()}
    bad = err > 0.5e-6 or not np.all(np.isfinite(lla))
    bad = bad or not (-math.pi / 2 - 1e-12 <= lla[0] <= math.pi / 2 + 1e-12) or not (-math.pi - 1e-12 <= lla[1] <= math.pi + 1e-12)
    if abs(x[2]) > 1e-6 and abs(lla[0]) > 1e-9:
        bad = bad or (lla[0] > 0) != (x[2] > 0)
    outside = (rd * rd) / a**2 + x[2] ** 2 / (a**2 * (1 - e**2)) >= 1
    if outside:
        bad = bad or lla[2] < -0.5e-6
    bad = bad or lla[2] < -130 - 1e-6
    sym = max(abs(llm[0] + lla[0]), abs(llm[2] - lla[2]), abs(_wrap_pm(llm[1] - lla[1])))
    out["mirror asymmetry"] = sym
    bad = bad or sym > 0.5e-6
    if rd < 1e-9:  # polar axis closed form
        b0 = a * math.sqrt(1 - e * e)
        out["polar closed form |z|-b"] = abs(x[2]) - b0
        bad = bad or abs(lla[2] - (abs(x[2]) - b0)) > 0.5e-6 or math.cos(lla[0]) > 1e-6
    if abs(x[2]) == 0:
        out["equator closed form rho-a"] = rd - a
        bad = bad or abs(lla[2] - (rd - a)) > 0.5e-6 or abs(lla[0]) > 1e-9
    return bool(bad), out


def _geo_facts():
    """abstract facts and schemas of the Borkowski/Vallado closed form (all schemas are proved by z3 on free variables before use)"""
    a, e = _earth_consts()
    A, E2 = rv(a), rv(e * e)
    V = {n: z3.Real(n + "_") for n in "E F P Q sD c1 c2 nu s2 G X st t u hy c s alt sN b rd rk oc os oalt co so B0 B1 B2 ri rj".split()}
    oc, os_, oalt, co, so, B0, B1, B2, ri, rj = (V[n] for n in "oc os oalt co so B0 B1 B2 ri rj".split())
    E, F, P, Q, sD, c1, c2, nu, s2, G, X, st, t, u, hy, c, s, alt, sN, b, rd, rk = (V[n] for n in "E F P Q sD c1 c2 nu s2 G X st t u hy c s alt sN b rd rk".split())
    C2 = A * A - b * b
    Fa = {
        "Pdef": 3 * P == 4 * (E * F + 1), "Qdef": Q == 2 * (E * E - F * F), "F>E": F > E, "F>=-E": F >= -E, "P>0": P > 0,
        "sD>=0": sD >= 0, "sD2": sD * sD == P * P * P + Q * Q, "dom-cbrt": z3.And(sD - Q >= 0, sD + Q >= 0),
        "c1>=0": c1 >= 0, "c13": c1 * c1 * c1 == sD - Q, "c2>=0": c2 >= 0, "c23": c2 * c2 * c2 == sD + Q, "c1c2": c1 * c2 == P,
        "nudef": nu == c1 - c2, "Q<=0": Q <= 0, "nu>=0": nu >= 0, "cubic": nu * nu * nu + 3 * P * nu + 2 * Q == 0,
        "s2>=0": s2 >= 0, "s22": s2 * s2 == E * E + nu, "dom-s2": E * E + nu >= 0, "s2>0": s2 > 0,
        "Gdef": 2 * G == s2 + E, "Xdef": X * s2 == F - nu * G, "X>0": X > 0, "dom-st": G * G + X >= 0,
        "st>=0": st >= 0, "st2": st * st == G * G + X, "tdef": t == st - G, "t>0": t > 0,
        "quartic": t * t * t * t + 2 * E * t * t * t + 2 * F * t - 1 == 0,
        "bsq": b * b == A * A * (1 - E2), "b!=0": b != 0, "b*rk>=0": b * rk >= 0, "rd>0": rd > 0,
        "Edef": E * A * rd == b * rk - C2, "Fdef": F * A * rd == b * rk + C2,
        "quarticR": (t * t * t * t - 1) * A * rd + 2 * (b * rk - C2) * t * t * t + 2 * (b * rk + C2) * t == 0,
        "shell": rd * rd * b * b + rk * rk * A * A >= rv(KAPPA2) * A * A * b * b,
        "outside": rd * rd * b * b + rk * rk * A * A >= A * A * b * b,
        "t<=1": t <= 1,
        "udef": u * 2 * b * t == A * (1 - t * t), "hy>=0": hy >= 0, "hy2": hy * hy == 1 + u * u, "hy>0": hy > 0,
        "cdef": c * hy == 1, "sdef": s * hy == u, "c>0": c > 0, "cs1": c * c + s * s == 1, "tan": s * 2 * b * t == c * A * (1 - t * t),
        "altdef": alt == (rd - A * t) * c + (rk - b) * s,
        "sN>=0": sN >= 0, "sN2": sN * sN == 1 - E2 * s * s, "dom-sN": 1 - E2 * s * s > 0, "sN>0": sN > 0,
        "M1": A * c * (1 + t * t) == 2 * A * t * sN,
        "back-r": (A / sN + alt) * c == rd, "back-z": ((1 - E2) * A / sN + alt) * s == rk,
        "alt>=-130": alt >= -130, "alt>=0": alt >= 0, "b*s>=0": b * s >= 0,
        # polar axis (rd is the tiny replacement value)
        "rd-tiny": rd <= rv(Fraction(1, 10**15)), "|rk|>=6000": rk * rk >= 6000 * 6000, "|rk|<=RMAX": rk * rk <= RMAX * RMAX,
        "c-tiny": c <= rv(Fraction(1, 10**18)), "rk*s>0": rk * s > 0,
        "alt-polar+": z3.Implies(rk > 0, z3.And(alt - (rk - b) <= rv(Fraction(1, 10**9)), (rk - b) - alt <= rv(Fraction(1, 10**9)))),
        "alt-polar-": z3.Implies(rk < 0, z3.And(alt + (rk - b) <= rv(Fraction(1, 10**9)), -(rk - b) - alt <= rv(Fraction(1, 10**9)))),
    }
    absb, absrk = z3.If(b >= 0, b, -b), z3.If(rk >= 0, rk, -rk)
    Fa.update({
        # the values that cross the API (oc, os = cos/sin of the returned latitude, oalt = returned height, co, so = cos/sin of the returned longitude,
        # B = lla2ecef of the returned triple) identified with the abstract terms
        "id-lat": z3.And(oc == c, os_ == s), "id-alt": oalt == alt,
        "id-back": z3.And(B0 == (A / sN + alt) * c * co, B1 == (A / sN + alt) * c * so, B2 == ((1 - E2) * A / sN + alt) * s),
        "id-lon": z3.And(co * rd == ri, so * rd == rj), "id-lon-axis": z3.And(co == 1, so == 0, ri == 0, rj == 0),
        "dom-sD": P * P * P + Q * Q >= 0, "dom-hy": 1 + u * u >= 0, "dom-rho": ri * ri + rj * rj >= 0,
        "G-roundtrip": z3.And(_absle(B0 - ri, TOL_KM), _absle(B1 - rj, TOL_KM), _absle(B2 - rk, TOL_KM)),
        "G-alt>=-130": oalt >= -130 - rv(TOL_KM), "G-hemisphere": os_ * rk >= 0,
        "G-alt>=0-outside": z3.Implies(rd * rd * b * b + rk * rk * A * A >= A * A * b * b, oalt >= -rv(TOL_KM)),
        "G-polar-lat": z3.And(oc <= rv(Fraction(1, 10**18)), os_ * rk > 0), "G-polar-alt": _absle(oalt - (absrk - absb), Fraction(1, 10**9)),
        "G-equator": z3.Implies(rk == 0, z3.And(os_ == 0, oalt == rd - A)),
    })
    geo = ["bsq", "rd>0", "t>0", "Edef", "Fdef", "quartic", "tan", "c>0", "cs1", "sN>0", "sN2", "altdef"]
    near = ["bsq", "b!=0", "rd>0", "t>0", "b*rk>=0", "quarticR"]
    S = {
        "dom-cbrt": (["sD>=0", "sD2", "P>0"], ["dom-cbrt"]),
        "c1c2": (["sD>=0", "sD2", "c1>=0", "c13", "c2>=0", "c23"], ["c1c2"]),
        "cubic": (["c1c2", "c13", "c23", "nudef"], ["cubic"]),
        "Q<=0": (["Qdef", "F>E", "F>=-E"], ["Q<=0"]),
        "nu>=0": (["c13", "c23", "nudef", "Q<=0"], ["nu>=0"]),
        "dom-s2": (["nu>=0"], ["dom-s2"]),
        "s2>0": (["Pdef", "Qdef", "s2>=0", "s22", "nu>=0", "cubic", "F>E", "F>=-E"], ["s2>0"]),
        "X>0": (["Pdef", "Qdef", "s2>0", "s22", "nu>=0", "cubic", "F>E", "F>=-E", "Gdef", "Xdef"], ["X>0"]),
        "dom-st": (["X>0"], ["dom-st"]),
        "t>0": (["st>=0", "st2", "X>0", "tdef"], ["t>0"]),
        "quartic": (["Pdef", "Qdef", "cubic", "s22", "s2>0", "Gdef", "Xdef", "st2", "tdef"], ["quartic"]),
        "quarticR": (["quartic", "Edef", "Fdef"], ["quarticR"]),
        "t<=1": (near + ["shell"], ["t<=1"]),
        "hy>0": (["hy>=0", "hy2"], ["hy>0"]),
        "trig": (["udef", "hy>0", "hy2", "cdef", "sdef"], ["c>0", "cs1", "tan"]),
        "dom-sN": (["cs1"], ["dom-sN"]),
        "sN>0": (["sN>=0", "sN2", "cs1"], ["sN>0"]),
        "M1": (["bsq", "t>0", "tan", "c>0", "cs1", "sN>0", "sN2"], ["M1"]),
        "back-z": (geo, ["back-z"]),
        "back-r": (geo + ["M1"], ["back-r"]),
        "hemisphere": (["t>0", "t<=1", "tan", "c>0", "b!=0"], ["b*s>=0"]),
        "alt>=-130": (near + ["shell", "tan", "c>0", "cs1", "altdef"], ["alt>=-130"]),
        "alt>=0": (near + ["outside", "tan", "c>0", "cs1", "altdef"], ["alt>=0"]),
        "c-tiny": (["c>0", "cs1", "sN>0", "sN2", "back-r", "back-z", "rd-tiny", "|rk|>=6000", "alt>=-130"], ["c-tiny", "rk*s>0"]),
        "dom-sD": (["sD2"], ["dom-sD"]), "dom-sD0": (["P>0"], ["dom-sD"]), "dom-hy": ([], ["dom-hy"]), "dom-rho": ([], ["dom-rho"]),
        "G-roundtrip": (["id-back", "id-lon", "back-r", "back-z", "rd>0"], ["G-roundtrip"]),
        "G-roundtrip-axis": (["id-back", "id-lon-axis", "back-r", "back-z", "rd>0", "rd-tiny"], ["G-roundtrip"]),
        "G-alt>=-130": (["id-alt", "alt>=-130"], ["G-alt>=-130"]),
        "G-hemisphere": (["id-lat", "b*s>=0", "b*rk>=0", "b!=0"], ["G-hemisphere"]),
        "G-alt>=0-outside": (near + ["tan", "c>0", "cs1", "altdef", "id-alt"], ["G-alt>=0-outside"]),
        "G-polar-lat": (["id-lat", "c-tiny", "rk*s>0"], ["G-polar-lat"]),
        "G-polar-alt": (["id-alt", "alt-polar+", "alt-polar-", "b*rk>=0", "b!=0", "|rk|>=6000"], ["G-polar-alt"]),
        "G-equator": (near + ["shell", "tan", "c>0", "cs1", "altdef", "id-lat", "id-alt"], ["G-equator"]),
        "alt-polar": (["c>0", "cs1", "rk*s>0", "t>0", "t<=1", "c-tiny", "altdef", "rd>0", "rd-tiny", "|rk|>=6000", "|rk|<=RMAX", "b*rk>=0", "bsq"], ["alt-polar+", "alt-polar-"]),
    }
    return V, Fa, S


def _geo_run(cls):
    """the real ecef2lla followed by the real lla2ecef on a symbolic ECEF position of one input class"""
    from resonaate.physics.transforms import methods as T

    a, e = _earth_consts()

    def run():
        if cls == "axis":
            x = np.array([SReal(0), SReal(0), real("rk"), 0, 0, 0], dtype=object)
        elif cls == "x":
            x = np.array([real("ri"), real("rj"), real("rk"), 0, 0, 0], dtype=object)
            assume(x[0].t != 0)
        else:
            x = np.array([SReal(0), real("rj"), real("rk"), 0, 0, 0], dtype=object)
            assume(x[1].t != 0)
        ri, rj, rk = terms(x[:3])
        rho2 = ri * ri + rj * rj
        assume(rho2 * rv(1 - e * e) + rk * rk >= rv(KAPPA2 * a * a * (1 - e * e)), rho2 + rk * rk <= RMAX * RMAX)
        with shadow(T, sign=fork_sign, arctan=sym_arctan, array=sym_array, Earth=_earthx()), cbrt_pow():
            out = T.ecef2lla(x)
            back = T.lla2ecef(out)
        return x, out, back

    return run


def _absle(t, tol):
    return z3.And(t <= rv(tol), -t <= rv(tol))


def _rt(x):
    from symx.core import _real_term

    return _real_term(x)


def _geo_goals(r):
    """behavioural claims over the values crossing the API on one path (name -> z3 goal)"""
    a, e = _earth_consts()
    x, out, back = r.out
    X, O, B = [_rt(v) for v in x[:3]], [_rt(v) for v in out], [_rt(v) for v in back]
    rho2 = X[0] * X[0] + X[1] * X[1]
    g = {"roundtrip": z3.And(*([_absle(B[i] - X[i], TOL_KM) for i in range(3)] + [B[i] == 0 for i in range(3, 6)])),
         "lat-range": z3.And(O[0] >= -rv(PI_F / 2), O[0] <= rv(PI_F / 2)), "lon-range": z3.And(O[1] > -rv(PI_F), O[1] <= rv(PI_F)),
         "alt>=-130": O[2] >= -130 - rv(TOL_KM),
         "alt>=0-outside": z3.Implies(rho2 * rv(1 - e * e) + X[2] * X[2] >= rv(a * a * (1 - e * e)), O[2] >= -rv(TOL_KM))}
    return g


def _inputs_geo(x):
    X = [_rt(v) for v in x[:3]]
    return lambda m: {"x": [mfloat(m, t) for t in X]}


def _pins(cls):
    """rational ECEF points (km) used only to look for counterexamples / witnesses with the inputs fixed (partial concretisation)"""
    P = [(3000, -4000, 5000), (3000, -4000, -5000), (-6500, 200, 0), (1, 2, 6800), (1, -2, -6800), (Fraction(1, 10**10), Fraction(1, 10**10), -7000), (20000, 30000, -100),
         (Fraction(1, 10**10), Fraction(-1, 10**10), 6900)]
    if cls == "axis":
        return [(0, 0, 7000), (0, 0, -7000), (0, 0, 42164), (0, 0, -6300)]
    if cls == "y":
        return [(0, q[1], q[2]) if q[1] else (0, 1, q[2]) for q in P]
    return P


def _candidates(rep, tag, r, ch, cls):
    """A proof script that stops leaves solver models of its failed questions (inputs at which an intermediate value of the code is not what the closed
    form requires).  Each is only a *candidate*: its inputs are replayed on the real code against the behavioural oracle (round trip, ranges, hemisphere,
    symmetry, closed forms) and reported only if the real code violates it there.  For more generic points the failed question is asked again with the
    inputs kept away from the coordinate planes."""
    from symx.core import solve

    x = r.out[0]
    X = [_rt(v) for v in x[:3]]
    tried = 0
    for lab, model, hyps, neg in list(ch.cands)[:6]:
        models = [model]
        gen = [t * t >= 500 * 500 for t in X if not z3.is_rational_value(z3.simplify(t))]
        v = solve(list(hyps) + [neg] + gen, 5000)
        if v.status == "sat":
            models.insert(0, v.model)
        for m in models:
            data = {"x": [mfloat(m, t) for t in X], "from": f"failed lemma {lab} on path {tag}"}
            tried += 1
            try:
                bad, detail = replay_geodetic(data)
            except Exception as e:  # noqa: BLE001
                bad, detail = False, {"replay raised": repr(e)}
            rep.items.append({"label": f"{tag}:candidate:{lab}", "kind": "candidate", "verdict": "sat", "secs": 0, "counterexample": data, "replay": {"reproduced": bool(bad), "detail": detail}})
            if bad:
                rep.concrete_violation(f"{tag}:{lab}", data, detail)
                return True
    rep.note(f"path {tag}: {tried} candidate(s) from failed lemmas replayed, none violates the behavioural oracle")
    return False


def _geo_chain(rep, tag, r, cls, extra=()):
    """the lemma chain on one path; returns (Chain, hypotheses usable for the final goals) or (Chain, None)"""
    from symx.core import free_vars, refute, trig

    a, e = _earth_consts()
    A, E2 = rv(a), rv(e * e)
    p = r.path
    x, out, back = r.out
    if not all(isinstance(o, SReal) for o in out):
        return None, None
    C = p.constraints()
    V, Fa, S = _geo_facts()
    ch = Chain(rep, tag, Fa, S)
    ch.V, ch.matches = V, []
    _m = ch.match

    def match(apps, arg, var, hyps, **kw_):
        got = _m(apps, arg, var, hyps, **kw_)
        if got:
            ch.matches.append((str(var), got[0], got[1], got[2]))
        return got

    ch.match = match
    ri, rj, rk = [_rt(v) for v in x[:3]]
    inp = [c for c in C if free_vars(c) <= {"ri", "rj", "rk"}] + list(extra)
    sq, cb = list(p.apps.get("sqrt", [])), list(p.apps.get("cbrt", []))
    with resume(p):
        rdv = (x[0] * x[0] + x[1] * x[1]).sqrt() if cls != "axis" else SReal(0)
        sbv = (SReal(1) - SReal(e) ** 2).sqrt()
        clat, slat = trig(out[0].t)
        clon, slon = trig(out[1].t)
    axis = cls == "axis"
    eps = Fraction(float(np.finfo(np.float64).eps))
    sb = sbv.t
    base = inp + [sb >= 0, sb * sb == 1 - E2] + ([] if axis else [rdv.t >= 0, rdv.t * rdv.t == ri * ri + rj * rj])
    sgn = None
    for cand, cond in ((1, rk > 0), (-1, rk < 0), (1, rk == 0)):
        if refute(cond, inp, 5000).status == "unsat":
            sgn = cand
            break
    if sgn is None:
        ch.failed.append(("sign", "the path does not fix the sign of r_k"))
        ch.need_split = True
        return ch, None
    v = V
    ch.bind(v["b"], A * sb * sgn)
    ch.bind(v["rd"], rv(eps) if axis else rdv.t)
    ch.bind(v["rk"], rk)
    C2 = A * A - v["b"] * v["b"]
    ch.bind(v["E"], ch.inst((v["b"] * v["rk"] - C2) / (A * v["rd"])))
    ch.bind(v["F"], ch.inst((v["b"] * v["rk"] + C2) / (A * v["rd"])))
    ch.bind(v["P"], ch.inst(4 * (v["E"] * v["F"] + 1) / 3))
    ch.bind(v["Q"], ch.inst(2 * (v["E"] * v["E"] - v["F"] * v["F"])))
    pos = []  # names of positivity facts whose instances help matching

    def hy():
        return base + ch.insts(pos)

    def contract(var, arg, target, names, cube=False):
        """restate the contract of a matched sqrt/cbrt application (var >= 0, var^2|3 == arg) on the abstract argument"""
        return ch.leaf(names, [var >= 0, (var * var * var if cube else var * var) == arg, arg == target])

    ok = (ch.leaf(["bsq", "b!=0", "b*rk>=0"], base) and ch.leaf("rd>0", base) and ch.leaf(["Edef", "Fdef"], [], using=["rd>0"]) and ch.leaf(["Pdef", "Qdef"], [])
          and ch.leaf(["F>E", "F>=-E"], base) and ch.leaf("P>0", base, timeout_ms=60000) and ch.leaf("shell", base))
    if not ok:
        return ch, None
    pos += ["rd>0"]
    # a path on which the code took the D < 0 branch is infeasible in the region (P > 0 => D = P^3 + Q^2 >= 0): such paths only appear when the
    # explorer's branch query timed out.  Decided here: the branch condition's term is proved equal to the instance of P^3 + Q^2.
    ch.apply("dom-sD0")
    tgt = ch.inst(v["P"] * v["P"] * v["P"] + v["Q"] * v["Q"])
    for c in p.pc:
        a0 = c.arg(0) if z3.is_not(c) else None
        if a0 is not None and z3.is_le(a0) and z3.is_rational_value(a0.arg(0)) and a0.arg(0).numerator_as_long() == 0 and not z3.is_rational_value(a0.arg(1)) \
                and free_vars(a0.arg(1)) - {"ri", "rj", "rk"}:
            vd = refute(a0.arg(1) == tgt, hy(), 15000)
            if vd.status == "unsat":
                ch._record("infeasible:D<0", vd)
                ch.infeasible = True
                return ch, None
    skip = [sb] + ([] if axis else [rdv.t])
    m = ch.match(sq, v["P"] * v["P"] * v["P"] + v["Q"] * v["Q"], v["sD"], hy(), skip=skip)
    if not (m and contract(m[0], m[1], m[2], ["sD>=0", "sD2"]) and ch.apply("dom-cbrt")):
        return ch, None
    skip.append(m[0])
    m1 = ch.match(cb, v["sD"] - v["Q"], v["c1"], hy())
    m2 = m1 and ch.match(cb, v["sD"] + v["Q"], v["c2"], hy(), skip=[m1[0]])
    if not (m1 and m2 and contract(m1[0], m1[1], m1[2], ["c1>=0", "c13"], True) and contract(m2[0], m2[1], m2[2], ["c2>=0", "c23"], True) and ch.apply("c1c2")):
        return ch, None
    ch.bind(v["nu"], ch.inst(v["c1"] - v["c2"]))
    if not (ch.leaf("nudef", []) and ch.apply("cubic") and ch.apply("Q<=0") and ch.apply("nu>=0") and ch.apply("dom-s2")):
        return ch, None
    m = ch.match(sq, v["E"] * v["E"] + v["nu"], v["s2"], hy(), skip=skip)
    if not (m and contract(m[0], m[1], m[2], ["s2>=0", "s22"]) and ch.apply("s2>0")):
        return ch, None
    skip.append(m[0])
    pos += ["s2>0"]
    ch.bind(v["G"], ch.inst((v["s2"] + v["E"]) / 2))
    ch.bind(v["X"], ch.inst((v["F"] - v["nu"] * v["G"]) / v["s2"]))
    if not (ch.leaf("Gdef", []) and ch.leaf("Xdef", [], using=["s2>0"]) and ch.apply("X>0") and ch.apply("dom-st")):
        return ch, None
    m = ch.match(sq, v["G"] * v["G"] + v["X"], v["st"], hy(), skip=skip) or ch.match(sq, v["G"] * v["G"] + (v["F"] - v["nu"] * v["G"]) / (2 * v["G"] - v["E"]), v["st"], hy(), skip=skip)
    if not (m and ch.leaf(["st>=0", "st2"], [m[0] >= 0, m[0] * m[0] == m[1], m[1] == m[2]], using=["s2>0"])):
        return ch, None
    skip.append(m[0])
    ch.bind(v["t"], ch.inst(v["st"] - v["G"]))
    if not (ch.leaf("tdef", []) and ch.apply("t>0") and ch.apply("quartic") and ch.apply("quarticR") and ch.apply("t<=1")):
        return ch, None
    pos += ["t>0"]
    ch.bind(v["u"], ch.inst(A * (1 - v["t"] * v["t"]) / (2 * v["b"] * v["t"])))
    if not ch.leaf("udef", [], using=["t>0", "b!=0"]):
        return ch, None
    m = ch.match(sq, 1 + v["u"] * v["u"], v["hy"], hy(), skip=skip)
    if not (m and contract(m[0], m[1], m[2], ["hy>=0", "hy2"]) and ch.apply("hy>0")):
        return ch, None
    skip.append(m[0])
    pos += ["hy>0"]
    ch.bind(v["c"], ch.inst(1 / v["hy"]))
    ch.bind(v["s"], ch.inst(v["u"] / v["hy"]))
    ch.bind(v["alt"], ch.inst((v["rd"] - A * v["t"]) * v["c"] + (v["rk"] - v["b"]) * v["s"]))
    if not (ch.leaf(["cdef", "sdef"], [], using=["hy>0"]) and ch.apply("trig") and ch.leaf("altdef", [])):
        return ch, None
    m = ch.match(sq, 1 - E2 * v["s"] * v["s"], v["sN"], hy(), skip=skip)
    if not (m and contract(m[0], m[1], m[2], ["sN>=0", "sN2"]) and ch.apply("dom-sN") and ch.apply("sN>0")):
        return ch, None
    pos += ["sN>0"]
    if not (ch.apply("M1") and ch.apply("back-z") and ch.apply("back-r") and ch.apply("hemisphere") and ch.apply("alt>=-130")):
        return ch, None
    if axis and not (ch.leaf("rd-tiny", []) and ch.leaf(["|rk|>=6000", "|rk|<=RMAX"], base) and ch.apply("c-tiny") and ch.apply("alt-polar")):
        return ch, None
    # identification of the values crossing the API with the instantiated abstract terms (ring identities in the contract variables)
    O, B = [_rt(o) for o in out], [_rt(q) for q in back]
    for name, term in (("oc", clat), ("os", slat), ("oalt", O[2]), ("co", clon), ("so", slon), ("B0", B[0]), ("B1", B[1]), ("B2", B[2]), ("ri", ri), ("rj", rj)):
        ch.bind(v[name], term)
    for name in ("id-lat", "id-alt", "id-back", "id-lon-axis" if axis else "id-lon"):
        if not ch.leaf(name, hy(), timeout_ms=30000):
            return ch, None
    ch.base, ch.hy, ch.rk = base, hy, rk
    return ch, True


def _geo_domain(rep, tag, r, ch, kw):
    """every sqrt/cbrt argument >= 0 and every divisor != 0 on the path (no nan): each recorded domain condition is proved either from what was
    known when it arose, or after rewriting matched arguments (proved equal) to their abstract instance, from the established facts"""
    from symx.core import refute

    V = ch.V
    for sc in ("dom-sD", "dom-hy", "dom-rho"):
        ch.apply(sc)
    pairs = [(arg, target) for (_n, _v, arg, target) in ch.matches]
    divisors = [("A*rd", rv(_earth_consts()[0]) * V["rd"], ["rd>0"]), ("s2", V["s2"], ["s2>0"]), ("2G-E", 2 * V["G"] - V["E"], ["s2>0", "Gdef"]), ("2bt", 2 * V["b"] * V["t"], ["t>0", "b!=0"]),
                ("sN", V["sN"], ["sN>0"]), ("hy", V["hy"], ["hy>0"])]
    for k, (cond, hk) in enumerate(r.path.domain_obligations()):
        lab = f"{tag}:domain[{k}]"
        sample = "every sqrt/cbrt argument is >= 0 and every divisor != 0 on the path (no nan)"
        hs = slice_for(cond, hk)
        v0 = refute(cond, hs, 1000)
        if v0.status == "unsat":
            rep.prove(lab, cond, hs, sample=sample, **kw)
            continue
        cond2 = z3.substitute(cond, *pairs) if pairs else cond
        facts = [n for n in ("dom-sD", "dom-cbrt", "dom-s2", "dom-st", "dom-hy", "dom-sN", "dom-rho", "rd>0", "s2>0", "t>0", "b!=0", "sN>0", "hy>0") if n in ch.have]
        v1 = refute(cond2, ch.insts(facts), 5000)
        if v1.status == "unsat":
            rep.prove(lab, cond2, ch.insts(facts), sample=sample + " [matched argument rewritten to its proved-equal instance]", **kw)
            continue
        done = False
        if z3.is_distinct(cond) or (z3.is_not(cond) and z3.is_eq(cond.arg(0))):
            d = cond.arg(0) if z3.is_distinct(cond) else cond.arg(0).arg(0)
            for dn, dexpr, need in divisors:
                if not ch.ok(*need):
                    continue
                tgt = ch.inst(dexpr)
                ve = refute(d == tgt, ch.hy(), 5000)
                if ve.status == "unsat":
                    ch._record(f"divisor[{k}]={dn}", ve)
                    rep.prove(lab, tgt != 0, ch.insts(need), sample=sample + f" [divisor proved equal to {dn}]", **kw)
                    done = True
                    break
        if not done:
            rep.prove(lab, cond, ch.base + ch.insts(ch.have), sample=sample, **kw)


_GCACHE = {}


def _o8_class(cls):
    def o8_geodetic(rep):
        from symx.core import free_vars, refute, solve

        _V, Fa0, S0 = _geo_facts()
        Chain.start_batch(Fa0, S0)  # the lemma schemas are decided by a clean helper process while the code is being explored
        res = explore_inputs_first(_geo_run(cls), ("ri", "rj", "rk"), max_paths=40, branch_timeout_ms=2500)
        rep.note(f"class {cls}: {len(res)} paths of ecef2lla+lla2ecef")
        n_closed = 0
        for r in res:
            tag = _tag(r)
            if r.exc is not None:
                rep.error(f"{tag}", f"ecef2lla/lla2ecef raised {type(r.exc).__name__}: {r.exc}")
                continue
            x, out, back = r.out
            C = r.constraints
            goals = _geo_goals(r)
            X = [_rt(t) for t in x[:3]]
            def direct_stage(to):
                """decides paths that return an explicit formula (special-case branches); component-wise, the conjunction is much harder for nlsat.
                Returns True when the path has been dealt with."""
                Bt = [_rt(q) for q in back]
                comps = [_absle(Bt[i] - X[i], TOL_KM) for i in range(3)]
                vds = []
                for g in comps:
                    vds.append(refute(g, C, to))
                    if vds[-1].status != "unsat":
                        break
                if not (vds[-1].status == "sat" or all(v.status == "unsat" for v in vds)):
                    return False
                if vds[-1].status == "unsat" and solve(C, 20000).status == "unsat":
                    rep.note(f"path {tag} is infeasible (spurious fork)")
                    return True
                kw = dict(timeout_ms=60000, inputs=_inputs_geo(x), replay=replay_geodetic)
                for i, g in enumerate(comps):
                    rep.prove(f"{tag}:roundtrip[{i}]", g, C, sample="lla2ecef(ecef2lla(x)) = x within 1 mm, component-wise (explicit-formula path)", **kw)
                for name, g in goals.items():
                    if name != "roundtrip":
                        rep.prove(f"{tag}:{name}", g, C, sample=f"ecef2lla then lla2ecef: {name} (explicit-formula path)", **kw)
                rep.prove(f"{tag}:velocity-zero", z3.And(*[q == 0 for q in Bt[3:]]), C, sample="velocity part is 0", **kw)
                rep.reachable(f"{tag}:reach", C, timeout_ms=30000)
                return True

            symbolic = all(isinstance(o, SReal) for o in out)
            if not symbolic:
                if direct_stage(40000):
                    n_closed += 1
                else:
                    rep.undecided(f"{tag}:roundtrip", "explicit-formula path not decided in time")
                continue
            # 2. the closed form: lemma chain
            ch, H = _geo_chain(rep, tag, r, cls)
            if ch is not None and getattr(ch, "infeasible", False):
                rep.note(f"path {tag} is infeasible (D < 0 cannot happen in the region; spurious fork of the explorer)")
                continue
            if not H and ch is not None and getattr(ch, "need_split", False):
                # the code does not branch on the sign of r_k here: case split by the harness (each case is a sub-path)
                subs = []
                for nm, cond in (("z>0", X[2] > 0), ("z<0", X[2] < 0), ("z=0", X[2] == 0)):
                    if refute(z3.Not(cond), [c for c in C if free_vars(c) <= {"ri", "rj", "rk"}], 5000).status != "unsat":
                        subs.append(_geo_chain(rep, f"{tag}/{nm}", r, cls, extra=[cond]))
                bad = [c for c, h in subs if not h]
                if bad:
                    for c in bad:
                        if _candidates(rep, c.tag, r, c, cls):
                            break
                    else:
                        rep.undecided(f"{tag}:roundtrip", "proof script stopped in a sign case and no candidate reproduces: " + "; ".join(f"{n}: {w}" for n, w in bad[0].failed)[:300])
                    continue
                rep.undecided(f"{tag}:roundtrip", "sign cases closed separately; per-case claims are not assembled (unexpected code shape)")
                continue
            if not H and direct_stage(20000):
                n_closed += 1
                continue
            if not H:
                why = "; ".join(f"{n}: {w}" for n, w in (ch.failed if ch else [("chain", "the path returns non-symbolic values")]))[:400]
                if refute(z3.BoolVal(False), C, 15000).status == "unsat":
                    rep.note(f"path {tag} is infeasible (spurious fork)")
                    continue
                if ch is None or not _candidates(rep, tag, r, ch, cls):
                    rep.undecided(f"{tag}:roundtrip", f"proof script stopped ({why}); no candidate counterexample reproduces on the real code")
                continue
            n_closed += 1
            kw = dict(timeout_ms=60000)

            def claim(name, schema, what):
                """a behavioural claim of the path = the instance of a goal fact; decided by the solver on the abstract variables from established facts only"""
                hyps, concl = ch.S[schema]
                miss = [h for h in hyps if h not in ch.have]
                if miss:
                    rep.undecided(f"{tag}:{name}", f"facts not established: {miss}")
                    return
                if schema not in _GCACHE:
                    _GCACHE[schema] = Chain._from_batch(schema) or refute_fresh(z3.And(*[ch.F[c] for c in concl]), [ch.F[h] for h in hyps], 240000)
                v = _GCACHE[schema]
                rep._item(f"{tag}:{name}", "prove", v)
                rep.sample({"obligation": f"{rep.ob}:{tag}:{name}", "verdict": v.status, "what": what + " [instance of a schema proved on abstract variables; its hypotheses are established on the path]"})
                if v.status == "sat":
                    rep.error(f"{tag}:{name}", "goal schema is not valid (harness proof script is wrong)")
                elif v.status != "unsat" and rep.status == "ok":
                    rep.status = "undecided"

            claim("roundtrip", "G-roundtrip-axis" if cls == "axis" else "G-roundtrip", "lla2ecef(ecef2lla(x)) = x within 1 mm (exact off the polar axis)")
            rep.prove(f"{tag}:velocity-zero", z3.And(*[_rt(q) == 0 for q in back[3:]]), C, sample="velocity part of lla2ecef(ecef2lla(x)) is 0", **kw)
            rep.prove(f"{tag}:lat-range", goals["lat-range"], slice_for(goals["lat-range"], C), sample="-pi/2 <= lat <= pi/2", **kw)
            rep.prove(f"{tag}:lon-range", goals["lon-range"], slice_for(goals["lon-range"], C), sample="-pi < lon <= pi", **kw)
            claim("alt>=-130", "G-alt>=-130", "height >= -130 km in the region (the nearest normal is selected)")
            claim("hemisphere", "G-hemisphere", "sign(lat) = sign(z)")
            claim("alt>=0-outside", "G-alt>=0-outside", "height >= 0 on and outside the ellipsoid")
            claim("equator", "G-equator", "in the equatorial plane lat = 0 and alt = rho - a")
            if cls == "axis":
                claim("polar-lat", "G-polar-lat", "on the polar axis cos(lat) <= 1e-18 and lat has the sign of z")
                claim("polar-alt", "G-polar-alt", "on the polar axis alt = |z| - a sqrt(1-e^2) within 1e-9 km (north and south)")
            _geo_domain(rep, tag, r, ch, kw)
            # vacuity: the branch conditions of the path are satisfiable together with the preconditions (contract variables are total on their proved domains)
            pcv = [c for c in r.path.pc]
            got = False
            for q in _pins(cls):
                pin = [t == rv(Fraction(val)) for t, val in zip(X, q) if not z3.is_rational_value(z3.simplify(t))]
                if rep.feasible(f"{tag}:reach", ch.base + pcv + pin, timeout_ms=10000) not in (None, True):
                    got = True
                    break
            if not got:
                rep.reachable(f"{tag}:reach", ch.base + pcv, timeout_ms=30000)
        Chain.stop_batch()
        if n_closed == 0 and not rep.violations and rep.status == "ok":
            rep.error("closed-form", "vacuous: no path went through the closed form")

    return o8_geodetic


# ====================================================================================================================
# O6r  razel <-> radec round trips as a composition of inverse pairs
# ====================================================================================================================
class _PairCuts:
    """The conversions razel2radec / radec2razel / eci2razel / getSlantRangeVector are compositions of frame maps.  Each map is cut to an
    uninterpreted function that is (a) a function - the same arguments give the same value - and (b) the inverse of its partner
    (eci2ecef/ecef2eci at one date, sez2ecef/ecef2sez at one site, razel2sez/sez2razel, spherical2cartesian/cartesian2spherical).
    Both facts are realised by memo tables keyed on provable (linear, z3-simplified) equality of the argument terms, so the round trip of
    the real composition collapses to its input exactly when every map receives what its partner produced - full 6-component states."""

    PAIRS = {"eci2ecef": "ecef2eci", "ecef2eci": "eci2ecef", "sez2ecef": "ecef2sez", "ecef2sez": "sez2ecef",
             "razel2sez": "sez2razel", "sez2razel": "razel2sez", "spherical2cartesian": "cartesian2spherical", "cartesian2spherical": "spherical2cartesian"}

    def __init__(self):
        self.tab = {}   # name -> list of (main argument vector, side arguments, value vector)
        self.n = 0

    @staticmethod
    def _vec(x):
        return [v if isinstance(v, SReal) else SReal(v) for v in np.asarray(x, dtype=object).ravel()]

    @staticmethod
    def _same(a, b):
        if len(a) != len(b):
            return False
        for x, y in zip(a, b):
            d = z3.simplify(x.t - y.t)
            if not (z3.is_rational_value(d) and d.numerator_as_long() == 0):
                return False
        return True

    def _fresh(self, name, k):
        self.n += 1
        return [real(f"{name}{self.n}_{i}") for i in range(k)]

    def call(self, name, main, side=(), k=6):
        main, side = self._vec(main), tuple(side)
        for m0, s0, v0 in self.tab.get(name, []):
            if s0 == side and self._same(m0, main):
                return v0
        for m0, s0, v0 in self.tab.get(self.PAIRS.get(name, ""), []):
            if s0 == side and self._same(v0, main):   # applied to what the partner produced: the partner's argument comes back
                self.tab.setdefault(name, []).append((main, side, m0))
                return m0
        v = self._fresh(name, k)
        self.tab.setdefault(name, []).append((main, side, v))
        return v

    def shadows(self):
        arr = lambda v: np.array(v, dtype=object)  # noqa: E731
        ids = {}

        def sid(x):  # side arguments (date token, latitude/longitude symbols) compared by term identity
            return ids.setdefault(str(x.t) if isinstance(x, SReal) else repr(x), len(ids))

        return dict(
            eci2ecef=lambda x, date, *a, **k: arr(self.call("eci2ecef", x, (sid(date),))),
            ecef2eci=lambda x, date, *a, **k: arr(self.call("ecef2eci", x, (sid(date),))),
            ecef2lla=lambda x: arr(self.call("ecef2lla", x, (), 3)),
            sez2ecef=lambda x, lat, lon: arr(self.call("sez2ecef", x, (sid(lat), sid(lon)))),
            ecef2sez=lambda x, lat, lon: arr(self.call("ecef2sez", x, (sid(lat), sid(lon)))),
            razel2sez=lambda *q: arr(self.call("razel2sez", q)),
            sez2razel=lambda x: tuple(self.call("sez2razel", x)),
            spherical2cartesian=lambda *q: arr(self.call("spherical2cartesian", q)),
            cartesian2spherical=lambda x: tuple(self.call("cartesian2spherical", x)),
        )


O6R_DATE = (2021, 3, 30, 16, 0, 7)
O6R_OBSERVER = [6524.834, 6862.875, 6448.296, 4.901327, 5.533756, -1.976341]   # a spacecraft: it moves in the Earth-fixed frame
O6R_Q = {"razel": [1200.0, 0.4, 2.2, 1.5, 1e-3, -2e-3], "radec": [1200.0, -0.3, 4.0, -0.7, 5e-4, 1e-3]}


def replay_o6r(d):
    """the real razel2radec / radec2razel at a date with Earth-orientation data, observer and topocentric coordinates from the candidate"""
    from datetime import datetime

    from resonaate.physics.transforms import methods as M

    date = datetime(*O6R_DATE)
    obs, q = np.array(d["observer_eci"], dtype=float), [float(v) for v in d["q"]]
    if d["direction"] == "razel":
        back = M.radec2razel(*M.razel2radec(*q, obs, date), obs, date)
    else:
        back = M.razel2radec(*M.radec2razel(*q, obs, date), obs, date)
    back = [float(v) for v in back]
    err = [abs(a - b) / max(1.0, abs(b)) if i in (0, 3) else min(abs(a - b), abs(abs(a - b) - 2 * math.pi)) for i, (a, b) in enumerate(zip(back, q))]
    return max(err) > 1e-7, {"input": q, "after_round_trip": back, "errors (relative for range and range rate, absolute for angles and angle rates)": err}


def o6r_roundtrips(rep):
    from resonaate.physics.transforms import methods as M

    for direction in ("razel", "radec"):
        with single_path() as p:
            cuts = _PairCuts()
            q, obs = reals(f"q{direction}", 6), reals("obs", 6)
            date = object()
            with shadow(M, **cuts.shadows()):
                if direction == "razel":
                    back = M.radec2razel(*M.razel2radec(*q, obs, date), obs, date)
                else:
                    back = M.razel2radec(*M.radec2razel(*q, obs, date), obs, date)
            back = _PairCuts._vec(list(back))
            # partial concretisation of the inputs (the verdict of the cut-level query does not depend on them): a moving observer
            pins = [obs[i].t == rv(O6R_OBSERVER[i]) for i in range(6)] + [q[i].t == rv(O6R_Q[direction][i]) for i in range(6)]
            inputs = lambda m, q=q, obs=obs, direction=direction: {"direction": direction, "q": [mfloat(m, v.t) for v in q], "observer_eci": [mfloat(m, v.t) for v in obs]}  # noqa: E731
            goal = z3.And(z3.BoolVal(len(back) == 6), *[a.t == b.t for a, b in zip(back, q)])
            rep.prove(f"{direction}-roundtrip", goal, p.constraints() + pins, inputs=inputs, replay=replay_o6r,
                      sample=f"{'radec2razel(razel2radec(q))' if direction == 'razel' else 'razel2radec(radec2razel(q))'} = q for every 6-component q and observer state, given that "
                             "each frame map is a function and the inverse of its partner (all six components, moving observer included)")
            rep.note(f"{direction}: cut calls " + ", ".join(f"{k}x{len(v)}" for k, v in sorted(cuts.tab.items())))
            rep.reachable(f"{direction}-inputs", p.constraints() + pins)



REPLAYS = {"O1": replay_rot, "O2": replay_skew, "O3": replay_sez, "O4a": replay_fk5, "O4b": replay_eci}


def _groups(lo, hi, n):
    ys = list(range(lo, hi + 1))
    k = -(-len(ys) // n)
    return [ys[i:i + k] for i in range(0, len(ys), k)]


def obligations(tier):
    obs = [
        Ob("O1", o1_rot, "elementary rotations: orthogonal, det 1, inverse, composition, axis", 120),
        Ob("O2", o2_skew, "skewSymmetric(w) v = w x v; dotRot_i = rot_i [w]x", 120),
        Ob("O3", o3_sez, "SEZ <-> ECEF mutual inverses, rigid, zenith/south axes", 180),
        Ob("O4a", o4a_fk5, "real ReductionParams.build on symbolic angles: W, PN, PNR orthogonal; transposes", 400),
        Ob("O4b", o4b_eci, "ECI <-> ECEF mutual inverses on 6-states, rigid (orthogonal-matrix cut)", 400),
    ]
    obs.append(Ob("O6r", o6r_roundtrips, "razel2radec / radec2razel round trips as compositions of inverse pairs (every frame map cut to a function with its partner as inverse)", 120))
    REPLAYS["O6r"] = replay_o6r
    obs.append(Ob("O5", o5_rsw, "RSW / NTW: rotation orthonormal, right-handed, axes along radius / velocity / orbit normal; eci2rsw and rsw2eci mutual inverses", 600))
    REPLAYS["O5"] = replay_rsw
    thorough = tier == "thorough"
    ylo, yhi = (1583, 2399)
    obs.append(Ob("O7a", _o7a(ylo, yhi), f"dayOfYear = true fractional day of year for every Gregorian date {ylo}..{yhi} (symbolic year, month, day, time)", 300))
    REPLAYS["O7a"] = replay_doy
    glo, ghi, ng = (1975, 2060, 43) if thorough else (2013, 2023, 11)
    for g in _groups(glo, ghi, ng):
        name = f"O7b-{g[0]}" + (f"-{g[-1]}" if len(g) > 1 else "")
        obs.append(Ob(name, _o7b(g), f"getRotR angle advances at the Earth rate through every minute/day/month/leap-day boundary of {g[0]}..{g[-1]}", 1500))
        REPLAYS[name] = replay_rotr
    obs.append(Ob("O8a", o8a_lla2ecef, "lla2ecef satisfies the definition of geodetic coordinates on the reference ellipsoid; pole/equator closed forms", 300))
    REPLAYS["O8a"] = replay_lla2ecef
    for cls, what in (("axis", "on the polar axis"), ("x", "off the axis, x != 0"), ("y", "off the axis, x = 0")):
        obs.append(Ob(f"O8-{cls}", _o8_class(cls), f"ecef2lla {what}: lla2ecef(ecef2lla(p)) = p, ranges, hemisphere, nearest normal, no nan; closed forms on axis/equator", 900))
        REPLAYS[f"O8-{cls}"] = replay_geodetic
    obs.append(Ob("O8u", o8u_unique, "geodetic coordinates are unique: lla2ecef injective on the documented domain (=> ecef2lla is the two-sided inverse, mirror symmetry)", 300))
    REPLAYS["O8u"] = replay_unique
    obs.append(Ob("O7c", _o7c(list(range(glo - 1, ghi + 1))), f"GAST continuous over every year boundary {glo - 1}/{glo} .. {ghi}/{ghi + 1}", 600))
    REPLAYS["O7c"] = replay_rollover
    obs.append(Ob("O7d", _o7d(list(range(glo, ghi + 1))), f"utc2TerrestrialTime: TT Julian centuries linear in time through the day boundary, every instant of {glo}..{ghi}", 900))
    REPLAYS["O7d"] = replay_tt
    obs.append(Ob("O7e", _o7e(list(range(glo - 1, ghi + 1))), f"getRotR across every New Year {glo - 1}/{glo} .. {ghi}/{ghi + 1}: angle advances at the Earth rate with symbolic dUT1", 900))
    REPLAYS["O7e"] = replay_newyear
    return obs
