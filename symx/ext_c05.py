"""symx.ext_c05: helpers of the C05 harness for the *entry point* of a timed run (resonaate.runResonaate).

1. TimeDeltaUS: a model of CPython's C `datetime.timedelta(...)` constructor *with float arguments*
   (Modules/_datetimemodule.c: delta_new/accum).  The real constructor keeps an exact integer number of
   microseconds `x` and, per float argument `v` with unit factor `f` microseconds,

        intpart = trunc(v); frac = v - intpart          (modf: exact)
        x += intpart * f                                 (exact integers)
        d = rn(f * frac)                                 (ONE double multiplication)
        x += trunc(d); leftover += d - trunc(d)          (modf: exact; double additions of the leftovers)

   and finally adds the leftover rounded to the nearest whole microsecond, ties such that the total is even.
   The model executes exactly these steps on symx.fp doubles (so the double multiplication is rn'd in the active
   fp mode) and integers.  It is a subclass of symx.dtmodel.STimeDelta, `s` being the whole seconds
   floor(us / 10^6): adding it to a whole-second SDateTime gives the right six calendar fields (the microsecond
   field of the sum is not modelled).  Negative float arguments are not supported.
   The model is validated differentially against the real constructor (harness obligation `tdmodel`).

2. rebuilt(): the *same code object* of a real function run with a private `__builtins__` whose `__import__`
   substitutes chosen modules - needed because runResonaate imports `timedelta` inside its body
   (`from datetime import timedelta`), where module-global shadowing cannot reach; int/float/round are replaced
   by the fp versions the same way.  Module-level names of the defining module that are the real
   datetime/timedelta objects are substituted as well (so moving the import to module level changes nothing).

3. TrackedDT / jd_contract(): the accuracy contract of JulianDate.getJulianDate (what the roundtrip-* obligations
   prove: for the six fields of a whole-second instant the result is within 2^-31 d of the exact Julian date),
   used as a cut at the call in getTargetJulianDate.  TrackedDT is an SDateTime that remembers which six field
   terms belong to which instant, so that the contract does not have to invert the calendar; fields that do not
   come from one tracked instant in the right order are recomposed through the SDateTime constructor.
"""
from __future__ import annotations

import builtins
import datetime as _real
import types
from fractions import Fraction

import z3

from . import fp
from .core import SInt, Unsupported, cur, rv
from .dtmodel import N_MAX, SDateTime, STimeDelta, _iterm
from .fp import SFloat

US = {"microseconds": 1, "milliseconds": 1000, "seconds": 10 ** 6, "minutes": 60 * 10 ** 6, "hours": 3600 * 10 ** 6, "days": 86400 * 10 ** 6,
      "weeks": 7 * 86400 * 10 ** 6}
JD_1901 = Fraction(4830771, 2)


def _is_float_arg(v):
    if isinstance(v, SFloat):
        return not v.is_integer()
    if isinstance(v, float):
        return v != int(v)
    import numpy as np

    if isinstance(v, np.floating):
        return float(v) != int(v)
    return False


class TimeDeltaUS(STimeDelta):
    """timedelta(days, seconds, microseconds, milliseconds, minutes, hours, weeks) with float arguments (see module docstring)."""

    def __init__(self, days=0, seconds=0, microseconds=0, milliseconds=0, minutes=0, hours=0, weeks=0):
        args = {"microseconds": microseconds, "milliseconds": milliseconds, "seconds": seconds, "minutes": minutes, "hours": hours, "days": days, "weeks": weeks}
        x = z3.IntVal(0)
        leftover = None
        for name in ("microseconds", "milliseconds", "seconds", "minutes", "hours", "days", "weeks"):  # the order of delta_new
            v, f = args[name], US[name]
            if isinstance(v, int) and not isinstance(v, bool) and v == 0:
                continue
            if not _is_float_arg(v):
                x = x + _iterm(v, name) * f
                continue
            v = SFloat.lift(v)
            if v.lo < 0:
                raise Unsupported("timedelta model: negative fractional argument")
            ip = v.floor()  # modf of a non-negative double
            frac = v - ip  # exact
            x = x + _iterm(ip, name) * f
            d = SFloat(f) * frac  # the one rounded operation
            ip2 = d.floor()
            x = x + _iterm(ip2, name)
            f2 = d - ip2
            leftover = f2 if leftover is None else leftover + f2
        if leftover is not None:
            # nearest whole microsecond; on a tie the *total* becomes even (delta_new: x_is_odd)
            p = cur()
            p.fresh += 1
            w = z3.Int(f"tdw!{p.fresh}")
            dlt = leftover.t - z3.ToReal(w)
            half = rv(Fraction(1, 2))
            fp._define(p, w, z3.And(dlt <= half, dlt >= -half, z3.Implies(z3.Or(dlt == half, dlt == -half), (x + w) % 2 == 0)))
            x = x + w
        self.us = z3.simplify(x)
        self.s = z3.simplify(self.us / 10 ** 6)  # Int division: floor, as the normalised (days, seconds, microseconds) of the real object

    @classmethod
    def _of(cls, s):
        o = object.__new__(cls)
        o.s = s
        o.us = s * 10 ** 6
        return o

    microseconds = property(lambda self: fp.from_int(self.us % 10 ** 6, 0, 10 ** 6 - 1))

    def total_seconds(self):
        return fp.from_int(self.us, -N_MAX * 86400 * 10 ** 6, N_MAX * 86400 * 10 ** 6) / SFloat(10 ** 6)

    def __add__(self, o):
        if isinstance(o, STimeDelta):
            ous = o.us if isinstance(o, TimeDeltaUS) else o.s * 10 ** 6
            r = object.__new__(TimeDeltaUS)
            r.us = z3.simplify(self.us + ous)
            r.s = z3.simplify(r.us / 10 ** 6)
            return r
        return NotImplemented

    __radd__ = __add__

    def __eq__(self, o):
        from .core import SBool

        if isinstance(o, TimeDeltaUS):
            return SBool(self.us == o.us)
        if isinstance(o, STimeDelta):
            return SBool(self.us == o.s * 10 ** 6)
        return NotImplemented

    def __hash__(self):
        return hash(self.us)


class DatetimeModuleUS:
    """Stands for the module `datetime` (what `from datetime import timedelta` / `import datetime` deliver)."""

    datetime = SDateTime
    timedelta = TimeDeltaUS
    date = _real.date
    timezone = _real.timezone
    UTC = getattr(_real, "UTC", None)


class MathShim:
    """Stands for the module `math` inside a rebuilt function: floor/ceil/trunc of symbolic doubles, everything else the real module."""

    def __getattr__(self, k):
        import math

        return getattr(math, k)

    @staticmethod
    def floor(x):
        import math

        return fp.fp_int(SFloat.lift(x).floor()) if isinstance(x, SFloat) else math.floor(x)

    @staticmethod
    def ceil(x):
        import math

        return fp.fp_int(-((-x).floor())) if isinstance(x, SFloat) else math.ceil(x)

    @staticmethod
    def trunc(x):
        import math

        return x.trunc() if isinstance(x, SFloat) else math.trunc(x)


def real_total_us(td):
    """Exact integer microseconds of a real timedelta."""
    return (td.days * 86400 + td.seconds) * 10 ** 6 + td.microseconds


# ---------------------------------------------------------------------------------------------
def rebuilt(func, modules=None, names=None):
    """The same code object as `func`, run with a private __builtins__: `__import__` delivers `modules[name]` for absolute
    imports of those names (everything else is the real import), `names` override builtins (int, float, round...).  Globals of
    the defining module that *are* the real datetime module / datetime.timedelta / datetime.datetime are substituted too."""
    modules = dict(modules or {})
    real_import = builtins.__import__

    def imp(name, globals=None, locals=None, fromlist=(), level=0):  # noqa: A002
        if level == 0 and name in modules:
            return modules[name]
        return real_import(name, globals, locals, fromlist, level)

    b = dict(builtins.__dict__)
    b["__import__"] = imp
    b.update(names or {})
    g = dict(func.__globals__)
    g["__builtins__"] = b
    import sys

    reals = {id(sys.modules[name]): m for name, m in modules.items() if name in sys.modules}
    dm = modules.get("datetime")
    for k, v in list(g.items()):
        if id(v) in reals and isinstance(v, types.ModuleType):
            g[k] = reals[id(v)]
        elif "math" in modules and getattr(v, "__module__", None) == "math" and getattr(v, "__name__", "") in ("floor", "ceil", "trunc"):
            g[k] = getattr(modules["math"], v.__name__)
        elif dm is not None and v is _real.timedelta:
            g[k] = dm.timedelta
        elif dm is not None and v is _real.datetime:
            g[k] = dm.datetime
    # helper functions of the same module see the same substituted globals (so extracting part of the body into a helper changes nothing)
    for k, v in list(g.items()):
        if isinstance(v, types.FunctionType) and v.__globals__ is func.__globals__ and v is not func:
            nf = types.FunctionType(v.__code__, g, v.__name__, v.__defaults__, v.__closure__)
            nf.__kwdefaults__ = v.__kwdefaults__
            g[k] = nf
    f = types.FunctionType(func.__code__, g, func.__name__, func.__defaults__, func.__closure__)
    f.__kwdefaults__ = func.__kwdefaults__
    g[func.__name__] = f
    return f


# ---------------------------------------------------------------------------------------------
class TrackedDT(SDateTime):
    """SDateTime whose field terms are registered (per path) so that a contract can recognise 'the six fields of instant tot'."""

    @classmethod
    def of_total(cls, tot):
        o = object.__new__(cls)
        o.tot = z3.simplify(tot)
        o._n = o._sod = None
        o._f = None
        return o

    def _shift(self, secs):
        r = SDateTime._shift(self, secs)
        return TrackedDT.of_total(r.tot)

    def _fields(self):
        f = SDateTime._fields(self)
        p = cur()
        rf = [z3.simplify(z3.ToReal(x)) for x in f]  # the form in which the fields travel (fp.from_int)
        key = ("dtfields",) + tuple(x.get_id() for x in rf)
        if key not in p.trig:
            p.trig[key] = self.tot
            p.keep.extend(rf)
        return f


def instant_of_fields(year, month, day, hour, minute, second):
    """Total seconds since 1901-01-01 (z3 Int term) of the instant with these six whole fields; raises ValueError like
    datetime() when they are out of range."""
    p = cur()
    try:
        ts = [z3.simplify(v.t if isinstance(v, SFloat) else z3.ToReal(_iterm(v, "field"))) for v in (year, month, day, hour, minute, second)]
        hit = p.trig.get(("dtfields",) + tuple(t.get_id() for t in ts))
    except (Unsupported, TypeError):
        hit = None
    if hit is not None:
        return hit
    return SDateTime(year, month, day, hour, minute, second).tot


def jd_contract(JD, eps=Fraction(1, 2 ** 31), lo=Fraction(4830041, 2), hi=Fraction(4976837 + 62, 2), on_call=None):
    """A subclass of the (re-based) JulianDate class whose getJulianDate is replaced by its accuracy contract."""
    def getJulianDate(cls, year, month, day, hour, minute, second):
        tot = instant_of_fields(year, month, day, hour, minute, second)
        p = cur()
        p.fresh += 1
        x = fp.fresh_float(f"jdc!{p.fresh}", lo, hi, -31)
        exact = rv(JD_1901) + z3.ToReal(tot) / 86400
        p.assume(z3.And(x.t - exact <= rv(eps), exact - x.t <= rv(eps)))
        out = cls(x)
        if on_call is not None:
            on_call(out, tot)
        return out

    return types.new_class(JD.__name__, (JD,), exec_body=lambda ns: ns.update({"__slots__": (), "__module__": JD.__module__, "getJulianDate": classmethod(getJulianDate)}))
