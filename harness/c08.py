"""C08 - tasking bookkeeping is exact and independent of the order parallel jobs finish."""
from __future__ import annotations

import datetime as _dt
import itertools
import types

import numpy as np
import z3

from symx.core import SBool, SInt, SReal, assume, boolean, cur, explore, integer, mfloat, mval, real, reals, rv
from symx.runner import Ob
from symx.stubs import shadow

ID = "C08"
TECHNIQUE = ("the real JobExecutor.join, the processResults of the reward/task-execution/propagation/prediction/update registrations, TaskingEngine bookkeeping, "
             "CentralizedTaskingEngine.assess and (step-* obligations) the real Scenario.stepForward around it, with sensing agents built by the real SensingAgent constructor, "
             "are executed with ray replaced by a stub whose completion order is a solver variable per ray.wait call, "
             "worker results carrying symbolic payloads (metric values, boresight vectors, times, observe-or-miss bits); on every feasible path z3 proves the "
             "bookkeeping oracle over the symbolic payloads (unsat): exactly one record per pair of the published decision matrix, sensor_changes and - after stepForward - the "
             "sensor agents' boresight/time_last_tasked equal to their own job's report whether the sensor observed or missed, update jobs fed with their own target's observations; "
             "so all completion orders and all tasking outcomes within the bounds are covered")
FLOAT_SEMANTICS = "exact (payloads are opaque reals; only equality and comparisons matter)"
ENCODED = ["resonaate.parallel.tasking_execution:asyncExecuteTasking._function",
    "resonaate.parallel:JobExecutor.enqueueJob", "resonaate.parallel:JobExecutor.join",
    "resonaate.parallel.tasking_execution:TaskExecutionRegistration.processResults",
    "resonaate.parallel.tasking_reward_generation:TaskingRewardRegistration.processResults",
    "resonaate.parallel.agent_propagation:PropagateRegistration.processResults",
    "resonaate.tasking.engine.engine_base:TaskingEngine.saveObservations", "resonaate.tasking.engine.engine_base:TaskingEngine.saveMissedObservations",
    "resonaate.tasking.engine.engine_base:TaskingEngine.updateFromAsyncTaskExecution", "resonaate.tasking.engine.engine_base:TaskingEngine.getCurrentObservations",
    "resonaate.tasking.engine.engine_base:TaskingEngine.getCurrentMissedObservations",
    "resonaate.tasking.engine.engine_base:TaskingEngine.setHandles", "resonaate.tasking.engine.engine_base:TaskingEngine.resetHandles",
    "resonaate.tasking.engine.centralized_engine:CentralizedTaskingEngine.assess",
    "resonaate.scenario.scenario:Scenario.stepForward",
    "resonaate.agents.sensing_agent:SensingAgent.__init__", "resonaate.agents.sensing_agent:SensingAgent.updateInfo", "resonaate.agents.sensing_agent:SensingAgent.sensors",
]
BOUNDS = {"network": "2 targets x 3 sensors (quick), 3 x 3 (thorough); greedy and all-visible policies; through Scenario.stepForward: 2 x 2 greedy and all-visible (quick), plus 2 x 3 greedy (thorough)",
          "jobs": "<= 3 jobs per batch, every completion order of the reward and task-execution batches",
          "outcomes": "every observe-or-miss split of the tasked sensors (including a tasked sensor whose only record is a miss); arbitrary boresights and times; fixed distinct metric values, every visibility pattern",
          "steps": "two consecutive assess calls; one stepForward (quick), two (thorough)"}
OUTSIDE = ["Ray's delivery guarantees and pickling", "worker-side computation (C02)", "random noise values", "estimate update/predict payload contents and the merge of the update/prediction batches "
           "(in the step-* obligations the propagate/predict/update registrations are recorded, not executed; the propagation merge is propagate-merge)",
           "scenario events inside the step (C01)", "the ThreeSigmaObs debugging branch of stepForward (default configuration: off)", "more than one tasking engine per scenario",
           "background (non-primary) observations returned by a task-execution job"]
ASSUMPTIONS = ["ray.wait(refs) returns exactly one finished reference, chosen by the solver among the pending ones; ray.get returns the job's result; ray.put is identity",
               "remote functions are replaced by providers of symbolic results (their computation is the subject of C02/C06); a task-execution job reports one record and one pointing update per tasked sensor",
               "database event query in assess returns no events",
               "step-* obligations: Scenario object built without its constructor (attributes of the real constructor set by hand: clock, agents, stores, executors); handleRelevantEvents/getRelevantEvents "
               "return nothing; EventStack flush is a no-op; Propagate/EstPredict/EstUpdate registrations and their executors are recorders (arguments kept, nothing executed); "
               "targets and estimates are identity tokens; sensing agents come from the real constructor with real Optical sensors and concrete states",
               "the tasked pairs of a step are the True cells of the engine's decision_matrix after assess()"]
LEVEL_TEXT = ("Bounded symbolic verification of the merge logic: all completion orders of the reward and task-execution batches and all observe/miss outcomes of a small network are "
              "paths of one symbolic execution of the real assess() (and of the real Scenario.stepForward around it); exactly-one-record per decided pair, sensor state (engine side and agent side) "
              "and order independence are proved on each path over symbolic payloads.")
LEVEL_NOTE = "Small network bound; Ray replaced by a nondeterministic-order stub; payload contents opaque."


class Tok:
    """An opaque record (observation or miss) tagged with its (target, sensor)."""

    def __init__(self, kind, target_id, sensor_id, n):
        self.kind, self.target_id, self.sensor_id, self.n = kind, target_id, sensor_id, n

    def __repr__(self):
        return f"{self.kind}(t{self.target_id},s{self.sensor_id})#{self.n}"

    def __bool__(self):
        return True


class RayStub:
    """ray.wait / get / put with a solver-chosen completion order."""

    def __init__(self):
        self.results = {}
        self.order = []
        self.nwait = 0

    def wait(self, refs, **kw):
        refs = list(refs)
        self.nwait += 1
        if len(refs) == 1:
            i = 0
        else:
            k = integer(f"finish_{self.nwait}")
            assume(k.t >= 0, k.t < len(refs))
            i = k.concretize()
        self.order.append(refs[i])
        return [refs[i]], refs[:i] + refs[i + 1:]

    def get(self, ref):
        if isinstance(ref, list):
            return [self.get(r) for r in ref]
        return self.results.get(ref, ref)

    def put(self, x):
        return x


class Remote:
    def __init__(self, rayst, fn, name):
        self.rayst, self.fn, self.name, self.n = rayst, fn, name, 0

    def remote(self, submission):
        self.n += 1
        ref = f"{self.name}-job{self.n}"
        self.rayst.results[ref] = self.fn(submission)
        return ref


class FakeSensor:
    def __init__(self, sid):
        self.simulation_id = sid
        self.measurement = None


class FakeEstimate:
    def __init__(self, tid):
        self.simulation_id = tid


def _engine(targets, sensors, policy):
    from resonaate.tasking.decisions import decisions as D
    from resonaate.tasking.engine import centralized_engine as CE
    from resonaate.tasking.engine import engine_base as EB
    from harness.c07 import _metrics, _mk_reward

    class DB:
        pass

    with shadow(EB, getDBConnection=lambda: DB()):
        eng = CE.CentralizedTaskingEngine(1, list(sensors), list(targets), _mk_reward("sum", _metrics("sum"), 0.5),
                                          D.MyopicNaiveGreedyDecision() if policy == "greedy" else D.AllVisibleDecision(), None, True)
    return eng


class _TokAgent:
    """A target / estimate agent as far as the tasking step is concerned: an identity."""

    realtime = True

    def __init__(self, aid):
        self.simulation_id = aid


class _Reg:
    """Stands for the propagate / predict registrations of Scenario.stepForward (their merge is the subject of propagate-merge)."""

    def __init__(self, *a):
        self.args = a


class _NoExec:
    def __init__(self):
        self.regs = []

    def enqueueJob(self, reg):
        self.regs.append(reg)

    def join(self):
        pass


def _pointing(agent):
    """(boresight, time_last_tasked) of a sensing agent as seen through its public attributes."""
    return list(agent.sensors.boresight), agent.sensors.time_last_tasked


def _bare_scenario(targets, sensors, eng):
    """A Scenario (bare object, attributes of the real constructor) around the real engine: real clock object, sensing agents
    from the real SensingAgent constructor with real Optical sensors, identity tokens for targets and estimates."""
    from resonaate.agents.sensing_agent import SensingAgent
    from resonaate.dynamics.two_body import TwoBody
    from resonaate.physics.time.stardate import ScenarioTime, datetimeToJulianDate
    from resonaate.scenario import clock as CK
    from resonaate.scenario import scenario as SC
    from resonaate.sensors.optical import Optical

    clock = object.__new__(CK.ScenarioClock)
    clock.datetime_start = _dt.datetime(2021, 1, 1)
    clock.julian_date_start = datetimeToJulianDate(clock.datetime_start)
    clock.dt_step, clock.time, clock.initial_time, clock.logger = ScenarioTime(60.0), ScenarioTime(0.0), ScenarioTime(0.0), None
    agents = {}
    for k, sid in enumerate(sensors):
        sen = Optical(az_mask=np.array([0.0, 359.0]), el_mask=np.array([0.0, 90.0]), r_matrix=np.diag([1e-8, 1e-8]), diameter=1.0, efficiency=0.9, slew_rate=1.0,
                      field_of_view=types.SimpleNamespace(), background_observations=False, minimum_range=0.0, maximum_range=1e6, detectable_vismag=20.0)
        agents[sid] = SensingAgent(sid, f"S{sid}", "GroundFacility", np.array([6378.0, 10.0 * k, 0.0, 0.0, 0.46, 0.0]), clock, sen, TwoBody(), True, 10.0, 100.0, 0.2)
    sc = object.__new__(SC.Scenario)
    sc.clock = clock
    sc.current_julian_date = clock.julian_date_epoch
    sc.database = object()
    nul = lambda *a, **k: None  # noqa: E731
    sc.logger = types.SimpleNamespace(info=nul, error=nul, debug=nul, warning=nul)
    sc.scenario_config = types.SimpleNamespace(propagation=types.SimpleNamespace(truth_simulation_only=False))
    sc.target_agents = {t: _TokAgent(t) for t in targets}
    sc._estimate_agents = {t: _TokAgent(t) for t in targets}
    sc._sensor_agents = agents
    sc._tasking_engines = {eng.unique_id: eng}
    sc._ephem_importer = None
    sc._stepped_epochs = {}
    sc._agent_propagator, sc._estimate_predictor, sc._estimate_updater = _NoExec(), _NoExec(), _NoExec()
    sc._target_store, sc._sensor_store, sc._estimate_store = {}, {}, {}
    return sc


def _scenario_shadows(rayst):
    """The names of the scenario module that stand outside the tasking step."""
    from resonaate.scenario import scenario as SC

    return shadow(SC, ray=rayst, EventStack=types.SimpleNamespace(logAndFlushEvents=lambda: None), handleRelevantEvents=lambda *a, **k: None,
                  getRelevantEvents=lambda *a, **k: [], PropagateRegistration=_Reg, EstPredictRegistration=_Reg, EstUpdateRegistration=_Reg)


def _run_assess(targets, sensors, policy, steps=1, via="assess"):
    """via="assess": the engine's assess() is called directly; via="scenario": the real Scenario.stepForward drives it and applies the results."""
    from resonaate.parallel import tasking_execution as TE
    from resonaate.parallel import tasking_reward_generation as TR
    from resonaate.tasking.engine import centralized_engine as CE
    import resonaate.parallel as P

    rayst = RayStub()
    eng = _engine(targets, sensors, policy)
    K = eng.num_metrics
    nS = len(sensors)
    log = {"exec": [], "reward": {}}
    counter = [0]
    step = [0]

    def reward_fn(sub):
        tid = sub.estimate_handle.simulation_id
        vis = np.array([boolean(f"vis{step[0]}_{tid}_{s}") for s in sensors], dtype=object)
        # concrete, distinct metric values (tasking variety comes from the symbolic visibility bits):
        # sensors prefer the first target except the last sensor, which prefers the second one
        met = np.array(_metric_values(targets, tid, nS, K))
        res = TR.RewardCalcResult(estimate_id=tid, visibility=vis, metric_matrix=met)
        log["reward"][(step[0], tid)] = res
        return res

    def exec_fn(sub):
        tid = sub.estimate_handle.simulation_id
        obs, miss, info = [], [], []
        for sh in sub.sensor_handle_list:
            sid = sh.simulation_id
            counter[0] += 1
            if boolean(f"observed{step[0]}_{tid}_{sid}"):
                obs.append(Tok("obs", tid, sid, counter[0]))
            else:
                miss.append(Tok("miss", tid, sid, counter[0]))
            info.append({"sensor_id": sid, "boresight": reals(f"bore{step[0]}_{tid}_{sid}", 3), "time_last_tasked": real(f"tlt{step[0]}_{tid}_{sid}")})
        res = TE.TaskExecutionResult(target_id=tid, observations=obs, missed_observations=miss, sensor_info_list=info)
        log["exec"].append((step[0], tid, [sh.simulation_id for sh in sub.sensor_handle_list], res))
        return res

    snaps = []
    sc = _bare_scenario(targets, sensors, eng) if via == "scenario" else None
    with shadow(P, ray=rayst), shadow(CE, ray=rayst, handleRelevantEvents=lambda *a, **k: None, zeros=_zeros_vis), \
            shadow(TR, asyncCalculateReward=Remote(rayst, reward_fn, "reward")), shadow(TE, asyncExecuteTasking=Remote(rayst, exec_fn, "exec")):
        for st in range(steps):
            step[0] = st
            extra = {}
            if sc is None:
                eng.setHandles({t: FakeEstimate(t) for t in targets}, {s: FakeSensor(s) for s in sensors}, {t: FakeEstimate(t) for t in targets})
                t0 = _dt.datetime(2021, 1, 1, 0, st, 0)
                eng.assess(t0, t0 + _dt.timedelta(seconds=60))
            else:
                extra["pointing_before"] = {sid: _pointing(a) for sid, a in sc.sensor_agents.items()}
                sc._estimate_updater.regs.clear()
                with _scenario_shadows(rayst):
                    sc.stepForward()
                extra["pointing_after"] = {sid: _pointing(a) for sid, a in sc.sensor_agents.items()}
                extra["updates"] = [reg.args for reg in sc._estimate_updater.regs]
                extra["estimates"] = dict(sc.estimate_agents)
            snaps.append({
                "observations": list(eng.observations), "saved_obs": list(eng.getCurrentObservations()),
                "saved_miss": list(eng.getCurrentMissedObservations()), "sensor_changes": dict(eng.sensor_changes),
                "decision": np.array(eng.decision_matrix, dtype=object), "visibility": np.array(eng.visibility_matrix, dtype=object),
                "metric": np.array(eng.metric_matrix, dtype=object), "order": list(rayst.order),
                "unfinished": (len(eng._reward_executor._unfinished_jobs), len(eng._reward_executor._result_reg_mapping),
                               len(eng._task_exec_executor._unfinished_jobs), len(eng._task_exec_executor._result_reg_mapping)),
                **extra,
            })
            if sc is None:
                eng.resetHandles()
    return eng, log, snaps


def _metric_values(targets, tid, nS, K):
    return [[(1.0 + 0.1 * k + (0.5 if ((si == nS - 1) == (tid != targets[0])) else 0.0)) for k in range(K)] for si in range(nS)]


def _zeros_vis(shape, dtype=None):
    """numpy.zeros; boolean matrices get object cells so that symbolic visibility bits can be stored."""
    if dtype is bool:
        a = np.empty(shape, dtype=object)
        a.fill(False)
        return a
    return np.zeros(shape, dtype=dtype)


def _tb(x):
    if isinstance(x, SBool):
        return x.t
    return z3.BoolVal(bool(x))


def _tr(x):
    if isinstance(x, SReal):
        return x.t
    if isinstance(x, SInt):
        return z3.ToReal(x.t)
    return rv(x)


def replay_assess(d):
    """Concrete replay of the same scenario on the real engine with a fixed completion order."""
    return _concrete_assess(d)


def _payload(st, tid, sid):
    """The concrete pointing state job (step, target) reports for sensor sid in a replay: distinct per (step, target, sensor)."""
    return np.array([float(tid), float(sid), 1.0 + st]), 10000.0 * (st + 1) + 100.0 * tid + sid


def _concrete_assess(d):
    """The real assess() / stepForward() on plain values, with its own oracle stated over what the step hands out: the decision matrix names the
    tasked pairs; records, sensor_changes, the sensors' pointing state and the update jobs' observation lists are compared with the workers' results."""
    from resonaate.parallel import tasking_execution as TE
    from resonaate.parallel import tasking_reward_generation as TR
    from resonaate.tasking.engine import centralized_engine as CE
    import resonaate.parallel as P

    targets, sensors, policy = d["targets"], d["sensors"], d["policy"]
    steps, via = int(d.get("steps", 1)), d.get("via", "assess")
    eng = _engine(targets, sensors, policy)

    class FixedRay(RayStub):
        def wait(self, refs, **kw):
            refs = list(refs)
            self.nwait += 1
            i = d["order"].get(str(self.nwait), 0) if len(refs) > 1 else 0
            i = min(i, len(refs) - 1)
            return [refs[i]], refs[:i] + refs[i + 1:]

    rayst = FixedRay()
    cnt = [0]
    step = [0]

    def key(tid, sid=None):
        # evidence written before the multi-step replay existed has no step prefix
        k = f"{tid}" if sid is None else f"{tid}_{sid}"
        return f"{step[0]}:{k}"

    def reward_fn(sub):
        tid = sub.estimate_handle.simulation_id
        vis = d["vis"].get(key(tid), d["vis"].get(str(tid)))
        met = d["met"].get(key(tid), d["met"].get(str(tid)))
        return TR.RewardCalcResult(estimate_id=tid, visibility=np.array(vis, dtype=bool), metric_matrix=np.array(met, dtype=float))

    jobs = []
    results = {}

    def exec_fn(sub):
        tid = sub.estimate_handle.simulation_id
        obs, miss, info = [], [], []
        for sh in sub.sensor_handle_list:
            sid = sh.simulation_id
            cnt[0] += 1
            seen = d["observed"].get(key(tid, sid), d["observed"].get(f"{tid}_{sid}", False))
            (obs if seen else miss).append(Tok("obs" if seen else "miss", tid, sid, cnt[0]))
            bore, tlt = _payload(step[0], tid, sid)
            info.append({"sensor_id": sid, "boresight": bore, "time_last_tasked": tlt})
        jobs.append((step[0], tid, [sh.simulation_id for sh in sub.sensor_handle_list]))
        res = TE.TaskExecutionResult(target_id=tid, observations=obs, missed_observations=miss, sensor_info_list=info)
        results[(step[0], tid)] = (list(obs), list(miss))
        return res

    problems = []
    sc = _bare_scenario(targets, sensors, eng) if via == "scenario" else None
    with shadow(P, ray=rayst), shadow(CE, ray=rayst, handleRelevantEvents=lambda *a, **k: None), \
            shadow(TR, asyncCalculateReward=Remote(rayst, reward_fn, "reward")), shadow(TE, asyncExecuteTasking=Remote(rayst, exec_fn, "exec")):
        for st in range(steps):
            step[0] = st
            if sc is None:
                eng.setHandles({t: FakeEstimate(t) for t in targets}, {s: FakeSensor(s) for s in sensors}, {t: FakeEstimate(t) for t in targets})
                t0 = _dt.datetime(2021, 1, 1, 0, st, 0)
                eng.assess(t0, t0 + _dt.timedelta(seconds=60))
            else:
                before = {sid: _pointing(a) for sid, a in sc.sensor_agents.items()}
                sc._estimate_updater.regs.clear()
                with _scenario_shadows(rayst):
                    sc.stepForward()
            tag = f"step {st}: "
            D = np.array(eng.decision_matrix, dtype=bool)
            obs_now, saved_obs, miss_now = list(eng.observations), list(eng.getCurrentObservations()), list(eng.getCurrentMissedObservations())
            recs = obs_now + miss_now
            # exactly one record per tasked pair (the decision matrix names the tasked pairs), none for the others
            for ti, tid in enumerate(targets):
                for si, sid in enumerate(sensors):
                    n = sum(1 for r in recs if (r.target_id, r.sensor_id) == (tid, sid))
                    if n != (1 if D[ti, si] else 0):
                        problems.append(tag + f"pair (t{tid},s{sid}) tasked={bool(D[ti, si])} has {n} records")
            # the records are the workers' records, the list kept for the database equals the list of the step
            want_obs = [o for (s_, _t), (ob, _m) in results.items() if s_ == st for o in ob]
            want_miss = [m for (s_, _t), (_o, mi) in results.items() if s_ == st for m in mi]
            if sorted(map(id, obs_now)) != sorted(map(id, want_obs)) or sorted(map(id, saved_obs)) != sorted(map(id, want_obs)):
                problems.append(tag + "observations differ from the workers' observations")
            if sorted(map(id, miss_now)) != sorted(map(id, want_miss)):
                problems.append(tag + "missed observations differ from the workers' missed observations")
            # pointing state: every tasked sensor carries what (one of) its job(s) reported; nobody else is touched
            for si, sid in enumerate(sensors):
                tids = [tid for ti, tid in enumerate(targets) if D[ti, si]]
                allowed = [_payload(st, tid, sid) for tid in tids]
                ch = eng.sensor_changes.get(sid)
                if tids and ch is None:
                    problems.append(tag + f"tasked sensor {sid} missing from sensor_changes")
                elif tids and not any(np.array_equal(np.array(ch["boresight"], dtype=float), b) and float(ch["time_last_tasked"]) == t for b, t in allowed):
                    problems.append(tag + f"sensor_changes[{sid}] is not what a job of sensor {sid} reported")
                elif not tids and ch is not None:
                    problems.append(tag + f"untasked sensor {sid} in sensor_changes")
                if sc is not None:
                    bore, tlt = _pointing(sc.sensor_agents[sid])
                    if tids and not any(np.array_equal(np.array(bore, dtype=float), b) and float(tlt) == t for b, t in allowed):
                        problems.append(tag + f"tasked sensor {sid}: pointing state after the step (time_last_tasked={float(tlt)}) is not what its job reported")
                    if not tids and not (np.array_equal(np.array(bore, dtype=float), np.array(before[sid][0], dtype=float)) and float(tlt) == float(before[sid][1])):
                        problems.append(tag + f"untasked sensor {sid}: pointing state changed")
            # reward batch: each row from its own estimate
            for ti, tid in enumerate(targets):
                vis = d["vis"].get(key(tid), d["vis"].get(str(tid)))
                if [bool(x) for x in eng.visibility_matrix[ti]] != [bool(x) for x in vis]:
                    problems.append(tag + f"visibility row of target {tid} is not its own job's result")
            if (len(eng._reward_executor._unfinished_jobs), len(eng._reward_executor._result_reg_mapping),
                    len(eng._task_exec_executor._unfinished_jobs), len(eng._task_exec_executor._result_reg_mapping)) != (0, 0, 0, 0):
                problems.append(tag + "executors not drained")
            if sc is not None:
                problems += [tag + p_ for p_ in _update_routing_problems(targets, [reg.args for reg in sc._estimate_updater.regs], dict(sc.estimate_agents), obs_now)]
            else:
                eng.resetHandles()
    return bool(problems), {"problems": problems, "jobs": jobs}


def _update_routing_problems(targets, updates, estimates, observations):
    """Scenario.stepForward hands every estimate exactly one update job, carrying exactly the step's observations of that target (each once)."""
    problems = []
    for tid in targets:
        mine = [u for u in updates if len(u) == 3 and getattr(u[0], "simulation_id", None) == tid]
        if len(mine) != 1:
            problems.append(f"estimate {tid} has {len(mine)} update jobs")
            continue
        _reg, handle, obs = mine[0]
        if handle is not estimates[tid]:
            problems.append(f"update job of estimate {tid} carries another estimate's handle")
        if sorted(map(id, obs)) != sorted(id(o) for o in observations if o.target_id == tid):
            problems.append(f"update job of estimate {tid} does not carry exactly the step's observations of target {tid}")
    if len(updates) != len(targets):
        problems.append(f"{len(updates)} update jobs for {len(targets)} estimates")
    return problems


def o_assess(rep, nT, nS, policy, steps=1, via="assess"):
    targets = [11, 12, 13][:nT]
    sensors = [21, 22, 23][:nS]

    def run():
        return _run_assess(targets, sensors, policy, steps, via)

    res = explore(run, max_paths=20000, max_depth=400)
    rep.note(f"{policy} {nT}x{nS} steps={steps} via={via}: paths={len(res)}")
    orders_seen = set()
    classes = {"slewed-and-missed": [], "lowest-sensor-alone": [], "two-jobs": [], "shared-target": []}
    n = 0
    for r in res:
        if r.exc is not None:
            rep.error("exception", f"{r.exc!r}")
            continue
        eng, log, snaps = r.out
        goals = []
        for st, snap in enumerate(snaps):
            orders_seen.add(tuple(snap["order"]))
            D = snap["decision"]
            jobs = [(tid, sids, res_) for (s_, tid, sids, res_) in log["exec"] if s_ == st]
            # (a) decision rows drive the jobs: a job per target with >=1 tasked sensor, its sensors are the tasked ones
            for ti, tid in enumerate(targets):
                mine = [j for j in jobs if j[0] == tid]
                goals.append(z3.BoolVal(len(mine) <= 1))
                in_job = set(mine[0][1]) if mine else set()
                for si, sid in enumerate(sensors):
                    # the decision bit (a term over the visibility bits) must equal "sensor sid is in target tid's job"
                    goals.append(_tb(D[ti, si]) == z3.BoolVal(sid in in_job))
            # (b) exactly one record per tasked pair, never both, never duplicated; saved lists equal
            recs_obs, recs_miss = snap["observations"], snap["saved_miss"]
            for tid, sids, res_ in jobs:
                for sid in sids:
                    n_o = sum(1 for x in recs_obs if (x.target_id, x.sensor_id) == (tid, sid))
                    n_m = sum(1 for x in recs_miss if (x.target_id, x.sensor_id) == (tid, sid))
                    goals.append(z3.BoolVal(n_o + n_m == 1))
            # ... stated over the decision matrix too (the tasked pairs are the ones the engine publishes, whatever jobs it formed)
            for ti, tid in enumerate(targets):
                for si, sid in enumerate(sensors):
                    n_r = sum(1 for x in list(recs_obs) + list(recs_miss) if (x.target_id, x.sensor_id) == (tid, sid))
                    goals.append(z3.If(_tb(D[ti, si]), z3.BoolVal(n_r == 1), z3.BoolVal(n_r == 0)))
            want_obs = [o for _t, _s, res_ in jobs for o in res_.observations]
            want_miss = [o for _t, _s, res_ in jobs for o in res_.missed_observations]
            goals.append(z3.BoolVal(sorted(map(id, recs_obs)) == sorted(map(id, want_obs))))
            goals.append(z3.BoolVal(sorted(map(id, snap["saved_obs"])) == sorted(map(id, want_obs))))
            goals.append(z3.BoolVal(sorted(map(id, recs_miss)) == sorted(map(id, want_miss))))
            # (c) every tasked sensor's pointing state reflects its job (sensor tasked once), symbolic payload equality
            tasked_by = {}
            for tid, sids, res_ in jobs:
                for info in res_.sensor_info_list:
                    tasked_by.setdefault(info["sensor_id"], []).append(info)
            sc = snap["sensor_changes"]
            for sid, infos in tasked_by.items():
                if sid not in sc:
                    goals.append(z3.BoolVal(False))
                    continue
                alts = []
                for info in infos:
                    alts.append(z3.And(_tr(sc[sid]["time_last_tasked"]) == _tr(info["time_last_tasked"]),
                                       *[_tr(a) == _tr(b) for a, b in zip(sc[sid]["boresight"], info["boresight"])]))
                goals.append(z3.Or(*alts))
            goals.append(z3.BoolVal(set(sc) <= set(tasked_by)))
            # (d) reward-batch merge: each row is the result of its own estimate, whatever the order
            for ti, tid in enumerate(targets):
                rr = log["reward"][(st, tid)]
                for si in range(len(sensors)):
                    goals.append(_tb(snap["visibility"][ti, si]) == _tb(rr.visibility[si]))
            # (e) executors drained
            goals.append(z3.BoolVal(snap["unfinished"] == (0, 0, 0, 0)))
            if via == "scenario":
                # (f) after the real stepForward every tasked sensor *agent* carries the pointing state its job reported (observed or missed alike);
                #     a sensor no job reported on keeps the state it had before the step
                for sid in sensors:
                    bore, tlt = snap["pointing_after"][sid]
                    if sid in tasked_by:
                        goals.append(z3.Or(*[z3.And(_tr(tlt) == _tr(info["time_last_tasked"]), z3.BoolVal(len(bore) == len(info["boresight"])),
                                                    *[_tr(a_) == _tr(b_) for a_, b_ in zip(bore, info["boresight"])]) for info in tasked_by[sid]]))
                    else:
                        bore0, tlt0 = snap["pointing_before"][sid]
                        goals.append(z3.And(_tr(tlt) == _tr(tlt0), z3.BoolVal(len(bore) == len(bore0)), *[_tr(a_) == _tr(b_) for a_, b_ in zip(bore, bore0)]))
                # (g) the step's observations reach the update job of their own estimate, each once
                goals.append(z3.BoolVal(not _update_routing_problems(targets, snap["updates"], snap["estimates"], recs_obs)))
            # branch classes (vacuity guards below): conditions over the published decision matrix and the step's records
            observing = {x.sensor_id for x in recs_obs}
            col = lambda si: z3.Or(*[_tb(D[ti, si]) for ti in range(len(targets))])  # noqa: E731
            row = lambda ti: z3.Or(*[_tb(D[ti, si]) for si in range(len(sensors))])  # noqa: E731
            conds = {
                "slewed-and-missed": z3.Or(*[z3.And(col(si), z3.BoolVal(sid not in observing)) for si, sid in enumerate(sensors)]),
                "lowest-sensor-alone": z3.Or(*[z3.And(_tb(D[ti, 0]), *[z3.Not(_tb(D[ti, si])) for si in range(1, len(sensors))]) for ti in range(len(targets))]),
                "two-jobs": z3.Or(*([z3.And(row(a_), row(b_)) for a_ in range(len(targets)) for b_ in range(a_ + 1, len(targets))] or [z3.BoolVal(False)])),
                "shared-target": z3.Or(*([z3.And(_tb(D[ti, a_]), _tb(D[ti, b_])) for ti in range(len(targets)) for a_ in range(len(sensors)) for b_ in range(a_ + 1, len(sensors))]
                                         or [z3.BoolVal(False)])),
            }
            hints = {"slewed-and-missed": any(sid not in observing for (_t, sid) in {(x.target_id, x.sensor_id) for x in recs_miss}),
                     "lowest-sensor-alone": any(sids == [sensors[0]] for _t, sids, _r in jobs), "two-jobs": len(jobs) >= 2,
                     "shared-target": any(len(sids) >= 2 for _t, sids, _r in jobs)}
            for c in classes:
                classes[c].append((bool(hints[c]), conds[c], r.constraints))
        n += 1

        def inputs(m, r=r, log=log, snaps=snaps):
            d = {"targets": targets, "sensors": sensors, "policy": policy, "steps": steps, "via": via, "order": {}, "vis": {}, "met": {}, "observed": {}}
            for k in range(1, 1 + 2 * nT * steps):
                v = m.eval(z3.Int(f"finish_{k}"), model_completion=True)
                d["order"][str(k)] = v.as_long()
            K = eng.num_metrics
            for st in range(steps):
                for tid in targets:
                    d["vis"][f"{st}:{tid}"] = [bool(mval(m, z3.Bool(f"vis{st}_{tid}_{s}"))) for s in sensors]
                    d["met"][f"{st}:{tid}"] = _metric_values(targets, tid, len(sensors), K)
                    for s in sensors:
                        d["observed"][f"{st}:{tid}_{s}"] = bool(mval(m, z3.Bool(f"observed{st}_{tid}_{s}")))
            return d

        what = "one record per tasked pair, saved lists exact, sensor state from own job, reward rows from own estimate, executors drained"
        if via == "scenario":
            what = "after the real Scenario.stepForward: " + what + "; tasked sensor agents carry their job's boresight/time_last_tasked (observed or missed), untasked ones unchanged; update jobs get their own target's observations"
        rep.prove(f"{policy}[{nT}x{nS}]#{n}", z3.And(*goals), r.constraints, inputs=inputs, replay=replay_assess, sample=f"{policy} {nT}x{nS}: {what}")
    rep.note(f"distinct completion orders explored: {len(orders_seen)}; paths by class: { {c: sum(1 for h, _c, _k in v if h) for c, v in classes.items()} }")
    if len(orders_seen) < 2 and nT > 1:
        rep.error("reach", "only one completion order explored")
    # vacuity guards (reachability twins): each interesting tasking outcome is satisfiable on some explored path
    need = ["two-jobs"] if nT > 1 else []
    need += ["slewed-and-missed"]
    if nT > 1 and nS > 1:
        need += ["lowest-sensor-alone"]
    if policy != "greedy" and nS > 1:
        need += ["shared-target"]
    from symx.core import solve

    for c in need:
        cands = sorted(classes[c], key=lambda x: not x[0])[:200]
        for _hint, cond, cons in cands:
            if solve(list(cons) + [cond], 5000).status == "sat":
                rep.reachable(f"class:{c}", list(cons) + [cond])
                break
        else:
            rep.error(f"class:{c}", f"no explored path of class {c}")


def o_propagate_merge(rep):
    """PropagateRegistration.processResults writes only its own registrant; join applies each result once in any order."""
    import resonaate.parallel as P
    from resonaate.parallel import agent_propagation as AP

    class Agent:
        def __init__(self, i):
            self.simulation_id = i
            self.time = real(f"t_{i}")
            self.eci_state = reals(f"x_{i}", 2)
            self.writes = 0

        def __setattr__(self, k, v):
            if k in ("time", "eci_state") and "writes" in self.__dict__:
                self.__dict__["writes"] += 1
            self.__dict__[k] = v

    def run():
        rayst = RayStub()
        agents = [Agent(i) for i in range(3)]
        results = {}

        class Reg(AP.PropagateRegistration):
            def generateSubmission(self):
                return self._registrant.simulation_id

        def fn(aid):
            res = AP.PropagateResult(agent_id=aid, final_time=real(f"tf_{aid}"), prev_state=None, final_eci=reals(f"xf_{aid}", 2))
            results[aid] = res
            return res

        ex = AP.PropagateExecutor()
        with shadow(P, ray=rayst), shadow(AP, asyncPropagate=Remote(rayst, fn, "prop")):
            for a in agents:
                ex.enqueueJob(Reg(a))
            ex.join()
        return agents, results, rayst.order

    res = explore(run, max_paths=100)
    orders = set()
    for i, r in enumerate(res):
        if r.exc is not None:
            rep.error("exception", repr(r.exc))
            continue
        agents, results, order = r.out
        orders.add(tuple(order))
        goals = []
        for a in agents:
            goals.append(_tr(a.time) == _tr(results[a.simulation_id].final_time))
            goals += [_tr(x) == _tr(y) for x, y in zip(a.eci_state, results[a.simulation_id].final_eci)]
            goals.append(z3.BoolVal(a.writes == 2))
        rep.prove(f"propagate-merge#{i}", z3.And(*goals), r.constraints, sample="each propagation result is applied exactly once, to its own agent, in any completion order")
    rep.note(f"orders={len(orders)}")
    if len(orders) != 6:
        rep.error("reach", f"expected 6 completion orders of 3 jobs, got {len(orders)}")


REPLAYS = {}


def obligations(tier):
    obs = []
    cases = [("greedy", 2, 3, 1), ("allvisible", 2, 2, 1), ("greedy", 2, 2, 2)]
    if tier == "thorough":
        cases += [("greedy", 3, 3, 1), ("allvisible", 2, 3, 1)]
    for pol, nT, nS, steps in cases:
        name = f"assess-{pol}-{nT}x{nS}" + (f"-steps{steps}" if steps > 1 else "")
        obs.append(Ob(name, (lambda a: lambda rep: o_assess(rep, *a))((nT, nS, pol, steps)), f"assess() bookkeeping, {pol} {nT}x{nS}, {steps} step(s), all completion orders", 1500))
        REPLAYS[name] = replay_assess
    # the same step through the real Scenario.stepForward: pointing state of the sensor agents and routing of the observations after the step
    scen = [("greedy", 2, 2, 1), ("allvisible", 2, 2, 1)]
    if tier == "thorough":
        scen += [("greedy", 2, 3, 1), ("greedy", 2, 2, 2)]
    for pol, nT, nS, steps in scen:
        name = f"step-{pol}-{nT}x{nS}" + (f"-steps{steps}" if steps > 1 else "")
        obs.append(Ob(name, (lambda a: lambda rep: o_assess(rep, *a, via="scenario"))((nT, nS, pol, steps)),
                      f"Scenario.stepForward around assess(): sensor agents' pointing state and update routing, {pol} {nT}x{nS}, {steps} step(s), all completion orders", 1500))
        REPLAYS[name] = replay_assess
    obs.append(Ob("propagate-merge", o_propagate_merge, "propagation results applied once to their own agent in any order", 300))
    # the worker side of "exactly one record per tasked pair": the real asyncExecuteTasking body on symbolic sensor constraints
    # (obligation shared with C02: oracle O2-exactly-one / O3-pointing over the worker's returned lists)
    from harness import c02

    for ob in c02.obligations(tier):
        if ob.name.startswith("async-"):
            obs.append(Ob("worker-" + ob.name, ob.fn, "worker result: exactly one observation-or-miss per tasked pair; " + ob.desc, ob.timeout_s))
            if ob.name in c02.REPLAYS:
                REPLAYS["worker-" + ob.name] = c02.REPLAYS[ob.name]
    return obs


# `./check C08 --replay <file>` looks the replay function up by obligation name without asking for the obligations first
try:
    obligations("thorough")
except Exception:  # noqa: BLE001  (a broken neighbour harness must not hide this module's own replays)
    for _n in ("assess-greedy-2x3", "assess-allvisible-2x2", "assess-greedy-2x2-steps2", "assess-greedy-3x3", "assess-allvisible-2x3",
               "step-greedy-2x2", "step-allvisible-2x2", "step-greedy-2x3", "step-greedy-2x2-steps2"):
        REPLAYS.setdefault(_n, replay_assess)
