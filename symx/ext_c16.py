"""Engine helpers for the C16 UKF obligations (harness/c16.py).

Three stubs, each an ASSUMPTION of the harness that uses it:

``Atan2Cut``  numpy.arctan2 as a *cut*: the result is a fresh angle a in (-pi, pi] whose (cos, sin) pair is a fresh
              unit vector (ca, sa); what arctan2 means is kept as polynomial *side facts*
                  ca^2 + sa^2 = 1,   sa * x = ca * y,   ca * x + sa * y > 0        ((x, y) != (0, 0) is a side fact too)
              plus the sign/quadrant facts.  The side facts are NOT put on the path: path exploration (the branches
              of wrapAngle2Pi / wrapAngleNegPiPi on the returned angle) then only sees linear mixed integer/real
              constraints and every branch query is decided in milliseconds; the harness hands the side facts to the
              solver in exactly the (ring-identity) stages that need them.  Leaving facts out of a query is sound for
              `unsat`; a `sat` model found without them is only a candidate and is replayed like every other one.
              Two additions:
                * purity: the same argument terms give the same result term (a second run of the analysed code on the
                  same inputs produces syntactically identical terms);
                * single-direction recognition: when (x, y) is provably a positive multiple of the (cos, sin) pair of ONE
                  angle term u already known on the path (atan2(r sin u, r cos u), r > 0), the result is u modulo a whole
                  number of turns:  a = u - 2 pi j, j a fresh integer, and the (cos, sin) pair of a is that of u
                  (likewise a = u + pi - 2 pi j for a negative multiple).

``inv_explicit``  numpy.linalg.inv for 1x1 / 2x2 / 3x3 matrices as the adjugate formula (exact; det != 0 is a domain
              condition).  Unlike the fresh-matrix contract this is a function of its argument terms, so two runs of the
              filter whose innovation covariances are the same terms get the same gain terms.

``AngleField``  a duck-typed measurement function theta(state): an uninterpreted function realised as a memo table on the
              argument *terms* (same sigma-point terms -> same angle variable, new terms -> a fresh unconstrained angle),
              optionally displaced by a solver-chosen rotation c and a solver-chosen whole number of turns per point
              (theta_j + c + 2 pi k_j): "the same physical configuration reported in another representation".
"""
from __future__ import annotations

import numpy as np
import z3

from .core import PI_F, TWOPI_F, SReal, cur, free_vars, refute, rv, _real_term

PI, TWOPI = rv(PI_F), rv(TWOPI_F)


def _t(x):
    if isinstance(x, SReal):
        return x.t
    t = _real_term(x)
    if t is None:
        raise TypeError(f"not a scalar: {x!r}")
    return t


def _symbolic(x):
    if isinstance(x, SReal):
        return True
    if isinstance(x, np.ndarray) and x.dtype == object:
        return True
    return False


class Atan2Cut:
    def __init__(self, recognise=True, recognise_timeout_ms=3000):
        self.memo = {}
        self.calls = []  # dicts: a, c, s, x, y, facts, recognised
        self.keep = []
        self.recognise = recognise
        self.rt = recognise_timeout_ms

    # ---- helpers ---------------------------------------------------------------------------------
    @staticmethod
    def _known_angles(p):
        """[(angle term, cos, sin)] of the atomic angles registered on the path."""
        out = []
        seen = set()
        for term in p.keep:
            i = term.get_id()
            if i in seen:
                continue
            seen.add(i)
            cs = p.trig.get(("atom", i))
            if cs is not None and z3.is_const(cs[0]) and z3.is_const(cs[1]):
                out.append((term, cs[0], cs[1]))
        return out

    def side_facts(self):
        out = []
        for c in self.calls:
            out += c["facts"]
        return out

    def __call__(self, y, x):
        if not (_symbolic(y) or _symbolic(x)):
            return np.arctan2(y, x)
        if isinstance(y, np.ndarray) or isinstance(x, np.ndarray):
            raise TypeError("Atan2Cut: scalar arguments only")
        p = cur()
        yt, xt = z3.simplify(_t(y)), z3.simplify(_t(x))
        key = (yt.get_id(), xt.get_id())
        self.keep += [yt, xt]
        if key in self.memo:
            return self.memo[key]
        a = p.new("atan2")
        p.assume(z3.And(a > -PI, a <= PI))
        rec = None
        if self.recognise:
            names = free_vars(yt) | free_vars(xt)
            cands = [(u, c, s) for (u, c, s) in self._known_angles(p) if str(c) in names or str(s) in names]
            if len(cands) == 1:
                u, cu, su = cands[0]
                hyps = [h for h in p.assumes if free_vars(h) <= (names | {str(cu), str(su)})]
                for sgn in (1, -1):  # (x, y) = r (cos u, sin u)  or  r (cos(u + pi), sin(u + pi)),  r > 0
                    goal = z3.And(yt * cu == xt * su, sgn * (xt * cu + yt * su) > 0)
                    if refute(goal, hyps, self.rt).status == "unsat":
                        rec = (u, cu, su, sgn)
                        break
        if rec is not None:
            u, cu, su, sgn = rec
            j = p.new("aturn", "int")
            ca, sa = (cu, su) if sgn > 0 else (-cu, -su)
            p.assume(a == (u if sgn > 0 else u + PI) - TWOPI * z3.ToReal(j))
            p.trig[("atom", a.get_id())] = (ca, sa)
            facts = []
        else:
            ca, sa = p.new("cos"), p.new("sin")
            p.trig[("atom", a.get_id())] = (ca, sa)
            h = rv(PI_F / 2)
            facts = [ca * ca + sa * sa == 1, sa * xt == ca * yt, ca * xt + sa * yt > 0,
                     (yt > 0) == z3.And(a > 0, a < PI), (yt < 0) == (a < 0), z3.Implies(yt == 0, z3.If(xt > 0, a == 0, a == PI)),
                     (xt > 0) == z3.And(a > -h, a < h), (xt == 0) == z3.Or(a == h, a == -h)]
        p.keep.append(a)
        self.calls.append({"a": a, "c": ca, "s": sa, "x": xt, "y": yt, "facts": facts, "recognised": rec is not None})
        p.apps.setdefault("arctan2cut", []).append((a, (xt, yt)))
        r = SReal(a)
        self.memo[key] = r
        return r


def inv_explicit(M):
    """inverse by the adjugate formula (n <= 3); det != 0 becomes a domain condition of the path (through the division)."""
    M = np.asarray(M, dtype=object)
    n = M.shape[0]
    if M.shape != (n, n) or n > 3:
        raise np.linalg.LinAlgError(f"inv_explicit: shape {M.shape}")
    if n == 1:
        X = np.empty((1, 1), dtype=object)
        X[0, 0] = 1 / M[0, 0]
        return X
    if n == 2:
        det = M[0, 0] * M[1, 1] - M[0, 1] * M[1, 0]
        idet = 1 / det
        X = np.empty((2, 2), dtype=object)
        X[0, 0], X[0, 1], X[1, 0], X[1, 1] = M[1, 1] * idet, -M[0, 1] * idet, -M[1, 0] * idet, M[0, 0] * idet
        return X
    cof = np.empty((3, 3), dtype=object)
    for i in range(3):
        for j in range(3):
            r = [k for k in range(3) if k != i]
            c = [k for k in range(3) if k != j]
            minor = M[r[0], c[0]] * M[r[1], c[1]] - M[r[0], c[1]] * M[r[1], c[0]]
            cof[i, j] = minor if (i + j) % 2 == 0 else -minor
    det = M[0, 0] * cof[0, 0] + M[0, 1] * cof[0, 1] + M[0, 2] * cof[0, 2]
    idet = 1 / det
    X = np.empty((3, 3), dtype=object)
    for i in range(3):
        for j in range(3):
            X[i, j] = cof[j, i] * idet
    return X


class AngleField:
    """theta(state terms) as a memo table: an uninterpreted measurement function, evaluated by the real
    _calcMeasurementSigmaPoints once per sigma point."""

    def __init__(self, prefix="th", lo=None, hi=None, const=False):
        self.prefix = prefix
        self.table = {}
        self.order = []  # (state terms, angle variable)
        self.keep = []
        self.lo, self.hi = lo, hi
        self.const = const  # a measurement that does not depend on the state: one angle for every sigma point

    def __call__(self, state):
        ts = [z3.simplify(_t(v)) for v in np.asarray(state, dtype=object).ravel()]
        key = tuple(t.get_id() for t in ts)
        self.keep += ts
        if key not in self.table:
            if self.const and self.order:
                self.table[key] = self.order[0][1]
                self.order.append((ts, self.order[0][1]))
                return self.table[key]
            v = SReal(z3.Real(f"{self.prefix}_{len(self.order)}"))
            p = cur()
            if self.lo is not None:
                p.assume(v.t >= rv(self.lo))
            if self.hi is not None:
                p.assume(v.t < rv(self.hi))
            self.table[key] = v
            self.order.append((ts, v))
        return self.table[key]

    def index_of(self, state):
        ts = [z3.simplify(_t(v)) for v in np.asarray(state, dtype=object).ravel()]
        key = tuple(t.get_id() for t in ts)
        for i, (t0, _v) in enumerate(self.order):
            if tuple(t.get_id() for t in t0) == key:
                return i
        return None


# -----------------------------------------------------------------------------------------------------------------
# linear slicing
# -----------------------------------------------------------------------------------------------------------------
def _isnum(e):
    return z3.is_rational_value(e) or z3.is_int_value(e)


def is_linear(t):
    """No product of two non-constant terms, no division/modulo by a non-constant, no power."""
    stack, seen = [t], set()
    while stack:
        e = stack.pop()
        i = e.get_id()
        if i in seen:
            continue
        seen.add(i)
        if z3.is_app(e):
            k = e.decl().kind()
            ch = e.children()
            if k == z3.Z3_OP_MUL and sum(0 if _isnum(c) else 1 for c in ch) > 1:
                return False
            if k in (z3.Z3_OP_DIV, z3.Z3_OP_IDIV, z3.Z3_OP_MOD, z3.Z3_OP_REM) and not _isnum(ch[1]):
                return False
            if k == z3.Z3_OP_POWER:
                return False
            stack.extend(ch)
    return True


def linear_part(constraints):
    return [c for c in constraints if is_linear(c)]


from . import core as _core  # noqa: E402


class LinPath(_core.Path):
    """Path whose branch-feasibility queries only use the *linear* constraints of the path.

    Dropping constraints over-approximates feasibility: a branch the full constraint set excludes may be explored
    (its obligations are then proved on a superset of the real inputs, or, at worst, come back undecided); a branch
    that is feasible is never lost.  Used where the branch conditions are comparisons of angles (linear mixed
    integer/real) while the path also carries polynomial contracts (sqrt, reciprocals, determinants) over other
    variables, which make z3 answer `unknown` after the full branch timeout."""

    def _query(self, cond):
        import time

        sol = z3.Solver()
        sol.set("timeout", self.branch_timeout_ms)
        sol.add(*linear_part(self.constraints()))
        sol.add(cond)
        t0 = time.time()
        r = sol.check()
        _core.STATS.solver_s += time.time() - t0
        _core.STATS.branch_queries += 1
        m = sol.model() if str(r) == "sat" else None
        if str(r) == "unknown":
            _core.STATS.unknown += 1
        return str(r) != "unsat", m


def explore_lin(fn, max_paths=256, max_depth=64, branch_timeout_ms=5000, catch=(Exception,), recip=False):
    """symx.core.explore with LinPath."""
    results = []
    stack = [[]]
    while stack:
        prefix = stack.pop()
        if len(results) >= max_paths:
            raise _core.UnwindingFailure(f"more than {max_paths} paths")
        p = LinPath(prefix, branch_timeout_ms)
        p.recip = recip
        _core._CUR[0] = p
        try:
            try:
                out = fn()
                res = _core.PathResult(p, out=out)
            except _core.PathAbort:
                res = None
            except catch as e:
                res = _core.PathResult(p, exc=e)
        finally:
            _core._CUR[0] = None
            p.solver = None
        if len(p.decisions) > max_depth:
            raise _core.UnwindingFailure(f"branch depth > {max_depth}")
        for alt in p.pending:
            stack.append(alt)
        if res is not None:
            results.append(res)
            _core.STATS.paths += 1
    return results


class ResidualCut:
    """resonaate.physics.maths.residual as its contract (the contract itself is what obligations O2 prove of the real
    function for all reals): angular -> fresh r in (-pi, pi] with r = a - b - 2 pi n, n a fresh integer; otherwise a - b.
    Pure: the same argument terms give the same result term."""

    def __init__(self):
        self.memo = {}
        self.keep = []
        self.calls = []  # (r, n, a, b)
        self.by_id = {}

    def __call__(self, v1, v2, angular):
        if isinstance(angular, (_core.SBool,)):
            raise _core.Unsupported("symbolic angular flag")
        if not (isinstance(v1, SReal) or isinstance(v2, SReal)):
            from resonaate.physics import maths as M

            return M.wrapAngleNegPiPi(M.wrapAngle2Pi(v1) - M.wrapAngle2Pi(v2)) if angular else v1 - v2
        if not angular:
            return v1 - v2
        p = cur()
        a, b = z3.simplify(_t(v1)), z3.simplify(_t(v2))
        key = (a.get_id(), b.get_id())
        self.keep += [a, b]
        if key in self.memo:
            return self.memo[key]
        r = p.new("res")
        n = p.new("rturn", "int")
        p.assume(z3.And(r > -PI, r <= PI, r == a - b - TWOPI * z3.ToReal(n)))
        self.calls.append((r, n, a, b))
        self.by_id[r.get_id()] = (r, n, a, b)
        self.memo[key] = SReal(r)
        return self.memo[key]


# -----------------------------------------------------------------------------------------------------------------
# rational identities: abstraction of divisions
# -----------------------------------------------------------------------------------------------------------------
class DivAbstraction:
    """Rewrites every division by a non-constant term  num / den  into  num * q_den  with one fresh variable per
    *class* of divisors; two divisors are in one class when the solver proves them equal as polynomials (pure ring
    identity).  An identity that holds for every value of the q's holds in particular for q = 1/den, so proving the
    rewritten (polynomial) goal proves the original rational one wherever all divisors are non-zero."""

    def __init__(self, prefix="q", eq_timeout_ms=5000):
        self.prefix = prefix
        self.classes = []  # (representative divisor (rewritten), q variable)
        self.cache = {}
        self.keep = []
        self.eq_timeout_ms = eq_timeout_ms
        self.eq_queries = 0

    def _qvar(self, den):
        for rep_, q in self.classes:
            if rep_.get_id() == den.get_id():
                return q
        for rep_, q in self.classes:
            d = z3.simplify(rep_ - den, som=True)
            if z3.is_rational_value(d) and d.numerator_as_long() == 0:
                return q
            self.eq_queries += 1
            if refute(rep_ == den, [], self.eq_timeout_ms).status == "unsat":
                return q
        q = z3.Real(f"{self.prefix}!{len(self.classes)}")
        self.classes.append((den, q))
        return q

    def rewrite(self, e):
        i = e.get_id()
        if i in self.cache:
            return self.cache[i]
        self.keep.append(e)
        if not z3.is_app(e) or e.num_args() == 0:
            r = e
        else:
            ch = [self.rewrite(c) for c in e.children()]
            k = e.decl().kind()
            if k == z3.Z3_OP_DIV and not _isnum(ch[1]):
                r = ch[0] * self._qvar(ch[1])
            elif all(a.get_id() == b.get_id() for a, b in zip(ch, e.children())):
                r = e
            elif k == z3.Z3_OP_ADD:
                r = z3.Sum(ch)
            elif k == z3.Z3_OP_MUL:
                r = z3.Product(ch)
            elif k == z3.Z3_OP_AND:
                r = z3.And(*ch)
            elif k == z3.Z3_OP_OR:
                r = z3.Or(*ch)
            else:
                r = e.decl()(*ch)
        self.cache[i] = r
        return r

    def definitions(self):
        """q * den == 1 for every class (hypotheses for provers that need them)."""
        return [q * d == 1 for d, q in self.classes]


# -----------------------------------------------------------------------------------------------------------------
from .stubs import CholeskyStub as _CholeskyStub  # noqa: E402
from .core import terms as _terms  # noqa: E402


class MemoChol(_CholeskyStub):
    """CholeskyStub whose proofs `M == L L^T` are remembered across the re-executions of path exploration: the key is the
    identity of the z3 terms of M, of every registered factor and of every assumption on the path at the time of the
    call (all kept alive so that term ids are not recycled), i.e. exactly the same solver question is not asked twice.
    A failed attempt is retried once (the linearisation prover's z3 back end occasionally times out on a question it
    answers in under a second at the next attempt)."""

    CACHE = {}

    def __call__(self, M):
        M = np.asarray(M, dtype=object)
        p = cur()
        mt = _terms(M)
        ft = [t for L in self.factors for t in _terms(L)]
        key = (tuple(t.get_id() for t in mt), tuple(t.get_id() for t in ft), tuple(a.get_id() for a in p.assumes))
        hit = MemoChol.CACHE.get(key)
        if hit is not None:
            self.calls.append(("memo", M.shape))
            return self.factors[hit[0]]
        L = None
        # first attempt: only the hypotheses over the variables of the goal (the sqrt contract of gamma), nlsat: milliseconds
        for Lf in self.factors:
            if Lf.shape != M.shape:
                continue
            goal = z3.And(*[a == b for a, b in zip(mt, _terms(Lf.dot(Lf.T)))])
            if refute(goal, _core.slice_for(goal, p.assumes), 10000).status == "unsat":
                self.calls.append(("matched", M.shape))
                L = Lf
                break
        if L is None:
            try:
                L = super().__call__(M)
            except np.linalg.LinAlgError:
                L = super().__call__(M)
        idx = next(i for i, Lf in enumerate(self.factors) if Lf is L)
        MemoChol.CACHE[key] = (idx, mt, ft, list(p.assumes))
        return L
