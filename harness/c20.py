"""C20 - Lambert solutions and orbit determination reproduce the arc they were given (reduced).

What is decided here (solver verdicts over the real code, Real-ideal arithmetic):

  O1a  razel2sez o (getRange, getElevation, getAzimuth) is the identity on SEZ positions (every off-zenith branch of getAzimuth)
  O1b  radarObs2eciPosition inverts the real measurement chain getSlantRangeVector -> range/az/el (frames, site, date)
  O1c  ... and does so for every one of several consecutive observations by ONE sensor whose state changes from epoch to epoch (a radar on
       a spacecraft): nothing computed for an earlier observation of that sensor is carried into a later conversion
  O2   the Lagrange step _calculateVelocities
  O3s/O3l  lambertUniversal (short / long way), real code end to end for the first bisection evaluation: at every exit the
       returned velocities put r1 and r2 on ONE Keplerian orbit (equal angular momentum, energy and eccentricity vectors)
       that is traversed in the requested sense; no exception off the 180 deg neighbourhood; every division / root is defined
  O3any  the same for ANY value the iteration may hold at exit (providers for the iterate), up to 2 bisection steps
  O3b  the bisection of lambertUniversal on psi: with the time comparisons coming out as a monotone time-of-flight function dictates, the k-th
       psi evaluated is within 4 pi^2 / 2^(k-1) of the psi of the arc, for every elliptic arc of less than one revolution with e <= 0.7 (both senses);
       y and the time are evaluated with the Stumpff pair of that same psi
  O6s/O6l  lambertBattin after its iteration (helpers replaced by providers): the conic selected from the semi-major axis (alpha / beta branch)
       on the side of the minimum-energy time that Lambert's theorem decides without a transcendental comparison; r1 (1 - f) = r2 (1 - g_dot)
  O4   determineTransferDirection is the half-period test of the circular orbit through the position
  O5a  LambertIOD.determineNewEstimateState over solver-chosen database contents: which stored observation is used,
       what the Lambert solver is called with, how the solution is assembled, when it refuses
  O5b  ... and it does not refuse an arc shorter than 40 % of the period (the property's IOD clause)

The time-of-flight part of the Lambert problem (Stumpff functions, convergence of the bisection in floats, Battin's continued fractions and cubic)
and Kepler propagation are transcendental and OUTSIDE (see OUTSIDE).
"""
from __future__ import annotations

import math

import numpy as np
import z3

from symx.core import (PI_F, PathAbort, SBool, SInt, SReal, Unsupported, _real_term, assume, boolean, const_array, cur, declare_angle, eq_arrays, explore,
                       free_vars, marray, mfloat, mval, real, reals, refute, rv, single_path, trig)
from symx.runner import Ob
from symx.stubs import shadow, sym_array

ID = "C20"
TECHNIQUE = ("symbolic execution of the real measurement-inversion, Lambert and IOD functions on z3 Real proxies; the two position vectors of a "
             "Lambert problem are abstract vectors over the basis (r1, r2, r1 x r2) with a symbolic Gram matrix, so every norm/dot/cross the real "
             "code takes is a scalar term; trigonometry by the angle algebra; the database of the IOD pipeline is a stub whose rows are solver "
             "variables and on which the REAL SQLAlchemy where-clause is evaluated; every obligation is an SMT query (unsat = holds for all inputs "
             "in the bounds), counterexamples are replayed on the un-shadowed float code (IOD: on a real in-memory ResonaateDatabase)")
FLOAT_SEMANTICS = "Real-ideal (rounding outside the claim); replays compare in doubles with relative tolerances"
ENCODED = [
    "resonaate.physics.transforms.methods:radarObs2eciPosition", "resonaate.physics.transforms.methods:razel2sez",
    "resonaate.physics.transforms.methods:spherical2cartesian", "resonaate.physics.transforms.methods:getSlantRangeVector",
    "resonaate.physics.transforms.methods:eci2ecef", "resonaate.physics.transforms.methods:ecef2eci",
    "resonaate.physics.transforms.methods:ecef2sez", "resonaate.physics.transforms.methods:sez2ecef",
    "resonaate.physics.transforms.methods:sez2eci",
    "resonaate.physics.measurements:getRange", "resonaate.physics.measurements:getAzimuth", "resonaate.physics.measurements:getElevation",
    "resonaate.physics.maths:wrapAngle2Pi", "resonaate.physics.maths:fpe_equals", "resonaate.physics.maths:rot2", "resonaate.physics.maths:rot3",
    "resonaate.physics.orbit_determination.lambert:lambertUniversal", "resonaate.physics.orbit_determination.lambert:_calculateVelocities",
    "resonaate.physics.orbit_determination.lambert:lambertBattin",
    "resonaate.physics.orbit_determination.lambert:_calcYNew", "resonaate.physics.orbit_determination.lambert:determineTransferDirection",
    "resonaate.physics.orbits.utils:universalC2C3", "resonaate.physics.orbits.kepler:keplerThirdLaw",
    "resonaate.physics.orbits.utils:getSemiMajorAxis", "resonaate.physics.orbits.utils:getPeriod", "resonaate.physics.orbits.utils:getMeanMotion",
    "resonaate.estimation.initial_orbit_determination:LambertIOD.determineNewEstimateState",
    "resonaate.estimation.initial_orbit_determination:LambertIOD.getPreviousObservations",
    "resonaate.estimation.initial_orbit_determination:LambertIOD._determineFinalState",
    "resonaate.estimation.initial_orbit_determination:InitialOrbitDetermination.checkSinglePass",
]
BOUNDS = {
    "O1a": "every SEZ slant-range 6-vector with non-zero position (all six paths of getAzimuth / wrapAngle2Pi)",
    "O1b": "every sensor and target ECI 6-state, every pair of orthogonal reduction matrices (polar motion, precession-nutation-rotation), every site latitude/longitude",
    "O1c": "2 (quick) / 3 (thorough: O1c3) consecutive observations with one sensor id; every sensor and target ECI 6-state per observation (independent of each other), every pair of orthogonal "
           "reduction matrices per epoch, every latitude/longitude per distinct sensor ECEF position",
    "O2": "every r1, r2 in R^3 and every f, g != 0, g_dot",
    "O3s/O3l": "every pair of linearly independent positions (transfer angle not 0/180/360 deg), any radii > 0, time of flight >= 1 s, transfer_method +1 / -1 (one obligation each), "
               "max_step = 1 (the first bisection evaluation, psi = 0, real universalC2C3); the no-exception claim additionally needs 1 + cos(dnu) >= 1e-6",
    "O3any": "same positions/senses; the iterate y and the Stumpff pair (c2 > 0, c3) are arbitrary values per evaluation; max_step <= 2 (quick) / 3 (thorough), at most 5 / 6 evaluations of y on a path",
    "O3b": "psi* (the arc's universal variable, (eccentric anomaly swept)^2) in [0.01, 21.5] on the short way and [3.0, 38.5] on the long way: what an elliptic arc of less than one revolution with "
           "e <= 0.7 can have ((2 pi - 2 acos 0.7)^2 = 22.0, (2 acos 0.7)^2 = 2.53, 4 pi^2 = 39.5; margins for the replay); same positions as O3*; time of flight >= 1 s; the iterate y > 0 and the "
           "Stumpff pair (c2 > 0, c3) are arbitrary values per evaluation; max_step = 5 (quick) / 7 (thorough)",
    "O6s/O6l": "any radii > 0, any transfer angle in (0, 180) resp. (180, 360) deg (given by its quarter angle), time of flight >= 1 s; the results of the iteration helpers (xi; x, y > 0) are arbitrary; "
               "max_step = 1 (the post-processing does not depend on the number of iterations); elliptic outcome (semi-major axis > 0); the conic claim on the short way for time of flight > pi sqrt(a_min^3/mu), "
               "on the long way for time of flight < pi sqrt(a_min^3/mu) (a_min = s/2)",
    "O4": "every position with 6378 km <= |r| <= 500000 km (3-vector, and the 6-vector AdaptiveFilter._calculateDeltaV passes with speed <= 12 km/s), every transit time > 0",
    "O5a": "2 (quick) / 3 (thorough) stored observations with solver-chosen target id (this RSO / another), sensor type (optical / radar), epoch (any, distinct, before now); "
           "0..2 current observations (optical first, radar second or absent); any detection time < current time; any positions with |p| >= 6378 km",
    "O5b": "one stored radar observation of this RSO in the window, one current radar observation; |p1|, |p2| within 1 % of each other (near-circular), 6378 km <= |p2| <= 500000 km",
}
OUTSIDE = [
    "time of flight: that the returned arc takes exactly delta_time (Stumpff functions c2(psi), c3(psi) are transcendental; convergence of the bisection within max_step)",
    "lambertBattin: the iteration itself (l, m, continued fractions xi / kappa, cubic: replaced by providers in O6), the value of g = dt - sqrt(a^3/mu)(dE - sin dE), and the choice of the conic "
    "for times of flight BETWEEN the minimum-energy time and pi sqrt(a_min^3/mu) (short way: t_min < dt <= pi sqrt(a_min^3/mu); long way: pi sqrt(a_min^3/mu) <= dt < t_min): there the comparison "
    "dt > sqrt(a_min^3/mu)(pi - beta + sin beta) is transcendental in beta (a wrong sign of sin beta in t_min would not be seen); hyperbolic branch (arcsinh / cosh)",
    "lambertUniversal: that the time comparison is monotone in psi is a contract of O3b (true of the universal time-of-flight function, not proved here); convergence in doubles within max_step; "
    "the y < 0 inner loop is not part of O3b (O3any explores it); hyperbolic psi* < 0",
    "lambertGauss (not named by the property)",
    "Kepler propagation of the arc (solveKeplerProblemUniversal: Newton iteration on the universal Kepler equation)",
    "lambertUniversal beyond the first bisection step with the real _calcYNew (the psi_low += 0.001 psi_up inner loop unrolls ~1000 times); covered for arbitrary iterate values by O3any / O3b instead",
    "ecef2lla closed form (a functional stub: same ECEF position -> same latitude/longitude), numeric content of the FK5 reduction (orthogonal-matrix cut, orthogonality proved in C04-O4a)",
    "julianDateToDatetime / ScenarioTime.convertToJulianDate rounding (C05); in O1b the observation's Julian date maps to the epoch the measurement was taken at",
    "targets within 1e-15 rad of the zenith (getAzimuth's documented edge case, azimuth taken from the velocity): O1a proves only the vertical component and the zero rates on that branch; the horizontal offset there is below 1e-15 x range by the branch condition",
    "floating-point rounding; hyperbolic transfers (arcsinh/cosh not in the angle algebra); determineTransferDirection's return value 0 (transit time exactly half the period)",
    "SQLite's evaluation of the query (the where-clause the real code builds is evaluated by the harness on symbolic rows; replays run it on a real in-memory database)",
]
ASSUMPTIONS = [
    "sqrt(x) is the non-negative root; arcsin/arctan2 are modelled by their (cos, sin) pair and range (angle algebra); pi is the code's double constant",
    "O1b: ReductionParams.build(date) -> symbolic orthogonal rot_w, rot_pnr (and transposes) per date token; ecef2lla -> functional stub; "
    "julianDateToDatetime(JulianDate(obs.julian_date)) -> the date token of the measurement; razel2sez(range, el, az, 0, 0, 0) called with the observation's own three "
    "values returns the SEZ vector they were measured from (cut justified by O1a; any other argument pattern runs the real razel2sez)",
    "O1c: as O1b, per observation: its own date token, reduction matrices and ecef2lla value; the stub Observation carries every column of the real class (one sensor_id / sensor_type for all)",
    "O3b: _calcYNew -> provider of an arbitrary y > 0, universalC2C3 -> provider of arbitrary (c2 > 0, c3); CONTRACT (monotone time of flight): with t_k = (x^3 c3 + A sqrt(y))/sqrt(mu), "
    "x = sqrt(y/c2) (the universal time-of-flight equation, Vallado Alg. 58) formed by the harness from the provider's values and the A handed to the helper, t_k <= delta_time <=> psi_k <= psi*; "
    "A = tm sqrt(r1 r2 (1 + cos dnu)) is proved; psi* of an elliptic arc is (eccentric anomaly swept)^2",
    "O6*: the transfer angle is 4 q with q in (0, pi/2) an angle variable ((cos q, sin q) on the unit circle, both > 0; sin 4q > 0 and 4q < pi on the short way, sin 4q < 0 and 4q > pi on the long way); "
    "r1.r2 = r1 r2 cos 4q, |r1 x r2| = tm r1 r2 sin 4q; arctan2 / wrapAngle2Pi in the lambert module -> CUT: wrapAngle2Pi(arctan2(y, x)) = 4 q, with y = sin 4q and x = cos 4q PROVED per path "
    "(wrapAngle2Pi itself is decided in O1a / C04); _battinGetXi, _cubicSplineBattin -> providers of arbitrary values (y > 0); _calculateVelocities -> recording wrapper around the real function (f, g, g_dot "
    "are observed where they cross this helper's interface; O2 covers the helper); oracle quantities (Battin eq. 7.102 / Vallado Alg. 59) formed by the harness over the same inputs: chord c, semi-perimeter s, "
    "r_op = (r1 + r2 + 2 sqrt(r1 r2) cos(dnu/2))/4, semi-major axis a = mu dt^2 / (16 r_op^2 x y^2), alpha0 = 2 arcsin sqrt(s/2a), beta0 = 2 arcsin sqrt((s-c)/2a); LAMBERT'S THEOREM: minimum-energy time "
    "= sqrt(a_min^3/mu)(pi -/+ (beta_m - sin beta_m)) lies below (short way) / above (long way) pi sqrt(a_min^3/mu); TRANSCENDENTAL AXIOMS, instantiated for the arcsin applications of the path: "
    "arcsin u >= u and sin 2t <= 2t for u, t >= 0; proofs use cone-of-influence slicing of the path condition (sound for unsat), counterexample candidates are searched at a pinned transfer angle "
    "(4 atan(5/12), 4 atan(12/5)) and replayed",
    "O3*: r1, r2 are abstract vectors a r1 + b r2 + c (r1 x r2) with Gram matrix (n1^2, d, n2^2), |r1 x r2| = X > 0, X^2 = n1^2 n2^2 - d^2; "
    "numpy norm/dot/cross in the lambert module are shadowed by the exact bilinear operations of that representation; math.sqrt -> sqrt contract",
    "O3any: _calcYNew -> provider of an arbitrary real (long way: arbitrary positive real, as the real helper is positive there), universalC2C3 -> provider of arbitrary (c2 > 0, c3); "
    "paths needing more evaluations than the bound are cut (bounded unrolling); divisions and roots are taken as defined there (an arbitrary iterate can be 0; definedness is proved "
    "for the real helper in O3s/O3l)",
    "O5*: getDBConnection -> stub database holding solver-chosen rows, the REAL Query's where-clause (target_id ==, julian_date <=, >=, sensor_type !=) and ORDER BY are evaluated "
    "on them; ScenarioTime(t).convertToJulianDate(jd0) -> jd0 + t/86400 exactly; radarObs2eciPosition -> provider of one symbolic 3-vector per observation (as the real "
    "function returns, see O1); orbit_determination_method -> recording provider of symbolic velocities; stored observations are strictly older than the current time "
    "(the code's own note: the current observation is not yet in the database)",
    "O5b/O4 oracle: the period of the circular orbit of radius r is 2 pi sqrt(r^3/mu) with Earth.mu; the code's keplerThirdLaw uses g R^2 instead of mu (0.06 % shorter), tolerated by a 1e-3 band",
]
LEVEL_TEXT = ("Bounded symbolic verification of the algebraic content: the observation inversion is proved exact for all geometries; for the universal-variable solver it is proved "
              "that at every exit the two end states lie on one Keplerian orbit traversed in the requested sense, for all positions and both senses; the IOD pipeline is "
              "decided over all database contents within the size bound. The transcendental time-of-flight equation and the Battin iteration are outside.")
LEVEL_NOTE = ("Real arithmetic; trig via angle algebra; abstract-vector representation of (r1, r2); FK5 content, ecef2lla, time-of-flight values / convergence in doubles, the Battin iteration (continued fractions, cubic) and "
              "Kepler propagation are outside; O5b reports the single-pass gate defect (3-vector handed to checkSinglePass) until it is repaired.")

I3 = const_array(np.eye(3))
TOL_T = 1e-3  # relative band around the circular period (keplerThirdLaw uses g R^2 for mu)


def _tag(r):
    return "".join("T" if d else "F" for d in r.path.decisions)


def _S(x):
    if isinstance(x, SReal):
        return x
    t = _real_term(x)
    if t is None:
        raise TypeError(f"not a scalar: {type(x)}")
    return SReal(t)


def ssqrt(x):
    """math.sqrt that keeps proxies (the lambert module imports math.sqrt)."""
    if isinstance(x, (SReal, SInt)):
        return x.sqrt()
    return math.sqrt(x)


def _prove_eq(rep, label, goal, robust, cons, timeout_ms=30000, sample=None, **kw):
    """Exact identity first (fast when it holds).  When it does not hold exactly, the question becomes: is there a
    violation larger than the stated margin (`robust`)?  That model replays robustly in doubles; if there is none the
    identity holds up to the margin, which is what is then recorded."""
    if _done(rep):
        return None
    v = refute(goal, cons, min(timeout_ms, 15000))
    if v.status == "unsat":
        rep._item(label, "prove", v)
        if sample is not None:
            rep.sample({"obligation": f"{rep.ob}:{label}", "verdict": v.status, "what": sample})
        return True
    return rep.prove(label + "[margin]", goal, list(cons) + [robust], timeout_ms=timeout_ms, sample=sample, **kw)


def _done(rep):
    """A reproduced violation ends the obligation: the remaining items would only repeat it on the other paths (and cost solver time)."""
    return bool(rep.violations)


def _off(a, b, m):
    """|a - b| > m as a z3 term."""
    return z3.Or(a - b > m, b - a > m)


# =====================================================================================
# O1a  razel2sez inverts range / azimuth / elevation
# =====================================================================================
def replay_sez(d):
    from resonaate.physics import measurements as ms
    from resonaate.physics.transforms import methods as T

    s = np.array(d["sez"], dtype=float)
    rng, az, el = float(ms.getRange(s)), float(ms.getAzimuth(s)), float(ms.getElevation(s))
    back = T.razel2sez(rng, el, az, 0, 0, 0)
    rho = math.sqrt(s[:3] @ s[:3])
    zen = abs(el - math.pi / 2) < 1e-15
    err_z = abs(back[2] - s[2])
    err = float(np.abs(back[:3] - s[:3]).max())
    bad = err_z > 1e-9 * rho or (not zen and err > 1e-9 * rho) or float(np.abs(back[3:]).max()) > 0
    return bool(bad), {"range": rng, "az": az, "el": el, "back": back, "max_err": err, "zenith_branch": zen}


def o1a_sez(rep):
    from resonaate.physics import measurements as ms
    from resonaate.physics.transforms import methods as T

    def run():
        s = reals("s", 6)
        assume((s[0] * s[0] + s[1] * s[1] + s[2] * s[2]).t > 0)
        rng, az, el = ms.getRange(s), ms.getAzimuth(s), ms.getElevation(s)
        with shadow(T, array=sym_array):
            back = T.razel2sez(rng, el, az, 0, 0, 0)
        zen = ms.fpe_equals(el, ms.PI / 2)
        return s, back, zen

    res = explore(run, max_paths=64)
    rep.note(f"paths={len(res)}")
    S = [z3.Real(f"s_{i}") for i in range(6)]
    inputs = lambda m: {"sez": [mfloat(m, x) for x in S]}  # noqa: E731
    # counterexamples are asked at human scale so that they replay in doubles
    scale = [z3.And(x >= -100000, x <= 100000) for x in S] + [S[0] * S[0] + S[1] * S[1] + S[2] * S[2] >= 1]
    n_zen = n_reg = 0
    for r in res:
        if r.exc is not None:
            rep.error("exception", repr(r.exc))
            continue
        if _done(rep):
            return
        s, back, zen = r.out
        tag = _tag(r)
        cons = r.constraints
        if rep.feasible(f"path-{tag}", cons) is None:
            continue
        zt = zen.t if isinstance(zen, SBool) else z3.BoolVal(bool(zen))
        is_zen = refute(zt, cons, 10000).status == "unsat"  # the path lies wholly in the zenith branch
        m = rv(1e-6)
        kw = dict(inputs=inputs, replay=replay_sez)
        _prove_eq(rep, f"z[{tag}]", back[2].t == s[2].t, z3.And(_off(back[2].t, s[2].t, m), *scale), cons, sample="razel2sez(range, el, az)[2] = z", **kw)
        rep.prove(f"rates-zero[{tag}]", z3.And(*[back[i].t == 0 for i in (3, 4, 5)]), cons, sample="zero rates give zero SEZ velocity", **kw)
        if is_zen:
            n_zen += 1
            continue
        n_reg += 1
        for i in (0, 1):
            _prove_eq(rep, f"xy[{i}][{tag}]", z3.Implies(z3.Not(zt), back[i].t == s[i].t), z3.And(z3.Not(zt), _off(back[i].t, s[i].t, m), *scale), cons,
                      sample="razel2sez(getRange(s), getElevation(s), getAzimuth(s)) = s (position), off the zenith", **kw)
    if n_reg < 2 or n_zen < 1:
        rep.error("reach", f"expected the regular (wrapped and unwrapped azimuth) and the zenith branch: regular={n_reg} zenith={n_zen}")


# =====================================================================================
# O1b  radarObs2eciPosition inverts the measurement chain (frames, site, date)
# =====================================================================================
class _Token:
    """Stands for a datetime."""

    def __init__(self, name):
        self.name = name


def _real_obs(sensor, target, when):
    """A real Observation from the real measurement chain (noise free)."""
    from resonaate.common.labels import SensorLabel
    from resonaate.data.observation import Observation
    from resonaate.physics import measurements as ms
    from resonaate.physics.time.stardate import JulianDate, datetimeToJulianDate, julianDateToDatetime
    from resonaate.physics.transforms import methods as T

    jd = JulianDate(when) if not hasattr(when, "year") else datetimeToJulianDate(when)
    utc = julianDateToDatetime(JulianDate(jd))
    sez = T.getSlantRangeVector(np.asarray(sensor, dtype=float), np.asarray(target, dtype=float), utc)
    meas = ms.Measurement.fromMeasurementLabels(["azimuth_rad", "elevation_rad", "range_km", "range_rate_km_p_sec"], np.eye(4))
    return Observation(julian_date=jd, sensor_id=300000, target_id=10001, sensor_type=SensorLabel.ADV_RADAR, sensor_eci=np.asarray(sensor, dtype=float),
                       measurement=meas, azimuth_rad=float(ms.getAzimuth(sez)), elevation_rad=float(ms.getElevation(sez)), range_km=float(ms.getRange(sez)),
                       range_rate_km_p_sec=float(ms.getRangeRate(sez)))


def replay_obs(d):
    from resonaate.physics.transforms import methods as T

    sensor, target = np.array(d["sensor"], dtype=float), np.array(d["target"], dtype=float)
    worst, out = 0.0, {}
    for jd in (2458256.639664352, 2459304.374333333):  # two epochs with non-zero seconds
        obs = _real_obs(sensor, target, jd)
        pos = T.radarObs2eciPosition(obs)
        e = float(np.abs(pos - target[:3]).max())
        out[str(jd)] = e
        worst = max(worst, e)
    sc = max(1.0, float(np.abs(sensor[:3]).max()), float(np.abs(target[:3]).max()))
    return worst > 1e-7 * sc, {"max_abs_error_km": out}


def replay_obs_seq(d):
    """Consecutive observations taken by ONE sensor (same sensor_id) whose state changes between the epochs, converted in the order taken."""
    from resonaate.physics.transforms import methods as T

    sensors, targets = [np.array(x, dtype=float) for x in d["sensors"]], [np.array(x, dtype=float) for x in d["targets"]]
    jd0 = 2459304.374333333
    out, worst = [], 0.0
    obs = [_real_obs(sv, tv, jd0 + 120.0 * k / 86400.0) for k, (sv, tv) in enumerate(zip(sensors, targets))]
    for k, ob in enumerate(obs):
        pos = T.radarObs2eciPosition(ob)
        e = float(np.abs(pos - targets[k][:3]).max())
        sc = max(1.0, float(np.abs(sensors[k][:3]).max()), float(np.abs(targets[k][:3]).max()))
        out.append({"observation": k, "max_abs_error_km": e})
        worst = max(worst, e / sc)
    return worst > 1e-7, {"conversions_in_order": out}


class _Obs1:
    """Stands for a stored radar Observation row: every column the real class has."""

    id = None  # noqa: A003
    sensor_id = 300077  # not an identifier the replays use: nothing a symbolic run leaves in module-level state may reach a replay
    target_id = 10001


def _o1_frames(rep, nobs):
    """`nobs` observations taken one after the other by the same sensor (same sensor_id / type) at different epochs, each with
    its own sensor and target state, converted by the real radarObs2eciPosition in the order they were taken."""
    from resonaate.common.labels import SensorLabel
    from resonaate.physics.transforms import methods as T

    with single_path() as p:
        reds, llas, seen = {}, [], {"r2s": 0, "r2s_real": 0, "jd": 0}

        def build(utc_date, eops=None):
            k = utc_date.name
            if k not in reds:
                W, N = reals(k + "W", 3, 3), reals(k + "N", 3, 3)
                for M_ in (W, N):
                    assume(eq_arrays(M_.dot(M_.T), I3), eq_arrays(M_.T.dot(M_), I3))

                class Red:
                    rot_w, rot_wt, rot_pnr, rot_rnp = W, W.T, N, N.T
                    lod = real(k + "lod")

                reds[k] = Red
            return reds[k]

        class RP:
            pass

        RP.build = staticmethod(build)

        def lla(x):
            # functional stub: the same ECEF position (syntactically, after simplification) gives the same geodetic coordinates
            for x0, out in llas:
                if all(z3.eq(z3.simplify(a.t), z3.simplify(b.t)) for a, b in zip(x0[:3], x[:3])):
                    return out
            k = len(llas)
            out = np.array([real(f"lat{k}"), real(f"lon{k}"), real(f"alt{k}")], dtype=object)
            llas.append((x, out))
            return out

        sfx = lambda k: "" if k == 0 else str(k)  # noqa: E731
        dates = [_Token("D" + sfx(k)) for k in range(nobs)]
        sensors = [reals("sen" + sfx(k), 6) for k in range(nobs)]
        targets = [reals("tgt" + sfx(k), 6) for k in range(nobs)]
        obs, sezs, poss = [], [], []
        with shadow(T, ReductionParams=RP, array=sym_array, ecef2lla=lla):
            for k in range(nobs):
                sezs.append(T.getSlantRangeVector(sensors[k], targets[k], dates[k]))
                o = _Obs1()
                o.range_km, o.elevation_rad, o.azimuth_rad = real("rng" + sfx(k)), real("el" + sfx(k)), real("az" + sfx(k))
                o.range_rate_km_p_sec = real("rr" + sfx(k))
                o.julian_date = real("jd" + sfx(k))
                o.sensor_eci = sensors[k]
                o.sensor_type = SensorLabel.ADV_RADAR
                o.pos_x_km, o.pos_y_km, o.pos_z_km, o.vel_x_km_p_sec, o.vel_y_km_p_sec, o.vel_z_km_p_sec = sensors[k]
                obs.append(o)
            real_r2s = T.razel2sez

            def r2s(rng, el, az, a=0, b=0, c=0):
                for k, o in enumerate(obs):
                    if rng is o.range_km and el is o.elevation_rad and az is o.azimuth_rad and all(isinstance(x, (int, float)) and x == 0 for x in (a, b, c)):
                        seen["r2s"] += 1
                        return np.concatenate((sezs[k][:3], np.array([SReal(0)] * 3, dtype=object)))
                seen["r2s_real"] += 1
                return real_r2s(rng, el, az, a, b, c)

            other = {}

            def jd2dt(x):
                seen["jd"] += 1
                for k, o in enumerate(obs):
                    if x is o.julian_date:
                        return dates[k]
                if id(x) not in other:
                    other[id(x)] = _Token(f"E{len(other)}")
                return other[id(x)]

            with shadow(T, razel2sez=r2s, JulianDate=lambda x: x, julianDateToDatetime=jd2dt):
                for o in obs:
                    poss.append(T.radarObs2eciPosition(o))
        cons = p.constraints()
        rep.note(f"razel2sez cut used {seen['r2s']}x, real razel2sez {seen['r2s_real']}x, distinct ecef2lla arguments {len(llas)}, reductions {sorted(reds)}")
        for pos in poss:
            if np.shape(pos) != (3,):
                rep.error("shape", f"radarObs2eciPosition returned shape {np.shape(pos)}, a 3-vector is documented")
                return
        if nobs == 1:
            inputs = lambda m: {"sensor": marray(m, sensors[0]), "target": marray(m, targets[0])}  # noqa: E731
            replay = replay_obs
        else:
            inputs = lambda m: {"sensors": [marray(m, x) for x in sensors], "targets": [marray(m, x) for x in targets]}  # noqa: E731
            replay = replay_obs_seq
        # a counterexample (only searched when the general identity fails) is asked for a realistic geometry so that it replays on the real
        # ecef2lla / FK5 code: site 6300..50000 km from the centre and >= 1000 km off the polar axis, target >= 100 km from the site
        q = lambda v: (v[0] * v[0] + v[1] * v[1] + v[2] * v[2]).t  # noqa: E731
        region, pins = [], []
        for k in range(nobs):
            sensor, target = sensors[k], targets[k]
            region += [q(sensor) >= 6300 ** 2, q(sensor) <= 50000 ** 2, (sensor[0] * sensor[0] + sensor[1] * sensor[1]).t >= 1000 ** 2, q(target - sensor) >= 100 ** 2,
                       q(target) <= 100000 ** 2] + [z3.And(x.t >= -10, x.t <= 10) for x in list(sensor[3:]) + list(target[3:])]
            if nobs > 1:
                region += [q(target) >= 6400 ** 2]
                # the platform moves: consecutive sensor positions lie in different (rotating) octants, 6500..7500 km along alternating axes
                ax = k % 2
                region += [sensor[ax].t >= 6500, sensor[ax].t <= 7500, sensor[1 - ax].t >= -500, sensor[1 - ax].t <= 500, sensor[2].t >= -500, sensor[2].t <= 500]
        # candidate search only: the reduction matrices pinned to the identity (any model of the pinned system is a model of the general one)
        for Red in reds.values():
            pins += [eq_arrays(Red.rot_w, I3), eq_arrays(Red.rot_pnr, I3)]
        from symx.poly import NotPolynomial, prove_linearized_auto

        for k in range(nobs):
            for i in range(3):
                goal = poss[k][i].t == targets[k][i].t
                lab = f"position[{i}]" if nobs == 1 else f"obs{k}/position[{i}]"
                try:
                    v = prove_linearized_auto([goal], cons, rounds=8, timeout_ms=60000)
                except NotPolynomial:
                    v = None
                what = ("radarObs2eciPosition(observation of target from sensor) = target position, component-wise" if nobs == 1 else
                        "the k-th of several conversions for one sensor (whose state differs from epoch to epoch) = the k-th target position: no state carried between calls")
                if v is not None and v.status == "unsat":
                    rep._item(lab, "prove", v)
                    rep.sample({"obligation": f"{rep.ob}:{lab}", "verdict": "unsat", "what": what})
                    continue
                # the identity is not provable: look for a counterexample, first with the reduction matrices pinned (cheap), then in general
                cand = refute(goal, cons + region + pins, 30000)
                if cand.status == "sat":
                    rep.prove(lab + "[realistic geometry, identity reduction]", goal, cons + region + pins, timeout_ms=60000, inputs=inputs, replay=replay, sample=what)
                else:
                    rep.prove(lab + "[realistic geometry]", goal, cons + region, timeout_ms=90000, inputs=inputs, replay=replay, sample=what)
                if _done(rep):
                    return
        wit = []
        for k in range(nobs):
            wit += [sensors[k][k % 2].t == 6378 + 600 * k, targets[k][0].t == 7000, targets[k][1].t == 100]
        rep.reachable("orthogonal-matrices-exist", cons + wit, timeout_ms=60000)


def o1b_frames(rep):
    _o1_frames(rep, 1)


def o1c_moving(rep):
    _o1_frames(rep, 2)


def o1c_moving3(rep):
    _o1_frames(rep, 3)


# =====================================================================================
# O2  Lagrange step
# =====================================================================================
def replay_lagrange(d):
    from resonaate.physics.orbit_determination import lambert as L

    r1, r2 = np.array(d["r1"], dtype=float), np.array(d["r2"], dtype=float)
    f, g, gd = d["f"], d["g"], d["gd"]
    v1, v2 = L._calculateVelocities(r1, r2, f, g, gd)
    fd = (f * gd - 1.0) / g
    e1 = float(np.abs(f * r1 + g * v1 - r2).max())
    e2 = float(np.abs(fd * r1 + gd * v1 - v2).max())
    e3 = float(np.abs(np.cross(r1, v1) - np.cross(r2, v2)).max())
    sc = max(1.0, float(np.abs(r1).max()), float(np.abs(r2).max())) * max(1.0, abs(f), abs(gd), abs(fd)) * max(1.0, 1 / abs(g))
    return max(e1, e2, e3) > 1e-9 * sc * max(1.0, float(np.abs(r1).max())), {"|f r1 + g v1 - r2|": e1, "|fdot r1 + gdot v1 - v2|": e2, "|h1 - h2|": e3}


def o2_lagrange(rep):
    from resonaate.physics.orbit_determination import lambert as L

    fn = getattr(L, "_calculateVelocities", None)
    if fn is None:
        rep.note("_calculateVelocities no longer exists as a module-level helper; its content is covered through lambertUniversal (O3)")
        return
    with single_path() as p:
        r1, r2 = reals("r1", 3), reals("r2", 3)
        f, g, gd = real("f"), real("g"), real("gd")
        assume(g.t != 0)
        v1, v2 = fn(r1, r2, f, g, gd)
        cons = p.constraints()
        inputs = lambda m: {"r1": marray(m, r1), "r2": marray(m, r2), "f": mfloat(m, f.t), "g": mfloat(m, g.t), "gd": mfloat(m, gd.t)}  # noqa: E731
        kw = dict(inputs=inputs, replay=replay_lagrange)
        rep.prove("position", eq_arrays(f * r1 + g * v1, r2), cons, sample="r2 = f r1 + g v1", **kw)
        fd = (f * gd - 1) / g
        rep.prove("velocity", eq_arrays(fd * r1 + gd * v1, v2), cons, sample="v2 = fdot r1 + gdot v1 with f gdot - fdot g = 1", **kw)
        rep.prove("angular-momentum", eq_arrays(np.cross(r1, v1), np.cross(r2, v2)), cons, sample="r1 x v1 = r2 x v2", **kw)
        rep.reachable("inputs", cons + [g.t == 2, f.t == 1])


# =====================================================================================
# abstract vectors over (r1, r2, r1 x r2)
# =====================================================================================
class Frame:
    """Two linearly independent positions given by their Gram matrix: n1 = |r1|, n2 = |r2|, d = r1.r2, X = |r1 x r2| > 0."""

    def __init__(self, n1, n2, d, X):
        self.n1, self.n2, self.d, self.X = _S(n1), _S(n2), _S(d), _S(X)

    def facts(self):
        n1, n2, d, X = self.n1.t, self.n2.t, self.d.t, self.X.t
        return [n1 > 0, n2 > 0, X > 0, X * X == n1 * n1 * n2 * n2 - d * d]

    def vec(self, a, b, c=0):
        return Vec(self, _S(a), _S(b), _S(c))


def _is_const(x, vals):
    s = z3.simplify(x.t)
    return z3.is_rational_value(s) and s.denominator_as_long() == 1 and s.numerator_as_long() in vals


class Vec:
    """a r1 + b r2 + c (r1 x r2) with scalar proxies a, b, c; exact bilinear algebra."""

    __array_priority__ = 1000
    __array_ufunc__ = None

    def __init__(self, fr, a, b, c):
        self.fr, self.a, self.b, self.c = fr, a, b, c

    def __add__(self, o):
        return Vec(self.fr, self.a + o.a, self.b + o.b, self.c + o.c) if isinstance(o, Vec) else NotImplemented

    __radd__ = __add__

    def __sub__(self, o):
        return Vec(self.fr, self.a - o.a, self.b - o.b, self.c - o.c) if isinstance(o, Vec) else NotImplemented

    def __neg__(self):
        return Vec(self.fr, -self.a, -self.b, -self.c)

    def __mul__(self, k):
        return NotImplemented if isinstance(k, Vec) else Vec(self.fr, self.a * k, self.b * k, self.c * k)

    __rmul__ = __mul__

    def __truediv__(self, k):
        return NotImplemented if isinstance(k, Vec) else Vec(self.fr, self.a / k, self.b / k, self.c / k)

    def __getitem__(self, k):
        if isinstance(k, slice) and k.start in (None, 0) and k.stop in (None, 3) and k.step in (None, 1):
            return self
        raise Unsupported("component access of an abstract vector")

    def dot(self, o):
        f = self.fr
        return self.a * o.a * f.n1 * f.n1 + (self.a * o.b + self.b * o.a) * f.d + self.b * o.b * f.n2 * f.n2 + self.c * o.c * f.X * f.X

    def cross(self, o):
        # e1 x e2 = e3; e1 x e3 = r1 (r1.r2) - r2 (r1.r1); e2 x e3 = r1 (r2.r2) - r2 (r1.r2)
        f = self.fr
        k12, k13, k23 = self.a * o.b - self.b * o.a, self.a * o.c - self.c * o.a, self.b * o.c - self.c * o.b
        n11, n22, d = f.n1 * f.n1, f.n2 * f.n2, f.d
        return Vec(f, k13 * d + k23 * n22, -(k13 * n11) - k23 * d, k12)

    def norm(self):
        f = self.fr
        if _is_const(self.a, (1,)) and _is_const(self.b, (0,)) and _is_const(self.c, (0,)):
            return f.n1
        if _is_const(self.a, (0,)) and _is_const(self.b, (1,)) and _is_const(self.c, (0,)):
            return f.n2
        if _is_const(self.a, (0,)) and _is_const(self.b, (0,)) and _is_const(self.c, (1, -1)):
            return f.X
        return self.dot(self).sqrt()


def vnorm(v, *a, **k):
    return v.norm() if isinstance(v, Vec) else np.linalg.norm(v, *a, **k)


def vdot(a, b, *aa, **k):
    return a.dot(b) if isinstance(a, Vec) else np.dot(a, b, *aa, **k)


def vcross(a, b, *aa, **k):
    return a.cross(b) if isinstance(a, Vec) else np.cross(a, b, *aa, **k)


def veq(u, v):
    return z3.And(u.a.t == v.a.t, u.b.t == v.b.t, u.c.t == v.c.t)


_Q = None


def _generic_rotation():
    global _Q
    if _Q is None:
        a, b, c = 0.7, -1.1, 2.3
        Rx = np.array([[1, 0, 0], [0, math.cos(a), -math.sin(a)], [0, math.sin(a), math.cos(a)]])
        Ry = np.array([[math.cos(b), 0, math.sin(b)], [0, 1, 0], [-math.sin(b), 0, math.cos(b)]])
        Rz = np.array([[math.cos(c), -math.sin(c), 0], [math.sin(c), math.cos(c), 0], [0, 0, 1]])
        _Q = Rz @ Ry @ Rx
    return _Q


def gram_pair(n1, n2, d):
    """Concrete r1, r2 in generic orientation with |r1| = n1, |r2| = n2, r1.r2 = d."""
    Q = _generic_rotation()
    x = d / n1
    y = math.sqrt(max(n2 * n2 - x * x, 0.0))
    return Q @ np.array([n1, 0.0, 0.0]), Q @ np.array([x, y, 0.0])


# =====================================================================================
# O3  lambertUniversal: same orbit, requested sense
# =====================================================================================
def _orbit_invariants(r1, r2, v1, v2, mu):
    h1, h2 = np.cross(r1, v1), np.cross(r2, v2)
    n1, n2 = np.linalg.norm(r1), np.linalg.norm(r2)
    E1, E2 = v1 @ v1 / 2 - mu / n1, v2 @ v2 / 2 - mu / n2
    e1 = ((v1 @ v1 - mu / n1) * r1 - (r1 @ v1) * v1) / mu
    e2 = ((v2 @ v2 - mu / n2) * r2 - (r2 @ v2) * v2) / mu
    return h1, h2, E1, E2, e1, e2


def replay_universal(d):
    from resonaate.physics.bodies import Earth
    from resonaate.physics.orbit_determination import lambert as L

    r1, r2 = gram_pair(d["n1"], d["n2"], d["d"])
    tm, dt = int(d["tm"]), float(d["dt"])
    kw = {} if d.get("max_step") is None else {"max_step": int(d["max_step"])}
    try:
        v1, v2 = L.lambertUniversal(r1, r2, dt, tm, **kw)
    except Exception as e:  # noqa: BLE001
        return True, {"raised": repr(e), "r1": r1, "r2": r2}
    mu = Earth.mu
    h1, h2, E1, E2, e1, e2 = _orbit_invariants(r1, r2, v1, v2, mu)
    if not (np.all(np.isfinite(v1)) and np.all(np.isfinite(v2))):
        return True, {"non-finite velocities": [v1, v2]}
    hs = max(np.linalg.norm(h1), np.linalg.norm(h2), 1e-300)
    Es = max(abs(E1), abs(E2), mu / d["n1"])
    err = {"h": float(np.linalg.norm(h1 - h2) / hs), "E": float(abs(E1 - E2) / Es), "e": float(np.linalg.norm(e1 - e2)),
           "sense": float(tm * (h1 @ np.cross(r1, r2)))}
    bad = err["h"] > 1e-6 or err["E"] > 1e-6 or err["e"] > 1e-6 or err["sense"] <= 0
    return bool(bad), {"relative_mismatch": err, "r1": r1, "r2": r2, "v1": v1, "v2": v2}


def _universal_goals(rep, r, tm, pre, max_step, label="", definedness=True):
    """The obligations on one finished path of lambertUniversal."""
    from resonaate.physics.bodies import Earth

    fr, dt, v1, v2, r1, r2 = r.out
    mu = Earth.mu
    tag = _tag(r)
    cons = r.constraints + pre
    nm = lambda s: f"{label}{s}[{tag}]"  # noqa: E731
    V = {k: z3.Real(k) for k in ("n1", "n2", "d", "dt")}

    def inputs(m):
        return {"n1": mfloat(m, V["n1"]), "n2": mfloat(m, V["n2"]), "d": mfloat(m, V["d"]), "dt": mfloat(m, V["dt"]), "tm": tm, "max_step": max_step}

    kw = dict(inputs=inputs, replay=replay_universal)
    if not (isinstance(v1, Vec) and isinstance(v2, Vec)):
        rep.error(nm("type"), f"velocities are not vectors: {type(v1)} {type(v2)}")
        return
    # human-scale region for robust counterexamples (only used when an identity fails)
    scale = z3.And(V["n1"] >= 6378, V["n1"] <= 100000, V["n2"] >= 6378, V["n2"] <= 100000, V["dt"] >= 60, V["dt"] <= 1000000,
                   fr.X.t >= fr.n1.t * fr.n2.t / 20, fr.n1.t * fr.n2.t + fr.d.t >= fr.n1.t * fr.n2.t / 100)
    h1, h2 = r1.cross(v1), r2.cross(v2)
    rel = rv(1e-3)
    hdiff = z3.Or(_off(h1.a.t, h2.a.t, rel), _off(h1.b.t, h2.b.t, rel), _off(h1.c.t, h2.c.t, rel * z3.If(h1.c.t >= 0, h1.c.t, -h1.c.t)))
    _prove_eq(rep, nm("angular-momentum"), veq(h1, h2), z3.And(hdiff, scale), cons, sample="r1 x v1 = r2 x v2", **kw)
    vv1, vv2 = v1.dot(v1), v2.dot(v2)
    # energy, multiplied through by n1 n2 (both positive) so that the goal is polynomial
    E_goal = ((vv1 / 2) * fr.n1 * fr.n2 - mu * fr.n2).t == ((vv2 / 2) * fr.n1 * fr.n2 - mu * fr.n1).t
    Ed = ((vv1 - vv2) / 2).t - rv(mu) / fr.n1.t + rv(mu) / fr.n2.t
    _prove_eq(rep, nm("energy"), E_goal, z3.And(z3.Or(Ed > rel * rv(mu) / fr.n1.t, -Ed > rel * rv(mu) / fr.n1.t), scale), cons,
              sample="v1^2/2 - mu/|r1| = v2^2/2 - mu/|r2|", **kw)
    e1 = (vv1 * fr.n1 - mu) * r1 - (r1.dot(v1) * fr.n1) * v1  # mu n1 e
    e2 = (vv2 * fr.n2 - mu) * r2 - (r2.dot(v2) * fr.n2) * v2  # mu n2 e
    ea, eb = (e1 * fr.n2), (e2 * fr.n1)
    # compare mu n1 n2 e component-wise; the robust variant asks for |delta e| > 1e-3 in the r1/r2 components (scaled by the lengths)
    m_e = rel * rv(mu) * fr.n1.t * fr.n2.t
    ediff = z3.Or(_off(ea.a.t * fr.n1.t, eb.a.t * fr.n1.t, m_e), _off(ea.b.t * fr.n2.t, eb.b.t * fr.n2.t, m_e), _off(ea.c.t * fr.X.t, eb.c.t * fr.X.t, m_e))
    _prove_eq(rep, nm("eccentricity-vector"), veq(ea, eb), z3.And(ediff, scale), cons, sample="eccentricity vector at r1 = eccentricity vector at r2", **kw)
    if _done(rep):
        return
    sense = h1.c.t > 0 if tm == 1 else h1.c.t < 0
    # the sign of g follows from the contracts and domain conditions alone; the path conditions (time comparison) only slow nlsat down
    rep.prove(nm("sense"), sense, r.path.assumes + r.path.domain + pre, sample="(r1 x v1).(r1 x r2) has the sign of transfer_method: short way sweeps < 180 deg, long way > 180 deg", **kw)
    # every division / square root on the path is defined (follows from what was known when it was evaluated)
    for k, (c, hyps) in enumerate(r.path.domain_obligations() if definedness else []):
        if _done(rep):
            return
        rep.prove(nm(f"defined#{k}"), c, hyps + pre, timeout_ms=20000, sample="divisors non-zero, radicands non-negative", **kw)


def _witness(rep, label, cons, timeout_ms=5000):
    """Vacuity guard for one path.  False: provably infeasible; True: witness found or solver gave up (the latter is visible in the items)."""
    return rep.feasible(label, list(cons), timeout_ms=timeout_ms) is not None


def _o3_universal(rep, tm):
    from resonaate.physics.orbit_determination import lambert as L

    def run():
        fr = Frame(real("n1"), real("n2"), real("d"), real("X"))
        r1, r2 = fr.vec(1, 0), fr.vec(0, 1)
        dt = real("dt")
        assume(dt.t >= 1, *fr.facts())
        with shadow(L, sqrt=ssqrt, norm=vnorm, dot=vdot, cross=vcross):
            v1, v2 = L.lambertUniversal(r1, r2, dt, tm, max_step=1)
        return fr, dt, v1, v2, r1, r2

    res = explore(run, max_paths=64, max_depth=40, branch_timeout_ms=4000, recip=True)
    rep.note(f"paths={len(res)}")
    n1, n2, d = z3.Real("n1"), z3.Real("n2"), z3.Real("d")
    away180 = [n1 * n2 + d >= rv(1e-6) * n1 * n2]
    n_ok = 0
    for r in res:
        tag = _tag(r)
        if r.exc is not None:
            if isinstance(r.exc, ValueError):
                def inputs(m):
                    return {"n1": mfloat(m, n1), "n2": mfloat(m, n2), "d": mfloat(m, d), "dt": mfloat(m, z3.Real("dt")), "tm": tm, "max_step": 1}

                rep.prove(f"no-exception[{tag}]", z3.BoolVal(False), r.constraints + away180 + [n1 >= 1, n2 >= 1, n1 <= 1000000, n2 <= 1000000], inputs=inputs, replay=replay_universal,
                          sample=f"'{r.exc}' is unreachable when the transfer angle is not within 0.08 deg of 180 deg")
                continue
            rep.error(f"exception[{tag}]", repr(r.exc))
            continue
        if not _witness(rep, f"path-{tag}", r.constraints):
            continue
        n_ok += 1
        _universal_goals(rep, r, tm, [], 1)
        if _done(rep):
            return
    n_wit = sum(1 for x in rep.reach if x.startswith("path-"))
    if n_ok < 2 or n_wit < 1:
        rep.error("reach", f"feasible exits of the iteration: {n_ok}, with a solver witness: {n_wit}")
    rep.reachable("inputs", [n1 == 7000, n2 == 8000, d == 7000 * 4000, z3.Real("X") > 0, z3.Real("X") * z3.Real("X") == n1 * n1 * n2 * n2 - d * d])


def o3_short(rep):
    _o3_universal(rep, 1)


def o3_long(rep):
    _o3_universal(rep, -1)


def _o3_any(rep, max_step, max_evals):
    from resonaate.physics.orbit_determination import lambert as L

    if not (hasattr(L, "_calcYNew") and hasattr(L, "universalC2C3")):
        rep.note("lambertUniversal no longer evaluates its iterate through _calcYNew / universalC2C3: the provider generalisation does not apply (O3s/O3l still run the real code)")
        return
    total = {1: 0, -1: 0}
    for tm in (1, -1):
        cnt = {"cut": 0}

        def run(tm=tm, cnt=cnt):
            fr = Frame(real("n1"), real("n2"), real("d"), real("X"))
            r1, r2 = fr.vec(1, 0), fr.vec(0, 1)
            dt = real("dt")
            assume(dt.t >= 1, *fr.facts())
            k = {"y": 0, "c": 0}

            def calc_y(*a):
                k["y"] += 1
                if k["y"] > max_evals:
                    cnt["cut"] += 1
                    raise PathAbort("evaluation bound")
                y = real(f"y{k['y']}")
                if tm == -1:
                    assume(y.t > 0)
                return y

            def c2c3(psi):
                k["c"] += 1
                c2, c3 = real(f"c2_{k['c']}"), real(f"c3_{k['c']}")
                assume(c2.t > 0)
                return c2, c3

            with shadow(L, sqrt=ssqrt, norm=vnorm, dot=vdot, cross=vcross, _calcYNew=calc_y, universalC2C3=c2c3):
                v1, v2 = L.lambertUniversal(r1, r2, dt, tm, max_step=max_step)
            return fr, dt, v1, v2, r1, r2

        res = explore(run, max_paths=6000, max_depth=80, branch_timeout_ms=4000)
        rep.note(f"tm={tm}: paths={len(res)} cut-by-evaluation-bound={cnt['cut']}")
        first = True
        for r in res:
            if r.exc is not None:
                if isinstance(r.exc, ValueError):
                    continue  # documented refusals (singularity, non-monotone y); their reachability is O3s/O3l's business
                rep.error(f"exception[{tm}][{_tag(r)}]", repr(r.exc))
                continue
            # the last iterate must be non-zero for the velocities to exist: y = 0 only for coincident positions with the real helper (O3s/O3l)
            total[tm] += 1
            if first or len(r.path.decisions) >= 12:
                if rep.feasible(f"any/{tm}/path-{_tag(r)}", r.constraints, timeout_ms=5000) is None:
                    continue
                first = False
            _universal_goals(rep, r, tm, [], None, label=f"any/{'short' if tm == 1 else 'long'}/", definedness=False)
            if _done(rep):
                return
    n_wit = sum(1 for x in rep.reach if x.startswith("any/"))
    if min(total.values()) < 2 or n_wit < 2:
        rep.error("reach", f"too few finished paths: {total}, witnesses {n_wit}")


def o3_any_quick(rep):
    _o3_any(rep, 2, 5)


def o3_any_thorough(rep):
    _o3_any(rep, 3, 6)


# =====================================================================================
# O3b  lambertUniversal: the bisection encloses the solution of every single-revolution elliptic arc
# =====================================================================================
E_MAX = 0.7  # the property's eccentricity bound
_HALF = 2.0 * math.acos(E_MAX)  # eccentric anomaly swept by the arc of e = 0.7 centred on the periapsis that sweeps 180 deg of true anomaly
PSI_RANGE = {1: (0.01, 21.5), -1: (3.0, 38.5)}
"""psi = (eccentric anomaly swept)^2 of an elliptic arc with e <= 0.7: short way (0, (2 pi - 2 acos e)^2 = 22.02), long way ((2 acos e)^2 = 2.53, 4 pi^2 = 39.48); margins for the replay"""


def _arc_for_psi(psi, tm, a=12000.0):
    """A concrete Keplerian arc (e <= 0.7, generic orientation) sweeping sqrt(psi) of eccentric anomaly in the sense tm: r1, v1, r2, v2, dt, description."""
    from resonaate.physics.bodies import Earth

    mu = Earth.mu
    dE = math.sqrt(psi)
    Q = _generic_rotation()
    for e in (0.7, 0.5, 0.3, 0.1):
        for centre in (math.pi, 0.0, math.pi / 2, 3 * math.pi / 2):
            E1, E2 = centre - dE / 2, centre + dE / 2
            nu = lambda E: 2.0 * math.atan2(math.sqrt(1 + e) * math.sin(E / 2), math.sqrt(1 - e) * math.cos(E / 2))  # noqa: E731
            dnu = (nu(E2) - nu(E1)) % (2 * math.pi)
            if not (math.radians(5) < dnu < math.radians(355)) or abs(dnu - math.pi) < math.radians(5):
                continue
            if (1 if dnu < math.pi else -1) != tm:
                continue
            b = a * math.sqrt(1 - e * e)

            def state(E):
                r = a * (1 - e * math.cos(E))
                k = math.sqrt(mu * a) / r
                return Q @ np.array([a * (math.cos(E) - e), b * math.sin(E), 0.0]), Q @ np.array([-k * math.sin(E), k * math.sqrt(1 - e * e) * math.cos(E), 0.0])

            (p1, w1), (p2, w2) = state(E1), state(E2)
            dt = math.sqrt(a ** 3 / mu) * (dE - e * (math.sin(E2) - math.sin(E1)))
            return p1, w1, p2, w2, dt, {"a_km": a, "e": e, "E1_deg": math.degrees(E1), "eccentric_anomaly_swept_deg": math.degrees(dE), "transfer_angle_deg": math.degrees(dnu)}
    return None


def replay_bracket(d):
    """The elliptic arc whose universal variable psi is the solver's psi*: the real solver (default iteration limit) must return its end-point velocities."""
    from resonaate.physics.orbit_determination import lambert as L

    tm = int(d["tm"])
    arc = _arc_for_psi(float(d["psi_star"]), tm)
    if arc is None:
        return False, {"no arc with e <= 0.7 and this sense sweeps sqrt(psi*) of eccentric anomaly": d}
    p1, w1, p2, w2, dt, what = arc
    try:
        v1, v2 = L.lambertUniversal(p1, p2, dt, tm)
    except Exception as e:  # noqa: BLE001
        return True, {"raised": repr(e), "arc": what}
    err = max(float(np.linalg.norm(v1 - w1)), float(np.linalg.norm(v2 - w2)))
    bad = not np.isfinite(err) or err > 1e-5
    return bool(bad), {"arc": what, "time_of_flight_s": dt, "velocity_error_km_s": err, "returned_v1": v1, "true_v1": w1}


def _o3_bracket(rep, max_step):
    from resonaate.physics.bodies import Earth
    from resonaate.physics.orbit_determination import lambert as L

    if not (hasattr(L, "_calcYNew") and hasattr(L, "universalC2C3")):
        rep.note("lambertUniversal no longer evaluates its iterate through _calcYNew / universalC2C3: the bracket obligation does not apply")
        return
    mu = Earth.mu
    W = 4 * PI_F * PI_F  # half width of the search interval: psi of one full revolution
    for tm in (1, -1):
        lo, hi = PSI_RANGE[tm]

        def run(tm=tm, lo=lo, hi=hi):
            fr = Frame(real("n1"), real("n2"), real("d"), real("X"))
            r1, r2 = fr.vec(1, 0), fr.vec(0, 1)
            dt, ps = real("dt"), real("psi_star")
            assume(dt.t >= 1, ps.t >= rv(lo), ps.t <= rv(hi), *fr.facts())
            evals = []

            def calc_y(r0, r, a, psi, c2, c3):
                k = len(evals) + 1
                y = real(f"y{k}")
                assume(y.t > 0)  # cut: the y < 0 inner loop (short way, far hyperbolic side) is explored in O3any
                # universal time-of-flight equation (Vallado Alg. 58 / Bate-Mueller-White 5.3): sqrt(mu) t = x^3 c3 + A sqrt(y), x = sqrt(y / c2);
                # contract: t is strictly increasing in psi, so t(psi_k) <= delta_time  <=>  psi_k <= psi*
                t_k = ((y / c2).sqrt() ** 3 * c3 + a * y.sqrt()) / math.sqrt(mu)  # sqrt(mu): the double, as in the code
                assume((t_k.t <= dt.t) == (rv(psi) <= ps.t))
                own = stumpff.get(float(psi))
                evals.append((psi, a, z3.BoolVal(False) if own is None else z3.And(_S(c2).t == own[0].t, _S(c3).t == own[1].t)))
                return y

            n = [0]
            stumpff = {}

            def c2c3(psi):
                n[0] += 1
                c2, c3 = real(f"c2_{n[0]}"), real(f"c3_{n[0]}")
                assume(c2.t > 0)
                stumpff[float(psi)] = (c2, c3)
                return c2, c3

            with shadow(L, sqrt=ssqrt, norm=vnorm, dot=vdot, cross=vcross, _calcYNew=calc_y, universalC2C3=c2c3):
                L.lambertUniversal(r1, r2, dt, tm, max_step=max_step)
            return evals, fr

        res = explore(run, max_paths=4000, max_depth=120, branch_timeout_ms=4000)
        full = [r for r in res if r.exc is None and len(r.out[0]) == max_step]
        rep.note(f"tm={tm}: paths={len(res)} leaving by the step bound={len(full)}")
        ps = z3.Real("psi_star")
        inputs = lambda m, tm=tm: {"psi_star": mfloat(m, ps), "tm": tm}  # noqa: E731
        kw = dict(inputs=inputs, replay=replay_bracket)
        name = "short" if tm == 1 else "long"
        first = True
        for r in res:
            if _done(rep):
                return
            if r.exc is not None:
                if isinstance(r.exc, ValueError):
                    continue  # documented refusals (180 deg singularity); O3s/O3l decide their reachability
                rep.error(f"exception[{name}][{_tag(r)}]", repr(r.exc))
                continue
            evals, fr = r.out
            tag = _tag(r)
            cons = r.constraints
            if first or len(evals) == max_step:
                if rep.feasible(f"bracket/{name}/path-{tag}", cons, timeout_ms=5000) is None:
                    continue
            if first:
                a = evals[0][1]
                rep.prove(f"bracket/{name}/A[{tag}]", z3.And(_S(a).t * _S(a).t == fr.n1.t * fr.n2.t + fr.d.t, (_S(a).t > 0) == z3.BoolVal(tm == 1)),
                          r.path.assumes + r.path.domain, sample="the geometry term handed to the iterate helper is A = tm sqrt(r1 r2 (1 + cos dnu))")
                first = False
            k = len(evals)
            rep.prove(f"bracket/{name}/same-psi#{k}[{tag}]", evals[-1][2], cons, timeout_ms=10000,
                      sample="the iterate at psi_k is evaluated with the Stumpff pair universalC2C3 returned for that same psi_k (no stale pair)", **kw)
            if _done(rep):
                return
            psi_k = rv(evals[-1][0])
            bound = rv(W / 2 ** (k - 1)) + rv(1e-9)
            goal = z3.And(psi_k - ps <= bound, ps - psi_k <= bound)
            robust = z3.Or(psi_k - ps > bound + 1, ps - psi_k > bound + 1)
            _prove_eq(rep, f"bracket/{name}/encloses#{k}[{tag}]", goal, robust, cons, timeout_ms=20000,
                      sample="the k-th value of psi at which the iterate is evaluated is within 4 pi^2 / 2^(k-1) of the arc's psi = (eccentric anomaly swept)^2, "
                             "whenever the earlier time comparisons came out as the monotone time-of-flight function dictates", **kw)
        if len(full) < 2 ** (max_step - 1):
            rep.error(f"reach[{name}]", f"paths leaving by the step bound: {len(full)}")


def o3b_quick(rep):
    _o3_bracket(rep, 5)


def o3b_thorough(rep):
    _o3_bracket(rep, 7)


# =====================================================================================
# O6  lambertBattin: the conic chosen after the iteration (elliptic post-processing)
# =====================================================================================
def _fresh_no(v):
    k = v.rfind("!")
    return int(v[k + 1:]) if k >= 0 and v[k + 1:].isdigit() else None


def _cone(goal, path, base=()):
    """Cone-of-influence slicing of one path's constraints for one goal: the contracts defining the auxiliary variables (roots, angles) the goal
    depends on, transitively, plus every branch / domain condition over those variables.  Dropping constraints is sound for `unsat`."""
    from symx.core import free_vars

    need = set(free_vars(goal)) | set(base)
    defs = [(c, free_vars(c)) for c in path.assumes]
    kept = [False] * len(defs)
    changed = True
    while changed:
        changed = False
        for i, (c, fv) in enumerate(defs):
            if kept[i]:
                continue
            fresh = [v for v in fv if _fresh_no(v) is not None]
            if fresh:
                if max(fresh, key=_fresh_no) in need:  # the contract that introduced its newest variable
                    kept[i] = True
                    if not fv <= need:
                        need |= fv
                        changed = True
            elif fv <= need:
                kept[i] = True
    out = [c for k, (c, _) in zip(kept, defs) if k]
    return out + [c for c in path.domain + path.pc if free_vars(c) <= need]


class _Ang:
    """arctan2(y, x) before it is wrapped."""

    def __init__(self, y, x):
        self.y, self.x = _S(y), _S(x)


def replay_battin(d):
    """Real lambertBattin on the solver's geometry / time of flight; the returned velocities must reproduce the arc (real Kepler propagation)."""
    from resonaate.physics.bodies import Earth
    from resonaate.physics.orbit_determination import lambert as L
    from resonaate.physics.orbits.kepler import solveKeplerProblemUniversal

    r1, r2 = gram_pair(d["n1"], d["n2"], d["d"])
    tm, dt = int(d["tm"]), float(d["dt"])
    try:
        v1, v2 = L.lambertBattin(r1, r2, dt, tm)
    except Exception as e:  # noqa: BLE001
        return True, {"raised": repr(e), "r1": r1, "r2": r2}
    if not (np.all(np.isfinite(v1)) and np.all(np.isfinite(v2))):
        return True, {"non-finite velocities": [v1, v2]}
    mu = Earth.mu
    h = np.cross(r1, v1)
    ecc = float(np.linalg.norm(np.cross(v1, h) / mu - r1 / np.linalg.norm(r1)))
    sense = float(tm * (h @ np.cross(r1, r2)))
    try:
        arr = solveKeplerProblemUniversal(np.concatenate((r1, v1)), dt)
        miss, vmiss = float(np.linalg.norm(arr[:3] - r2)), float(np.linalg.norm(arr[3:] - v2))
    except Exception as e:  # noqa: BLE001
        return True, {"returned velocity cannot be propagated": repr(e), "v1": v1}
    bad = miss > 1e-6 * max(d["n1"], d["n2"]) * 10 or vmiss > 1e-5 or sense <= 0
    return bool(bad), {"arrival_miss_km": miss, "final_velocity_mismatch_km_s": vmiss, "eccentricity_of_returned_orbit": ecc, "sense": sense, "r1": r1, "r2": r2, "v1": v1, "v2": v2}


def _o6_battin(rep, tm):
    from resonaate.physics.bodies import Earth
    from resonaate.physics.orbit_determination import lambert as L

    need = ("_battinGetXi", "_cubicSplineBattin", "_calculateVelocities", "wrapAngle2Pi", "arctan2")
    if not all(hasattr(L, k) for k in need):
        rep.note("lambertBattin no longer goes through " + ", ".join(k for k in need if not hasattr(L, k)) + ": the cut points of this obligation are gone (outside)")
        return
    mu = Earth.mu
    PI = rv(PI_F)

    def run():
        n1, n2, dt, q = real("n1"), real("n2"), real("dt"), real("q")
        cq, sq = declare_angle(q)
        c4, s4 = (SReal(t) for t in trig((4 * q).t))
        # the transfer angle is 4 q: (0, pi) on the short way, (pi, 2 pi) on the long way
        assume(n1.t > 0, n2.t > 0, dt.t >= 1, q.t > 0, q.t < rv(PI_F / 2), cq > 0, sq > 0)
        if tm == 1:
            assume(4 * q.t < PI, s4.t > 0)
        else:
            assume(4 * q.t > PI, s4.t < 0)
        fr = Frame(n1, n2, n1 * n2 * c4, tm * n1 * n2 * s4)
        r1, r2 = fr.vec(1, 0), fr.vec(0, 1)
        info = {"cuts": [], "base": set(), "cq": cq, "sq": sq}
        for c in cur().assumes:
            info["base"] |= free_vars(c)

        def wrap(theta):
            # cut: wrapAngle2Pi(arctan2(y, x)) is the angle in [0, 2 pi) with sine y and cosine x, i.e. 4 q once y = sin 4q and x = cos 4q are proved
            if not isinstance(theta, _Ang):
                raise Unsupported("wrapAngle2Pi of something that is not arctan2(sin, cos) of the transfer angle")
            info["cuts"].append(z3.And(theta.y.t == s4.t, theta.x.t == c4.t))
            return 4 * q

        def xi(x, *a, **k):
            return real("xi")

        def cubic(y, h1, h2, m, l, lim):  # noqa: E741
            xn, yn = real("xn"), real("yn")
            assume(yn.t > 0)
            info["xy"] = (xn, yn)
            return xn, yn

        real_cv = L._calculateVelocities

        def cv(p1, p2, f, g, gd):
            info["fg"] = (_S(f), _S(g), _S(gd))
            return real_cv(p1, p2, f, g, gd)

        with shadow(L, sqrt=ssqrt, norm=vnorm, dot=vdot, cross=vcross, arctan2=_Ang, wrapAngle2Pi=wrap, _battinGetXi=xi, _cubicSplineBattin=cubic, _calculateVelocities=cv):
            v1, v2 = L.lambertBattin(r1, r2, dt, tm, max_step=1)
        xn, yn = info["xy"]
        # the oracle's quantities (Battin 7.102 / Vallado Alg. 59) over the same inputs: chord, semi-perimeter, r_op, and the semi-major axis the
        # iteration's result (x, y) stands for
        cos_dnu = vdot(r1, r2) / (n1 * n2)
        c_ = ssqrt(n1 ** 2 + n2 ** 2 - 2.0 * n1 * n2 * cos_dnu)
        s_ = (n1 + n2 + c_) * 0.5
        rop = 0.25 * (n1 + n2 + 2 * ssqrt(n1 * n2) * np.cos(4 * q * 0.5))
        A = (mu * dt ** 2) / (16.0 * rop ** 2 * xn * yn ** 2)
        al = 2.0 * np.arcsin(ssqrt(s_ / (2.0 * A)))
        be = 2.0 * np.arcsin(ssqrt((s_ - c_) / (2.0 * A)))
        cosE = np.cos(al + be)
        K = ssqrt((s_ * 0.5) ** 3 / mu)  # sqrt(a_min^3 / mu), a_min = s / 2
        return fr, dt, v1, v2, info, A, cosE, K, c4

    res = explore(run, max_paths=200, max_depth=60, branch_timeout_ms=2500)
    rep.note(f"paths={len(res)}")
    name = "short" if tm == 1 else "long"
    n_ell = n_wit = 0
    V = {k: z3.Real(k) for k in ("n1", "n2", "dt")}
    for r in res:
        if _done(rep):
            return
        tag = _tag(r)
        if r.exc is not None:
            if isinstance(r.exc, TypeError) and "arcsinh" in str(r.exc):
                continue  # hyperbolic branch (outside: unbound orbits)
            if isinstance(r.exc, (NotImplementedError, ValueError)):
                continue  # documented refusals
            rep.error(f"exception[{tag}]", repr(r.exc))
            continue
        fr, dt, v1, v2, info, A, cosE, K, c4 = r.out
        base = info["base"]
        # spurious paths (a branch query of the exploration timed out) are discarded on the sliced path condition
        if refute(z3.BoolVal(False), _cone(z3.BoolVal(True), r.path, base), 10000).status == "unsat":
            continue
        n_ell += 1
        f, g, gd = info["fg"]
        ax = []
        for a_var, u in r.path.apps.get("arcsin", []):
            cs = r.path.trig.get(("atom", a_var.get_id()))
            ax.append(z3.Implies(u >= 0, a_var >= u))  # arcsin u >= u on [0, 1]
            if cs is not None:
                ax.append(z3.Implies(u >= 0, 2 * a_var >= 2 * u * cs[0]))  # sin 2t <= 2t for t >= 0
                ax.append(z3.Implies(u >= 0, K.t * 2 * a_var >= K.t * 2 * u * cs[0]))  # the same, times K = sqrt(a_min^3/mu) >= 0 (instance the time comparison needs)
        d_t = (fr.n1 * fr.n2 * c4).t

        def inputs(m, d_t=d_t):
            return {"n1": mfloat(m, V["n1"]), "n2": mfloat(m, V["n2"]), "d": mfloat(m, d_t), "dt": mfloat(m, V["dt"]), "tm": tm}

        kw = dict(inputs=inputs, replay=replay_battin)
        n1, n2 = fr.n1.t, fr.n2.t
        geom = [n1 >= 7000, n1 <= 50000, info["cq"] * 13 == (12 if tm == 1 else 5), info["sq"] * 13 == (5 if tm == 1 else 12), A.t > 0]

        def decide(label, goal, hyps, robust, region, what, timeout_ms=40000):
            """unsat on the goal's cone of influence proves it.  Otherwise a violation with margin is searched in a region the real iteration
            reproduces (pinned transfer angle 4 atan(5/12) = 90.5 deg resp. 4 atan(12/5) = 269.5 deg keeps the geometry terms rational, which is
            what lets nlsat find a model): first on the whole path condition, then on the cone."""
            v = refute(goal, hyps, timeout_ms)
            if v.status == "unsat":
                rep._item(label, "prove", v)
                rep.sample({"obligation": f"{rep.ob}:{label}", "verdict": "unsat", "what": what})
                return
            full = r.constraints + ax + region + [robust]
            if refute(goal, full, 20000).status == "sat":
                rep.prove(label + "[margin]", goal, full, timeout_ms=60000, sample=what, **kw)
            else:
                rep.prove(label + "[margin, cone]", goal, _cone(z3.And(goal, robust, *region, *ax), r.path, base) + ax + region + [robust], timeout_ms=60000, sample=what, **kw)

        near = [dt.t * 10 >= 9 * K.t * PI, dt.t * 10 <= 11 * K.t * PI]  # time of flight within 10 % of pi sqrt(a_min^3/mu): elliptic, moderate eccentricity
        cut = z3.And(*info["cuts"]) if info["cuts"] else z3.BoolVal(False)
        decide(f"{name}/transfer-angle[{tag}]", cut, _cone(cut, r.path, base), z3.BoolVal(True), geom + [n2 * 5 == n1 * 4] + near,
               "the (sin, cos) pair handed to arctan2 / wrapAngle2Pi is that of the transfer angle in the requested sense", 20000)
        if _done(rep):
            return
        lag_l, lag_r = ((1 - f) * fr.n1).t, ((1 - gd) * fr.n2).t
        decide(f"{name}/lagrange[{tag}]", lag_l == lag_r, _cone(lag_l == lag_r, r.path, base), z3.Or(lag_l - lag_r > n1 / 1000, lag_r - lag_l > n1 / 1000),
               geom + [n2 * 5 == n1 * 4] + near, "r1 (1 - f) = r2 (1 - g_dot)  (= a (1 - cos dE))", 20000)
        if _done(rep):
            return
        # Lambert's theorem, the side that needs no transcendental comparison: the minimum-energy time is below half the period of the minimum-energy
        # ellipse on the short way and above it on the long way, so
        #   long way  and dt < pi sqrt(a_min^3/mu)  =>  small-alpha conic: dE = alpha0 - beta = alpha0 + beta0
        #   short way and dt > pi sqrt(a_min^3/mu)  =>  large-alpha conic: dE = 2 pi - alpha0 - beta0           (same cosine)
        pre = (dt.t < K.t * PI) if tm == -1 else (dt.t > K.t * PI)
        lhs, rhs = ((1 - f) * fr.n1).t, (A * (1 - cosE)).t
        goal = z3.Implies(z3.And(A.t > 0, pre), lhs == rhs)
        cons = _cone(z3.And(goal, *ax), r.path, base) + ax
        what = ("the Lagrange coefficient f handed to the velocity step is that of the conic Lambert's theorem selects: long way with a time of flight below half the period of the "
                "minimum-energy ellipse -> eccentric anomaly alpha0 + beta0 swept; short way with more than that time -> 2 pi - alpha0 - beta0")
        band = [dt.t * 1000 >= 999 * K.t * PI, dt.t < K.t * PI] if tm == -1 else [dt.t > K.t * PI, dt.t * 1000 <= 1001 * K.t * PI]
        decide(f"{name}/conic[{tag}]", goal, cons, z3.Or(lhs - rhs > n1 / 1000, rhs - lhs > n1 / 1000), geom + [n2 == n1] + band, what)
        if _done(rep):
            return
        # vacuity guard: the premise is met on this path (witness searched at a pinned geometry: radii 7000 / 8000 km, transfer angle 4 atan(3/4) resp. 4 atan(4/3))
        pin = [fr.n1.t == 7000, fr.n2.t == 8000, info["cq"] * 5 == (4 if tm == 1 else 3), info["sq"] * 5 == (3 if tm == 1 else 4), info["xy"][0].t == 1,
               dt.t == (2 * K.t * PI if tm == 1 else K.t * PI / 2)]
        if rep.feasible(f"{name}/path-{tag}", _cone(z3.And(goal, *ax), r.path, base) + ax + [A.t > 0, pre] + pin, timeout_ms=10000) not in (None, True):
            n_wit += 1
    if n_ell < 2 or n_wit < 1:
        rep.error("reach", f"elliptic paths: {n_ell}, with the premise met (witness): {n_wit}")


def o6_short(rep):
    _o6_battin(rep, 1)


def o6_long(rep):
    _o6_battin(rep, -1)


# =====================================================================================
# O4  determineTransferDirection
# =====================================================================================
def replay_direction(d):
    from resonaate.physics.bodies import Earth
    from resonaate.physics.orbit_determination import lambert as L

    x = np.array(d["x"], dtype=float)
    dt = float(d["dt"])
    got = L.determineTransferDirection(x, dt)
    half = math.pi * math.sqrt(np.linalg.norm(x[:3]) ** 3 / Earth.mu)
    exp = 1 if dt < half * (1 - 0.9 * TOL_T) else (-1 if dt > half * (1 + 0.9 * TOL_T) else None)
    return (exp is not None and got != exp), {"returned": got, "half_period_s": half, "dt": dt}


def o4_direction(rep):
    from resonaate.physics.bodies import Earth
    from resonaate.physics.orbit_determination import lambert as L

    mu, pi, tol = rv(Earth.mu), rv(PI_F), rv(TOL_T)
    for dim in (3, 6):
        def run(dim=dim):
            x = reals(f"x{dim}", dim)
            dt = real("dt")
            q = (x[0] * x[0] + x[1] * x[1] + x[2] * x[2]).t
            assume(dt.t > 0, q >= 6378 ** 2, q <= 500000 ** 2)
            if dim == 6:
                assume((x[3] * x[3] + x[4] * x[4] + x[5] * x[5]).t <= 144)
            return x, dt, L.determineTransferDirection(x, dt)

        res = explore(run, max_paths=16)
        seen = set()
        for r in res:
            if r.exc is not None:
                rep.error(f"exception[{dim}]", repr(r.exc))
                continue
            x, dt, out = r.out
            tag = f"{dim}d/{_tag(r)}"
            rho, hp = z3.Real("rho"), z3.Real("hp")
            q = (x[0] * x[0] + x[1] * x[1] + x[2] * x[2]).t
            cons = r.constraints + [rho > 0, rho * rho == q, hp > 0, hp * hp * mu == pi * pi * rho * rho * rho]
            if rep.feasible(f"path-{tag}", cons) is None:
                continue
            if not isinstance(out, int):
                rep.error(f"type[{tag}]", f"returned {out!r}")
                continue
            seen.add(out)
            if out == 0:
                continue  # dt exactly half the code's period: a single point, not replayable in doubles (outside)
            goal = {1: dt.t < hp * (1 + tol), -1: dt.t > hp * (1 - tol)}[out]
            inputs = lambda m, x=x, dt=dt: {"x": marray(m, x), "dt": mfloat(m, dt.t)}  # noqa: E731
            rep.prove(f"returns {out}[{tag}]", goal, cons, inputs=inputs, replay=replay_direction,
                      sample="+1 only below, -1 only above half the period 2 pi sqrt(|r|^3/mu) of the circular orbit through r (0.1 % band)")
        if not {1, -1} <= seen:
            rep.error(f"reach[{dim}]", f"outcomes seen: {sorted(seen)}")


# =====================================================================================
# O5  LambertIOD.determineNewEstimateState
# =====================================================================================
JD0 = 2459304.5
SAT, OTHER = 10001, 10002


class SymJD(float):
    """A Julian date handed to SQLAlchemy as a float while carrying its symbolic value."""

    def __new__(cls, sym):
        o = float.__new__(cls, JD0)
        o.sym = sym
        return o

    def __sub__(self, other):
        return self.sym - (other.sym if isinstance(other, SymJD) else other)

    def __rsub__(self, other):
        return (other.sym if isinstance(other, SymJD) else other) - self.sym


class _ST:
    """ScenarioTime(t).convertToJulianDate(jd0) = jd0 + t / 86400 (exact)."""

    def __init__(self, t):
        self.t = t

    def convertToJulianDate(self, start):  # noqa: N802
        return SymJD(SReal(float(start)) + self.t / 86400)


class _Obs:
    def __init__(self, name, t, target, optical, rng):
        self.name, self.t = name, t
        self.julian_date = SymJD(SReal(JD0) + t / 86400)
        self.target_id, self.optical, self.range_km = target, optical, rng
        self.pos = reals("p_" + name, 3)


def _eval_clause(c, row):
    """Evaluate the where-clause the real code built on one symbolic row."""
    from resonaate.common.labels import SensorLabel

    if hasattr(c, "clauses"):
        out = SBool(z3.BoolVal(True))
        for x in c.clauses:
            out = out & _eval_clause(x, row)
        return out
    key, op, val = c.left.key, c.operator.__name__, c.right.value
    if key == "target_id" and op == "eq":
        return row.target_id == val
    if key == "julian_date" and isinstance(val, SymJD):
        a, b = row.julian_date.sym, val.sym
        return {"le": a <= b, "ge": a >= b, "lt": a < b, "gt": a > b}[op]
    if key == "sensor_type" and op == "ne" and val == SensorLabel.OPTICAL:
        o = row.optical
        return ~o if isinstance(o, SBool) else SBool(z3.BoolVal(not o))
    if key == "sensor_type" and op == "in_op" and set(val) == {SensorLabel.RADAR, SensorLabel.ADV_RADAR}:
        o = row.optical
        return ~o if isinstance(o, SBool) else SBool(z3.BoolVal(not o))
    if key == "sensor_type" and op == "eq" and val in (SensorLabel.RADAR, SensorLabel.ADV_RADAR):
        raise Unsupported("the stub database does not distinguish the two radar types")
    raise Unsupported(f"where-clause term {key} {op} {val!r}")


class _DB:
    def __init__(self, rows):
        self.rows, self.queries = rows, []

    def getData(self, query, multi=True):  # noqa: N802
        self.queries.append(query)
        wc = query.whereclause
        sel = [r for r in self.rows if wc is None or bool(_eval_clause(wc, r))]
        txt = " ".join(str(query).split())
        if "ORDER BY observations.julian_date ASC" in txt or txt.endswith("ORDER BY observations.julian_date"):
            out = []
            for r in sel:
                i = 0
                while i < len(out) and bool(out[i].julian_date.sym <= r.julian_date.sym):
                    i += 1
                out.insert(i, r)
            sel = out
        elif "ORDER BY observations.julian_date DESC" in txt:
            out = []
            for r in sel:
                i = 0
                while i < len(out) and bool(out[i].julian_date.sym >= r.julian_date.sym):
                    i += 1
                out.insert(i, r)
            sel = out
        elif "ORDER BY" in txt:
            raise Unsupported(txt[-80:])
        return sel


def _run_iod(nrows, gate_only):
    from resonaate.estimation import initial_orbit_determination as IODM

    t_det, t_now = real("t_det"), real("t_now")
    assume(t_det.t >= 0, t_now.t > t_det.t)
    rows = []
    for i in range(nrows):
        t = real(f"t{i}")
        assume(t.t >= 0, t.t < t_now.t)
        if gate_only:
            tgt, opt = SAT, False
            assume(t.t >= t_det.t)
        else:
            tgt = SInt(z3.If(z3.Bool(f"mine{i}"), z3.IntVal(SAT), z3.IntVal(OTHER)))
            opt = boolean(f"opt{i}")
        rows.append(_Obs(f"s{i}", t, tgt, opt, real(f"srng{i}")))
    for i in range(nrows):
        for j in range(i):
            assume(rows[i].t.t != rows[j].t.t)
    cur = []
    if gate_only:
        rg = real("crng")
        assume(rg.t > 0)
        cur.append(_Obs("c1", t_now, SAT, False, rg))
    elif bool(boolean("cur_any")):
        cur.append(_Obs("c0", t_now, SAT, True, None))
        if bool(boolean("cur_radar")):
            rg = real("crng")
            assume(rg.t > 0)
            cur.append(_Obs("c1", t_now, SAT, False, rg))
    for o in rows + cur:
        assume((o.pos[0] * o.pos[0] + o.pos[1] * o.pos[1] + o.pos[2] * o.pos[2]).t >= 6378 ** 2)
    db = _DB(rows)
    calls = []

    def method(p1, p2, dt, tm, *a, **k):
        v1, v2 = reals(f"v1_{len(calls)}", 3), reals(f"v2_{len(calls)}", 3)
        calls.append((p1, p2, dt, tm, v1, v2))
        return v1, v2

    iod = IODM.LambertIOD(60, method, SAT, JD0)
    with shadow(IODM, getDBConnection=lambda: db, ScenarioTime=_ST, radarObs2eciPosition=lambda o: o.pos):
        sol = iod.determineNewEstimateState(cur, t_det, t_now)
    return sol, rows, cur, calls, db, t_det, t_now


def _replay_iod_setup(stored, current, t_det, t_now, method):
    """Run the REAL LambertIOD on a real in-memory database holding `stored` (dicts) with current observations `current`."""
    from resonaate.common.labels import SensorLabel
    from resonaate.data.agent import AgentModel
    from resonaate.data.epoch import Epoch
    from resonaate.data.resonaate_database import ResonaateDatabase
    from resonaate.estimation import initial_orbit_determination as IODM
    from resonaate.physics.time.stardate import JulianDate, ScenarioTime, julianDateToDatetime

    db = ResonaateDatabase(db_path=None)
    db.insertData(AgentModel(unique_id=300000, name="sensor"), AgentModel(unique_id=SAT, name="rso"), AgentModel(unique_id=OTHER, name="other"))
    epochs = set()
    objs = []
    for o in list(stored) + list(current):
        jd = JD0 + o["t"] / 86400.0
        ob = _real_obs(o["sensor"], o["target"], jd)
        ob.target_id = o["target_id"]
        if o["optical"]:
            ob.sensor_type = SensorLabel.OPTICAL
            ob.range_km = None
            ob.range_rate_km_p_sec = None
        objs.append(ob)
        if ob.julian_date not in epochs:
            epochs.add(ob.julian_date)
            db.insertData(Epoch(julian_date=ob.julian_date, timestampISO=julianDateToDatetime(JulianDate(ob.julian_date)).isoformat(timespec="microseconds")))
    for ob in objs[:len(stored)]:
        db.insertData(ob)
    iod = IODM.LambertIOD(60, method, SAT, JulianDate(JD0))
    with shadow(IODM, getDBConnection=lambda: db):
        sol = iod.determineNewEstimateState(objs[len(stored):], ScenarioTime(t_det), ScenarioTime(t_now))
    return sol


def _site_eci(jd):
    from resonaate.physics.time.stardate import JulianDate, julianDateToDatetime
    from resonaate.physics.transforms.methods import ecef2eci, lla2ecef

    return ecef2eci(lla2ecef(np.array([0.3, 0.5, 0.1])), julianDateToDatetime(JulianDate(jd)))


def replay_iod_gate(d):
    """Noise-free radar observations of a circular orbit, dt = frac * period apart; real solver, real database.  Both orbit classes of the plane
    are tried (prograde and retrograde motion): the claim is about every near-circular orbit."""
    out, bad = {}, False
    for sense, name in ((1, "prograde"), (-1, "retrograde")):
        b, o = _replay_iod_gate_one(d, sense)
        out[name] = o
        bad = bad or b
    return bad, out


def _replay_iod_gate_one(d, sense):
    from resonaate.physics.bodies import Earth
    from resonaate.physics.orbit_determination import lambert as L

    n = float(d["radius_km"])
    frac = float(d["fraction_of_period"])
    mu = Earth.mu
    period = 2 * math.pi * math.sqrt(n ** 3 / mu)
    t_prev, t_det = float(d.get("t_prev", 600.0)), float(d.get("t_det", 0.0))
    dt = frac * period
    t_now = t_prev + dt
    Q = _generic_rotation()
    w = sense * math.sqrt(mu / n ** 3)

    def state(t):
        th = w * t
        return np.concatenate((Q @ np.array([n * math.cos(th), n * math.sin(th), 0.0]), Q @ np.array([-n * w * math.sin(th), n * w * math.cos(th), 0.0])))

    xa, xb = state(t_prev), state(t_now)
    stored = [{"t": t_prev, "sensor": _site_eci(JD0 + t_prev / 86400), "target": xa, "target_id": SAT, "optical": False}]
    current = [{"t": t_now, "sensor": _site_eci(JD0 + t_now / 86400), "target": xb, "target_id": SAT, "optical": False}]
    out = {}
    bad = False
    for fn in (L.lambertUniversal, L.lambertBattin):
        sol = _replay_iod_setup(stored, current, t_det, t_now, fn)
        if not sol.convergence or sol.state_vector is None:
            out[fn.__name__] = {"convergence": sol.convergence, "message": sol.message}
            bad = True
        else:
            e = float(np.abs(np.asarray(sol.state_vector) - xb).max())
            out[fn.__name__] = {"convergence": True, "max_state_error": e}
            bad = bad or e > 1e-3
    return bad, {"radius_km": n, "dt_s": dt, "fraction_of_period": frac, "result": out, "truth_state": xb}


def replay_iod_select(d):
    """Stored rows as chosen by the solver (epochs, owner, type), positions on a circular orbit; real database and query."""
    from resonaate.physics.bodies import Earth

    n, mu = float(d.get("radius_km", 7000.0)), Earth.mu
    Q = _generic_rotation()
    w = math.sqrt(mu / n ** 3)

    def state(t):
        th = w * t
        return np.concatenate((Q @ np.array([n * math.cos(th), n * math.sin(th), 0.0]), Q @ np.array([-n * w * math.sin(th), n * w * math.cos(th), 0.0])))

    t_now, t_det = float(d["t_now"]), float(d["t_det"])
    stored = [{"t": float(s["t"]), "sensor": _site_eci(JD0 + float(s["t"]) / 86400), "target": state(float(s["t"])), "target_id": SAT if s["mine"] else OTHER, "optical": bool(s["optical"])}
              for s in d["stored"]]
    current = []
    if d["cur_any"]:
        current.append({"t": t_now, "sensor": _site_eci(JD0 + t_now / 86400), "target": state(t_now), "target_id": SAT, "optical": True})
        if d["cur_radar"]:
            current.append({"t": t_now, "sensor": _site_eci(JD0 + t_now / 86400), "target": state(t_now), "target_id": SAT, "optical": False})
    calls = []

    def method(p1, p2, dt, tm, *a, **k):
        calls.append((np.array(p1), np.array(p2), float(dt), tm))
        return np.array([1.0, 2.0, 3.0]), np.array([4.0, 5.0, 6.0])

    try:
        sol = _replay_iod_setup(stored, current, t_det, t_now, method)
    except Exception as e:  # noqa: BLE001
        return True, {"raised": repr(e)}
    ok = [s for s in stored if s["target_id"] == SAT and not s["optical"] and t_det - 1e-3 <= s["t"] <= t_now + 1e-3]
    exp_prev = max(ok, key=lambda s: s["t"]) if ok else None
    period = 2 * math.pi / w
    detail = {"convergence": sol.convergence, "message": sol.message, "calls": len(calls), "matching_rows": len(ok)}
    if exp_prev is None or not (d["cur_any"] and d["cur_radar"]):
        return bool(sol.convergence), detail
    dt = t_now - exp_prev["t"]
    if not sol.convergence:
        return dt < 0.35 * period, detail
    p1, p2, dtc, tm = calls[-1]
    e1 = float(np.abs(p1 - exp_prev["target"][:3]).max())
    e2 = float(np.abs(p2 - state(t_now)[:3]).max())
    e3 = abs(dtc - dt)
    e4 = float(np.abs(np.asarray(sol.state_vector) - np.concatenate((state(t_now)[:3], [4.0, 5.0, 6.0]))).max())
    detail.update({"initial_position_error": e1, "final_position_error": e2, "transit_error_s": e3, "state_error": e4, "transfer_method": tm})
    exp_tm = 1 if dt < 0.49 * period else (-1 if dt > 0.51 * period else tm)
    return bool(e1 > 1e-3 or e2 > 1e-3 or e3 > 1e-2 or e4 > 1e-3 or tm != exp_tm), detail


GENERIC_IOD_POINTS = [
    {"radius_km": 7000.0, "t_det": 100.0, "t_now": 1500.0, "cur_any": True, "cur_radar": True, "stored": [{"t": 700.0, "mine": True, "optical": False}]},
    {"radius_km": 42164.0, "t_det": 100.0, "t_now": 25300.0, "cur_any": True, "cur_radar": True, "stored": [{"t": 1300.0, "mine": True, "optical": False}]},
    {"radius_km": 100000.0, "t_det": 100.0, "t_now": 91900.0, "cur_any": True, "cur_radar": True, "stored": [{"t": 1000.0, "mine": True, "optical": False}]},
    {"radius_km": 150000.0, "t_det": 100.0, "t_now": 125000.0, "cur_any": True, "cur_radar": True,
     "stored": [{"t": 500.0, "mine": True, "optical": False}, {"t": 2000.0, "mine": True, "optical": False}]},
]


def o5a_selection(rep, nrows=2):
    res = explore(lambda: _run_iod(nrows, False), max_paths=6000, max_depth=120)
    rep.note(f"paths={len(res)}")
    tdet, tnow = z3.Real("t_det"), z3.Real("t_now")
    T = [z3.Real(f"t{i}") for i in range(nrows)]
    mine = [z3.Bool(f"mine{i}") for i in range(nrows)]
    opt = [z3.Bool(f"opt{i}") for i in range(nrows)]
    match = [z3.And(mine[i], z3.Not(opt[i]), T[i] >= tdet, T[i] <= tnow) for i in range(nrows)]
    any_match = z3.Or(*match)
    is_prev = [z3.And(match[i], *[z3.Or(z3.Not(match[j]), T[j] < T[i]) for j in range(nrows) if j != i]) for i in range(nrows)]
    cur_any, cur_radar = z3.Bool("cur_any"), z3.Bool("cur_radar")
    # margins so that counterexamples survive the day-fraction arithmetic of real Julian dates in the replay
    sep = [tnow - tdet >= 120, tnow <= 40000, tdet >= 1]
    for i in range(nrows):
        sep += [z3.Or(T[i] - tdet >= 5, tdet - T[i] >= 5), tnow - T[i] >= 120, T[i] >= 1]
        for j in range(i):
            sep += [z3.Or(T[i] - T[j] >= 60, T[j] - T[i] >= 60)]

    def inputs(m):
        return {"t_det": mfloat(m, tdet), "t_now": mfloat(m, tnow), "cur_any": bool(mval(m, cur_any)), "cur_radar": bool(mval(m, cur_radar)),
                "stored": [{"t": mfloat(m, T[i]), "mine": bool(mval(m, mine[i])), "optical": bool(mval(m, opt[i]))} for i in range(nrows)]}

    kw = dict(inputs=inputs, replay=replay_iod_select)
    n_conv = n_ref = 0
    outcomes = set()
    for k, r in enumerate(res):
        if _done(rep):
            return
        if r.exc is not None:
            # a path the proxies cannot follow (design section 10): generic points of the path - observation pairs minutes, hours and more than a day
            # apart on orbits small and large enough for the single-pass gate - are run on the real code against the independent expectation; a
            # reproduced deviation is the violation, otherwise the path stays a harness error (nothing is claimed for it)
            hit = None
            for pt in GENERIC_IOD_POINTS:
                try:
                    bad, detail = replay_iod_select(pt)
                except Exception as e:  # noqa: BLE001
                    bad, detail = False, {"raised": repr(e)}
                if bad:
                    hit = (pt, detail)
                    break
            if hit is not None:
                rep.prove(f"generic-point#{k}", z3.BoolVal(False), [], inputs=lambda m, pt=hit[0]: pt, replay=replay_iod_select,
                          sample="a path the proxies cannot follow, judged on the real code at generic points (stored/current radar observations 10 min .. 1.4 days apart)")
            else:
                rep.prove(f"no-exception#{k}", z3.BoolVal(False), r.constraints + sep, sample=f"determineNewEstimateState does not raise ({r.exc!r})"[:200], **kw)
            continue
        sol, rows, cur, calls, db, t_det, t_now = r.out
        cons = r.constraints
        outcomes.add((bool(sol.convergence), str(sol.message)[:24]))
        have_radar = len(cur) == 2
        have_any = len(cur) >= 1
        if not sol.convergence:
            n_ref += 1
            goals = [z3.BoolVal(sol.state_vector is None), z3.BoolVal(len(calls) == 0)]
            # a refusal needs a reason: no current radar observation, no matching stored observation, or the single-pass gate (O5b)
            gate = str(sol.message).startswith("Observations not from a single pass")
            if have_radar and not gate:
                goals.append(z3.Not(any_match))
            if gate:
                goals.append(z3.And(z3.BoolVal(have_radar), any_match))
            rep.prove(f"refusal#{k}", z3.And(*goals), cons + sep, timeout_ms=20000,
                      sample="not converged => no state, solver not called, and the reason is real: no radar observation now, or no stored radar observation of this RSO in [detection, now], "
                             "or (both exist and) the single-pass gate refused (O5b)", **kw)
            continue
        n_conv += 1
        goals = [z3.BoolVal(have_any and have_radar), any_match, z3.BoolVal(len(calls) == 1)]
        if len(calls) == 1 and have_radar:
            p1, p2, dt, tm, v1, v2 = calls[0]
            sv = sol.state_vector
            goals.append(z3.BoolVal(np.shape(sv) == (6,)))
            if np.shape(sv) == (6,) and np.shape(p1) == (3,) and np.shape(p2) == (3,):
                goals.append(eq_arrays(sv[:3], cur[1].pos))
                goals.append(eq_arrays(sv[3:], v2))
                goals.append(eq_arrays(p2, cur[1].pos))
                goals.append(z3.And(*[z3.Implies(is_prev[i], z3.And(eq_arrays(p1, rows[i].pos), _S(dt).t == tnow - T[i])) for i in range(nrows)]))
                goals.append(_S(dt).t > 0)
                goals.append(z3.BoolVal(isinstance(tm, int) and tm in (1, -1, 0)))
            else:
                goals.append(z3.BoolVal(False))
        rep.prove(f"converged#{k}", z3.And(*goals), cons + sep, timeout_ms=20000,
                  sample="converged => a current radar observation and a matching stored one exist; the solver was called once with (position of the LATEST stored radar observation of "
                         "this RSO in [detection, now], position of the current radar observation, their time difference in seconds, sense); state = (current position, returned final velocity)", **kw)
    rep.note(f"outcomes={sorted(outcomes)}")
    if n_conv < 2 or n_ref < 3:
        rep.error("reach", f"converged paths={n_conv}, refusing paths={n_ref}")
    rep.reachable("two-matching-rows", sep + match + [cur_any, cur_radar, T[0] > T[1]] if nrows >= 2 else sep + match)


def o5a_selection3(rep):
    o5a_selection(rep, 3)


def o5b_gate(rep):
    from resonaate.physics.bodies import Earth

    res = explore(lambda: _run_iod(1, True), max_paths=64, max_depth=60)
    rep.note(f"paths={len(res)}")
    tnow, t0 = z3.Real("t_now"), z3.Real("t0")
    mu, pi = rv(Earth.mu), rv(PI_F)
    n_conv = 0
    for k, r in enumerate(res):
        if r.exc is not None:
            rep.error(f"exception#{k}", repr(r.exc))
            continue
        sol, rows, cur, calls, db, t_det, t_now = r.out
        p1, p2 = rows[0].pos, cur[0].pos
        rho1, rho2, per = z3.Real("rho1"), z3.Real("rho2"), z3.Real("per")
        q1 = (p1[0] * p1[0] + p1[1] * p1[1] + p1[2] * p1[2]).t
        q2 = (p2[0] * p2[0] + p2[1] * p2[1] + p2[2] * p2[2]).t
        pre = [rho1 > 0, rho1 * rho1 == q1, rho2 > 0, rho2 * rho2 == q2, per > 0, per * per * mu == 4 * pi * pi * rho2 * rho2 * rho2,
               rho2 >= 6378, rho2 <= 500000, rho1 >= rv(0.99) * rho2, rho1 <= rv(1.01) * rho2]
        transit = tnow - t0
        cons = r.constraints + pre
        if rep.feasible(f"path#{k}", cons, timeout_ms=10000) is None:
            continue

        def inputs(m):
            return {"radius_km": mfloat(m, rho2), "fraction_of_period": mfloat(m, transit) / mfloat(m, per), "t_prev": 600.0, "t_det": 0.0}

        kw = dict(inputs=inputs, replay=replay_iod_gate)
        regions = {"C20-iod-single-pass-gate": transit >= rv(0.35) * per}
        if sol.convergence:
            n_conv += 1
            tm = calls[0][3] if calls else None
            rep.prove(f"short-way#{k}", z3.Implies(transit <= rv(0.4) * per, z3.BoolVal(tm == 1)), cons, timeout_ms=20000,
                      sample="an accepted arc below 40 % of the period is handed to the solver as a short-way transfer", **kw)
            rep.prove(f"single-revolution#{k}", transit < per, cons, timeout_ms=20000, sample="an accepted arc is shorter than one period of the circular orbit through the current position", **kw)
        else:
            # robust: stay 0.5 % inside the 40 % bound
            rep.prove(f"accepts-40%#{k}", z3.Not(transit <= rv(0.398) * per), cons, timeout_ms=20000, regions=regions,
                      sample="noise-free radar observations of a near-circular orbit less than 40 % of a period apart are not refused", **kw)
    if n_conv < 1:
        rep.error("reach", "no converged path")


REPLAYS = {"O1a": replay_sez, "O1b": replay_obs, "O1c": replay_obs_seq, "O1c3": replay_obs_seq, "O2": replay_lagrange, "O3s": replay_universal, "O3l": replay_universal, "O3any": replay_universal, "O3b": replay_bracket, "O6s": replay_battin, "O6l": replay_battin,
           "O4": replay_direction, "O5a": replay_iod_select, "O5a3": replay_iod_select, "O5b": replay_iod_gate}


def obligations(tier):
    obs = [
        Ob("O1a", o1a_sez, "razel2sez(getRange, getElevation, getAzimuth) = identity on SEZ positions, all branches", 120),
        Ob("O1b", o1b_frames, "radarObs2eciPosition inverts getSlantRangeVector -> range/az/el (site, frames, date)", 200),
        Ob("O1c", o1c_moving, "radarObs2eciPosition for consecutive observations by one sensor whose state changes between epochs (space-based radar): every conversion exact", 240),
        Ob("O2", o2_lagrange, "_calculateVelocities: r2 = f r1 + g v1, v2 = fdot r1 + gdot v1, h conserved", 60),
        Ob("O3s", o3_short, "lambertUniversal short way, real code, first bisection evaluation: one common Keplerian orbit, requested sense", 240),
        Ob("O3l", o3_long, "lambertUniversal long way, real code, first bisection evaluation: one common Keplerian orbit, requested sense", 240),
        Ob("O3any", o3_any_quick if tier == "quick" else o3_any_thorough, "lambertUniversal for arbitrary iterate values (providers), both senses", 240 if tier == "quick" else 800),
        Ob("O3b", o3b_quick if tier == "quick" else o3b_thorough, "lambertUniversal: the bisection on psi encloses (and halves towards) the psi of every single-revolution elliptic arc, e <= 0.7, both senses", 240 if tier == "quick" else 800),
        Ob("O6s", o6_short, "lambertBattin short way: after the iteration (providers), the conic selected for a time of flight >= half the minimum-energy period; Lagrange consistency", 240),
        Ob("O6l", o6_long, "lambertBattin long way: after the iteration (providers), the conic selected for a time of flight <= half the minimum-energy period; Lagrange consistency", 240),
        Ob("O4", o4_direction, "determineTransferDirection = half-period test of the circular orbit", 60),
        Ob("O5a", o5a_selection, "LambertIOD.determineNewEstimateState over solver-chosen database rows: selection, solver arguments, assembly, refusals", 240),
        Ob("O5b", o5b_gate, "LambertIOD accepts every near-circular arc below 40 % of a period (single-pass gate)", 120),
    ]
    if tier == "thorough":
        obs.append(Ob("O5a3", o5a_selection3, "as O5a with three stored observations", 800))
        obs.append(Ob("O1c3", o1c_moving3, "as O1c with three consecutive observations", 600))
    return obs
