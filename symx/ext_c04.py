"""Engine helpers for the C04 harness (geodetic closed form).

* `cbrt_pow()`   - context manager: while active, `x ** (1.0 / 3)` on an SReal is the *real cube root contract*
  (fresh c with c >= 0, c*c*c == x, domain condition x >= 0 - numpy returns nan for a negative base, so a negative
  base is outside the function's domain exactly as for sqrt).  Applications are keyed by their argument term and every
  two applications on a path are related by strict monotonicity (x1 < x2 <=> c1 < c2, x1 == x2 <=> c1 == c2), which is
  what makes the cube root a function.  symx.core is not edited: SReal.__pow__ is wrapped for the duration of the block.
* `sym_sign`     - numpy.sign for proxies (an if-then-else term, no fork).
* `sym_arctan`   - numpy.arctan for proxies: arctan(u) := arctan2(u, 1) (the engine's arctan2 contract: (cos, sin) =
  (1, u)/sqrt(1 + u*u), value in (-pi/2, pi/2)) + oddness/monotonicity between applications.
* `fork_sign`    - numpy.sign by forking into concrete +1/-1/0.
* `explore_inputs_first` - symx.core.explore with a sliced / input-only shortcut for branch feasibility.
* `real_divmod()` - context manager: `//` and `divmod` of an SReal by a positive literal (floor semantics).
* `refute_fresh`  - a refutation query in a fresh z3 context (process-history independent nlsat variable order).
* `Chain`        - proof scripts: abstract schemas proved on free variables, instantiated on the terms of a path.
"""
from __future__ import annotations

import contextlib
from fractions import Fraction

import numpy as np
import z3

from .core import SInt, SReal, _frac, cur

_THIRD = (Fraction(1.0 / 3), Fraction(1, 3))


def cbrt(x: SReal) -> SReal:
    s = z3.simplify(x.t)
    if z3.is_rational_value(s) and s.numerator_as_long() == 0:
        return SReal(0)
    p = cur()
    key = ("cbrt", s.get_id())
    p.keep.append(s)
    if key in p.trig:
        return SReal(p.trig[key][0])
    c = p.new("cbrt")
    p.add_domain(x.t >= 0)
    p.assume(z3.And(c >= 0, c * c * c == x.t))
    for c2, x2 in p.apps.setdefault("cbrt", []):
        p.assume(z3.And((x.t < x2) == (c < c2), (x.t == x2) == (c == c2)))
    p.apps["cbrt"].append((c, x.t))
    p.trig[key] = (c, s)
    return SReal(c)


@contextlib.contextmanager
def cbrt_pow():
    orig = SReal.__pow__

    def __pow__(self, e):
        if isinstance(e, (float, np.floating, Fraction)) and _frac(e) in _THIRD:
            return cbrt(self)
        return orig(self, e)

    SReal.__pow__ = __pow__
    try:
        yield
    finally:
        SReal.__pow__ = orig


def sym_sign(x):
    if isinstance(x, SReal):
        return x.sign()
    if isinstance(x, SInt):
        return SReal(z3.ToReal(x.t)).sign()
    return np.sign(x)


def sym_arctan(u):
    """arctan(u) := arctan2(u, 1); every two applications on a path are related by the facts that make arctan an odd,
    strictly increasing function (u1 == -u2 => a1 == -a2; u1 < u2 <=> a1 < a2; u1 == u2 <=> a1 == a2)."""
    if isinstance(u, (SReal, SInt)):
        u = u if isinstance(u, SReal) else SReal(z3.ToReal(u.t))
        a = u.arctan2(SReal(1))
        p = cur()
        for a2, u2 in p.apps.setdefault("arctan", []):
            p.assume(z3.And(z3.Implies(u.t == -u2, a.t == -a2), (u.t < u2) == (a.t < a2), (u.t == u2) == (a.t == a2)))
        p.apps["arctan"].append((a.t, u.t))
        return a
    return np.arctan(u)


# ----------------------------------------------------------------------------------------------------------------
def refute_fresh(goal, hyps, timeout_ms=60000):
    """`symx.core.refute` decided in a *fresh z3 process*: the query is translated into a new context in a fixed order, written as SMT-LIB and checked
    by a new interpreter.  Reason (measured): nlsat's running time on the lemma schemas depends on its variable order, which follows AST numbering and
    memory layout, i.e. the whole history of the calling process - the same schema takes 4 s in a clean process and more than 240 s in some harness
    processes.  A clean process makes the time reproducible.  Falls back to the in-process fresh context when the sub-process cannot be run.
    No model is returned (a `sat` of a schema is a harness error anyway)."""
    import os
    import subprocess
    import sys
    import tempfile
    import time

    from .core import STATS, Verdict

    ctx = z3.Context()
    sol = z3.Solver(ctx=ctx)
    sol.set("timeout", int(timeout_ms))
    for h in hyps:
        sol.add(h.translate(ctx))
    sol.add(z3.Not(goal).translate(ctx))
    t0 = time.time()
    r, reason = None, ""
    try:
        fd, path = tempfile.mkstemp(suffix=".smt2", prefix="c04_schema_")
        with os.fdopen(fd, "w") as f:
            f.write(sol.to_smt2())
        code = ("import sys, z3\n"
                "s = z3.Solver()\n"
                f"s.set('timeout', {int(timeout_ms)})\n"
                "s.from_file(sys.argv[1])\n"
                "print('VERDICT', s.check())\n")
        pr = subprocess.run([sys.executable, "-c", code, path], capture_output=True, text=True, timeout=timeout_ms / 1000 + 60, env=dict(os.environ))
        for line in pr.stdout.splitlines():
            if line.startswith("VERDICT "):
                r = line.split()[1]
        if r is None:
            reason = f"sub-process gave no verdict: {pr.stderr[-200:]}"
    except (OSError, subprocess.SubprocessError) as e:
        reason = f"sub-process failed: {e}"
    finally:
        try:
            os.remove(path)
        except (OSError, UnboundLocalError):
            pass
    if r is None:
        try:
            r = str(sol.check())
        except z3.Z3Exception as e:
            r, reason = "unknown", f"z3 error {e}"
    if r == "unknown" and not reason:
        reason = "timeout"
    dt = time.time() - t0
    STATS.queries += 1
    STATS.solver_s += dt
    if r == "unknown":
        STATS.unknown += 1
    return Verdict(r, None, dt, reason)


class Chain:
    """A proof script over *named abstract facts*.

    * facts:   name -> z3 formula over abstract variables (plain z3 Real constants).
    * schemas: name -> (hypothesis names, conclusion names).  A schema is a universally valid implication; it is
      *proved by the solver on the free abstract variables* (once per process) before its first use.
    * sigma:   substitution abstract variable -> term of the analysed path (a contract variable of the path or a term
      built from the inputs).  An abstract fact is *established* when its sigma-instance has been proved from
      constraints of the path (`leaf`) or when it is the conclusion of a valid schema all of whose hypotheses are
      established (`apply`).  Hence every established fact's instance is a consequence of the path constraints and may
      be used as a hypothesis of later queries.  Nothing is ever assumed: a leaf that is not proved is simply missing
      and the script stops (the caller reports the claim as undecided).
    """

    VALID = {}

    def __init__(self, rep, tag, facts, schemas, timeout_ms=60000, linear=()):
        self.rep, self.tag, self.F, self.S = rep, tag, facts, schemas
        self.linear = set(linear)  # schemas that are ring identities under polynomial equalities: decided by the linearisation prover (symx.poly)
        self.sigma = []
        self.have = []
        self.failed = []
        self.to = timeout_ms
        self.secs = 0.0
        self.cands = []  # (label, model, hypotheses, negated goal) of failed solver questions: candidate counterexamples, never believed before a replay

    # -- substitution ---------------------------------------------------------------------------------------------
    def bind(self, var, term):
        self.sigma = [(v, t) for v, t in self.sigma if not v.eq(var)] + [(var, term)]

    def inst(self, f):
        if isinstance(f, str):
            f = self.F[f]
        return z3.substitute(f, *self.sigma) if self.sigma else f

    def insts(self, names):
        return [self.inst(n) for n in names]

    def ok(self, *names):
        return all(n in self.have for n in names)

    # -- establishing facts -------------------------------------------------------------------------------------------
    def _record(self, label, v):
        from .core import Verdict  # noqa: F401

        self.secs += v.secs
        self.rep._item(f"{self.tag}:{label}", "lemma", v)

    def leaf(self, names, hyps, using=(), timeout_ms=None):
        """prove the instances of the named facts from code-level hypotheses (+ instances of established facts)"""
        from .core import refute

        names = [names] if isinstance(names, str) else list(names)
        miss = [u for u in using if u not in self.have]
        if miss:
            self.failed.append((names, f"missing {miss}"))
            return False
        goal = z3.And(*self.insts(names)) if len(names) > 1 else self.inst(names[0])
        v = refute(goal, list(hyps) + self.insts(using), timeout_ms or self.to)
        self._record("leaf:" + ",".join(names), v)
        if v.status == "unsat":
            self.have += [n for n in names if n not in self.have]
            return True
        if v.status == "sat":
            self.cands.append(("leaf:" + ",".join(names), v.model, list(hyps) + self.insts(using), z3.Not(goal)))
        self.failed.append((names, v.status))
        return False

    # -- all schemas of a script in one clean helper process, started early and read on demand ----------------------------------------------
    BATCH = None

    @classmethod
    def start_batch(cls, facts, schemas, timeout_ms=240000):
        """write every schema as SMT-LIB (fresh context, fixed order) and let one new interpreter decide them one after the other in the background;
        `valid` then waits for the verdict it needs.  Same reproducibility argument as `refute_fresh`, without one interpreter start per schema."""
        import os
        import subprocess
        import sys
        import tempfile

        try:
            d = tempfile.mkdtemp(prefix="c04_schemas_")
            names = [n for n in schemas if n not in cls.VALID]
            for k, n in enumerate(names):
                hyps, concl = schemas[n]
                ctx = z3.Context()
                sol = z3.Solver(ctx=ctx)
                for h in hyps:
                    sol.add(facts[h].translate(ctx))
                sol.add(z3.Not(z3.And(*[facts[c] for c in concl])).translate(ctx))
                with open(os.path.join(d, f"{k}.smt2"), "w") as f:
                    f.write(sol.to_smt2())
            code = ("import sys, time, z3\n"
                    "d, n = sys.argv[1], int(sys.argv[2])\n"
                    "for k in range(n):\n"
                    "    ctx = z3.Context()\n"
                    "    s = z3.Solver(ctx=ctx)\n"
                    f"    s.set('timeout', {int(timeout_ms)})\n"
                    "    s.from_file(d + '/' + str(k) + '.smt2')\n"
                    "    t0 = time.time()\n"
                    "    r = s.check()\n"
                    "    print('VERDICT', k, r, round(time.time() - t0, 3), flush=True)\n")
            pr = subprocess.Popen([sys.executable, "-c", code, d, str(len(names))], stdout=subprocess.PIPE, stderr=subprocess.DEVNULL, text=True, env=dict(os.environ))
            cls.BATCH = {"proc": pr, "names": names, "got": {}, "dir": d}
            import atexit

            atexit.register(cls.stop_batch)
        except (OSError, subprocess.SubprocessError):
            cls.BATCH = None

    @classmethod
    def stop_batch(cls):
        import shutil

        b, cls.BATCH = cls.BATCH, None
        if b:
            try:
                b["proc"].kill()
                b["proc"].wait()
            except OSError:
                pass
            shutil.rmtree(b["dir"], ignore_errors=True)

    @classmethod
    def _from_batch(cls, schema):
        from .core import STATS, Verdict

        b = cls.BATCH
        if not b or schema not in b["names"]:
            return None
        while schema not in b["got"]:
            line = b["proc"].stdout.readline()
            if not line:
                return None  # helper ended without this verdict
            p = line.split()
            if len(p) == 4 and p[0] == "VERDICT":
                b["got"][b["names"][int(p[1])]] = Verdict(p[2], None, float(p[3]), "timeout" if p[2] == "unknown" else "")
                STATS.queries += 1
                STATS.solver_s += float(p[3])
        return b["got"][schema]

    def valid(self, schema):
        if schema not in Chain.VALID:
            v = Chain._from_batch(schema)
            if v is not None and v.status == "unsat":
                self._record("schema:" + schema, v)
                Chain.VALID[schema] = True
                return True
        if schema not in Chain.VALID:
            hyps, concl = self.S[schema]
            v = None
            if schema in self.linear:
                from .poly import NotPolynomial, prove_linearized_auto

                try:
                    v = prove_linearized_auto([self.F[c] for c in concl], [self.F[h] for h in hyps], rounds=8, timeout_ms=60000)
                except NotPolynomial:
                    v = None
            if v is None or v.status != "unsat":
                v = refute_fresh(z3.And(*[self.F[c] for c in concl]), [self.F[h] for h in hyps], 240000)
            self._record("schema:" + schema, v)
            Chain.VALID[schema] = v.status == "unsat"
        return Chain.VALID[schema]

    def apply(self, schema):
        hyps, concl = self.S[schema]
        miss = [h for h in hyps if h not in self.have]
        if miss:
            self.failed.append((schema, f"missing {miss}"))
            return False
        if not self.valid(schema):
            self.failed.append((schema, "schema not proved"))
            return False
        self.have += [c for c in concl if c not in self.have]
        return True

    # -- matching contract variables ---------------------------------------------------------------------------------
    def match(self, apps, abstract_arg, var, hyps, skip=(), prefer=None, timeout_ms=15000):
        """find the contract application (v, arg) of the path whose argument is provably the instance of `abstract_arg`;
        binds the abstract variable `var` to v.  Returns (v, arg, target) or None."""
        from .core import refute

        target = self.inst(abstract_arg)
        order = list(apps)
        if prefer is not None and 0 <= prefer < len(order):
            order = [order[prefer]] + order[:prefer] + order[prefer + 1:]
        for v, arg in order:
            if any(v.eq(s_) for s_ in skip):
                continue
            vd = refute(arg == target, hyps, timeout_ms)
            self.secs += vd.secs
            if vd.status == "unsat":
                self.bind(var, v)
                self.rep._item(f"{self.tag}:match:{var}", "lemma", vd)
                return v, arg, target
            if vd.status == "sat":
                self.cands.append((f"match:{var}", vd.model, list(hyps), arg != target))
        self.failed.append((str(var), "no contract application matches"))
        return None


def fork_sign(x):
    """numpy.sign for proxies by forking (three paths): the analysed code multiplies by the result, a concrete +-1 keeps
    the terms polynomial."""
    if isinstance(x, (SReal, SInt)):
        if x > 0:
            return 1.0
        if x < 0:
            return -1.0
        return 0.0
    return np.sign(x)


# ----------------------------------------------------------------------------------------------------------------
def explore_inputs_first(fn, input_vars, max_paths=256, max_depth=64, branch_timeout_ms=5000, catch=(Exception,)):
    """symx.core.explore with a cheaper branch-feasibility query (same contract: every feasible path is returned; a side
    wrongly taken for feasible only adds a path, which the harness then has to handle like any other):

    1. the condition is first checked against the *slice* of the path constraints over its own variables
       (unsat there => the side is infeasible);
    2. a condition over input variables only whose slice is satisfiable is taken as feasible without asking for a model of the
       full (non-linear) path constraints;
    3. otherwise the full query with the branch timeout (unknown counts as feasible, as in symx.core)."""
    import time

    from .core import _CUR, STATS, Path, PathAbort, PathResult, UnwindingFailure, free_vars, slice_for

    names = set(input_vars)

    class _P(Path):
        def _query(self, cond):
            fv = free_vars(cond)
            sl = slice_for(cond, self.constraints())
            sol = z3.Solver()
            sol.set("timeout", 2000)
            sol.add(*sl)
            sol.add(cond)
            t0 = time.time()
            r = str(sol.check())
            STATS.solver_s += time.time() - t0
            STATS.branch_queries += 1
            if r == "unsat":
                return False, None
            if fv <= names and r == "sat":
                return True, None
            return Path._query(self, cond)

    results = []
    stack = [[]]
    while stack:
        prefix = stack.pop()
        if len(results) >= max_paths:
            raise UnwindingFailure(f"more than {max_paths} paths")
        p = _P(prefix, branch_timeout_ms)
        _CUR[0] = p
        try:
            try:
                out = fn()
                res = PathResult(p, out=out)
            except PathAbort:
                res = None
            except catch as e:
                res = PathResult(p, exc=e)
        finally:
            _CUR[0] = None
            p.solver = None
        if len(p.decisions) > max_depth:
            raise UnwindingFailure(f"branch depth > {max_depth}")
        for alt in p.pending:
            stack.append(alt)
        if res is not None:
            results.append(res)
            STATS.paths += 1
    return results


# ----------------------------------------------------------------------------------------------------------------
@contextlib.contextmanager
def real_divmod():
    """While active, SReal supports `//`, `divmod` and their reflected forms with a positive literal divisor
    (floor semantics: q = floor(x / m) as an integer-valued term, r = x - m q in [0, m)); symx.core is not edited."""
    from .core import _real_term

    def _lit(m):
        t = z3.simplify(_real_term(m)) if _real_term(m) is not None else None
        if t is None or not z3.is_rational_value(t) or t.numerator_as_long() <= 0:
            return None
        return t

    def __floordiv__(self, m):
        t = _lit(m)
        if t is None:
            return NotImplemented
        return SReal(z3.ToReal(z3.ToInt(self.t / t)))

    def __divmod__(self, m):
        t = _lit(m)
        if t is None:
            return NotImplemented
        q = z3.ToReal(z3.ToInt(self.t / t))
        return SReal(q), SReal(self.t - t * q)

    old = {n: SReal.__dict__.get(n) for n in ("__floordiv__", "__divmod__")}
    SReal.__floordiv__, SReal.__divmod__ = __floordiv__, __divmod__
    try:
        yield
    finally:
        for n, v in old.items():
            if v is None:
                delattr(SReal, n)
            else:
                setattr(SReal, n, v)
