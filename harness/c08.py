"""C08 - tasking bookkeeping is exact and independent of the order parallel jobs finish."""
from __future__ import annotations

import contextlib
import datetime as _dt
import itertools
import types

import numpy as np
import z3

from symx.core import SBool, SInt, SReal, assume, boolean, cur, explore, integer, mfloat, mval, real, reals, rv
from symx.runner import Ob
from symx.ext_c01 import closeness_shadows
from symx.stubs import shadow

ID = "C08"
TECHNIQUE = ("the real JobExecutor.join, the processResults of the reward/task-execution/propagation/prediction/update registrations, TaskingEngine bookkeeping, "
             "CentralizedTaskingEngine.assess, (step-* obligations) the real Scenario.stepForward around it and (stored-* obligations) the real Scenario.propagateTo with the real "
             "saveDatabaseOutput, with sensing agents built by the real SensingAgent constructor, are executed with ray replaced by a stub whose completion order is a solver variable per ray.wait call; "
             "every task-execution job runs the real body of asyncExecuteTasking on the submission, its sensors' collections carrying symbolic payloads (boresight vectors, times, observe-or-miss bits); "
             "reward jobs return symbolic visibility bits; the database output interval is a solver variable; on every feasible path z3 proves the "
             "bookkeeping oracle over the symbolic payloads (unsat): the worker's result reports every tasked sensor once with its own pointing state, exactly one record per pair of the published "
             "decision matrix, sensor_changes and - after stepForward - the sensor agents' boresight/time_last_tasked equal to what the sensor's own collection returned whether it observed or missed, "
             "update jobs fed with their own target's observations, every collected record handed to the database exactly once in the first output after its step; "
             "so all completion orders, all tasking outcomes and all output intervals within the bounds are covered")
FLOAT_SEMANTICS = "exact (payloads are opaque reals; only equality and comparisons matter)"
ENCODED = ["resonaate.parallel.tasking_execution:asyncExecuteTasking._function",
    "resonaate.parallel:JobExecutor.enqueueJob", "resonaate.parallel:JobExecutor.join",
    "resonaate.parallel.tasking_execution:TaskExecutionRegistration.generateSubmission",
    "resonaate.parallel.tasking_execution:TaskExecutionRegistration.processResults",
    "resonaate.parallel.tasking_reward_generation:TaskingRewardRegistration.processResults",
    "resonaate.parallel.agent_propagation:PropagateRegistration.processResults",
    "resonaate.tasking.engine.engine_base:TaskingEngine.saveObservations", "resonaate.tasking.engine.engine_base:TaskingEngine.saveMissedObservations",
    "resonaate.tasking.engine.engine_base:TaskingEngine.updateFromAsyncTaskExecution", "resonaate.tasking.engine.engine_base:TaskingEngine.getCurrentObservations",
    "resonaate.tasking.engine.engine_base:TaskingEngine.getCurrentMissedObservations",
    "resonaate.tasking.engine.engine_base:TaskingEngine.setHandles", "resonaate.tasking.engine.engine_base:TaskingEngine.resetHandles",
    "resonaate.tasking.engine.centralized_engine:CentralizedTaskingEngine.assess",
    "resonaate.tasking.engine.centralized_engine:CentralizedTaskingEngine.getCurrentTasking",
    "resonaate.scenario.scenario:Scenario.stepForward", "resonaate.scenario.scenario:Scenario.propagateTo", "resonaate.scenario.scenario:Scenario.saveDatabaseOutput",
    "resonaate.agents.sensing_agent:SensingAgent.__init__", "resonaate.agents.sensing_agent:SensingAgent.updateInfo", "resonaate.agents.sensing_agent:SensingAgent.sensors",
]
BOUNDS = {"network": "2 targets x 3 sensors (quick), 3 x 3 (thorough); greedy and all-visible policies; through Scenario.stepForward: 2 x 2 greedy and all-visible (quick), plus 2 x 3 greedy (thorough); "
                     "through Scenario.propagateTo/saveDatabaseOutput: 2 x 1 greedy and 1 x 2 all-visible (quick), plus 2 x 2 greedy (thorough)",
          "jobs": "<= 3 jobs per batch, every completion order of the reward and task-execution batches; <= 3 tasked sensors per task-execution job",
          "outcomes": "every observe-or-miss split of the tasked sensors (including a tasked sensor whose only record is a miss); arbitrary boresights and times; fixed distinct metric values, every visibility pattern",
          "steps": "two consecutive assess calls; one stepForward (quick), two (thorough); stored-*: 2 steps with a database output every 1 or 2 steps (quick), 3 steps with an output every 1, 2 or 3 steps (thorough), "
                   "a final output collecting what is still buffered"}
OUTSIDE = ["Ray's delivery guarantees and pickling", "what a sensor's collectObservations computes (C02)", "random noise values", "estimate update/predict payload contents and the merge of the update/prediction batches "
           "(in the step-* and stored-* obligations the propagate/predict/update registrations are recorded, not executed; the propagation merge is propagate-merge)",
           "scenario events inside the step (C01)", "the ThreeSigmaObs debugging branch of stepForward (default configuration: off)", "more than one tasking engine per scenario",
           "background (non-primary) observations returned by a task-execution job",
           "which of its jobs' pointing reports a sensor tasked on several targets in one step ends up with (the last finished job's; any of them is accepted)",
           "the database itself (SQLAlchemy session, epoch rows, foreign keys: C09); tasking rows of steps that are not output steps (none are written)",
           "filter-step and detected-maneuver rows of saveDatabaseOutput (save_filter_steps off, no maneuver detected)"]
ASSUMPTIONS = ["ray.wait(refs) returns exactly one finished reference, chosen by the solver among the pending ones; ray.get returns the job's result; ray.put is identity",
               "the reward remote function is replaced by a provider of symbolic results (its computation is the subject of C06/C07); the task-execution remote function is the real body of "
               "asyncExecuteTasking applied to a by-value copy of the submission (fresh dict / list containers, as after Ray's deserialisation)",
               "Sensor.collectObservations of every tasked sensor is a provider: it returns one record of the tasked target (an observation or a miss, solver-chosen) and a symbolic boresight / "
               "time_last_tasked, and leaves the main-process agent object untouched (the real worker operates on a pickled copy)",
               "database event query in assess returns no events",
               "step-* and stored-* obligations: Scenario object built without its constructor (attributes of the real constructor set by hand: clock, agents, stores, executors, time and estimation configuration); "
               "handleRelevantEvents/getRelevantEvents return nothing; EventStack flush is a no-op; Propagate/EstPredict/EstUpdate registrations and their executors are recorders (arguments kept, nothing executed); "
               "targets and estimates are identity tokens (their ephemeris rows are tokens); sensing agents come from the real constructor with real Optical sensors and concrete states",
               "stored-* obligations: the database is a recorder (getData finds no epoch, insertData/bulkSave keep what they are given); the harness observes the engine after each stepForward that the real "
               "propagateTo takes; when the last step is not an output step one more saveDatabaseOutput() is called",
               "the tasked pairs of a step are the True cells of the engine's decision_matrix after assess()",
               "the missed observations of a step are the members of engine.missed_observations not seen in an earlier step (the list is cumulative in the current code)"]
LEVEL_TEXT = ("Bounded symbolic verification of the merge logic: all completion orders of the reward and task-execution batches, all observe/miss outcomes of a small network and all database output "
              "intervals are paths of one symbolic execution of the real assess() (of the real Scenario.stepForward / propagateTo around it) with the real task-execution job body; exactly-one-record per decided pair, "
              "sensor state (job result, engine side and agent side), stored batches and order independence are proved on each path over symbolic payloads.")
LEVEL_NOTE = "Small network bound; Ray replaced by a nondeterministic-order stub; payload contents opaque."


class Tok:
    """An opaque record (observation or miss) tagged with its (target, sensor)."""

    def __init__(self, kind, target_id, sensor_id, n):
        self.kind, self.target_id, self.sensor_id, self.n = kind, target_id, sensor_id, n

    def __repr__(self):
        return f"{self.kind}(t{self.target_id},s{self.sensor_id})#{self.n}"

    def __bool__(self):
        return True


def _choose(k, lo, hi):
    """The value of the solver variable k on this path, lo <= k <= hi: one fork per feasible value (a chain of path decisions `k == v`,
    which costs no solver call when a path prefix is re-executed)."""
    assume(k.t >= lo, k.t <= hi)
    for v in range(lo, hi):
        if cur().branch(k.t == v):
            return v
    return hi


class RayStub:
    """ray.wait / get / put with a solver-chosen completion order."""

    def __init__(self):
        self.results = {}
        self.order = []
        self.nwait = 0

    def wait(self, refs, **kw):
        refs = list(refs)
        self.nwait += 1
        if len(refs) == 1:
            i = 0
        else:
            i = _choose(integer(f"finish_{self.nwait}"), 0, len(refs) - 1)
        self.order.append(refs[i])
        return [refs[i]], refs[:i] + refs[i + 1:]

    def get(self, ref):
        if isinstance(ref, list):
            return [self.get(r) for r in ref]
        try:
            return self.results.get(ref, ref)
        except TypeError:  # an unhashable handle: ray.put was the identity
            return ref

    def put(self, x):
        return x


class Remote:
    def __init__(self, rayst, fn, name):
        self.rayst, self.fn, self.name, self.n = rayst, fn, name, 0

    def remote(self, submission):
        self.n += 1
        ref = f"{self.name}-job{self.n}"
        self.rayst.results[ref] = self.fn(submission)
        return ref


class _Collect:
    """Stands for `Sensor.collectObservations` of one sensor (its computation is the subject of C02): hands back what this sensor saw of the tasked
    target and where it points afterwards.  It does not touch the agent object of the main process - the real worker works on a pickled copy, so
    the job's report is the only way the new pointing state can reach the scenario."""

    def __init__(self, sid, provider):
        self.sid, self.provider = sid, provider

    def __call__(self, estimate_eci, target_agent, background_agents):
        return self.provider(self.sid, target_agent.simulation_id)


PRIOR_BORESIGHT = (1.0, 0.0, 0.0)  # where every sensor of the engine-level obligations points before the step


class FakeSensor:
    """A sensing agent as far as the engine is concerned.  Its `sensors` is a bare instance of the real Optical class (no constructor run) that carries
    the pointing state a real sensor has before the step; only collectObservations is replaced (its computation is C02's subject)."""

    def __init__(self, sid, collect=None):
        from resonaate.sensors.optical import Optical

        self.simulation_id = sid
        self.measurement = None
        self.sensors = object.__new__(Optical)
        self.sensors.boresight = np.array(PRIOR_BORESIGHT)
        self.sensors.time_last_tasked = 0.0
        self.sensors.collectObservations = collect(sid) if collect else None


class FakeEstimate:
    def __init__(self, tid):
        self.simulation_id = tid
        self.eci_state = np.zeros(6)


def _worker(TE):
    """The real body of the task-execution job (what Ray runs on the worker)."""
    fn = TE.asyncExecuteTasking
    return getattr(fn, "_function", fn)


def _by_value(TE, sub):
    """Ray hands the worker a deserialised copy of the submission: the containers are the worker's own."""
    return TE.TaskExecutionSubmission(sub.estimate_handle, dict(sub.target_handles), list(sub.sensor_handle_list))


def _engine(targets, sensors, policy):
    from resonaate.tasking.decisions import decisions as D
    from resonaate.tasking.engine import centralized_engine as CE
    from resonaate.tasking.engine import engine_base as EB
    from harness.c07 import _metrics, _mk_reward

    class DB:
        pass

    with shadow(EB, getDBConnection=lambda: DB()):
        eng = CE.CentralizedTaskingEngine(1, list(sensors), list(targets), _mk_reward("sum", _metrics("sum"), 0.5),
                                          D.MyopicNaiveGreedyDecision() if policy == "greedy" else D.AllVisibleDecision(), None, True)
    return eng


class _TokAgent:
    """A target / estimate agent as far as the tasking step is concerned: an identity."""

    realtime = True
    maneuver_detected = False

    def __init__(self, aid, role="agent"):
        self.simulation_id = aid
        self.role = role
        self.eci_state = np.zeros(6)

    def getCurrentEphemeris(self):
        return Tok("ephem-" + self.role, self.simulation_id, None, 0)


class _Reg:
    """Stands for the propagate / predict registrations of Scenario.stepForward (their merge is the subject of propagate-merge)."""

    def __init__(self, *a):
        self.args = a


class _NoExec:
    def __init__(self):
        self.regs = []

    def enqueueJob(self, reg):
        self.regs.append(reg)

    def join(self):
        pass


class _RecDB:
    """The output database as far as Scenario.saveDatabaseOutput is concerned: no epoch is present yet, every saved batch is kept."""

    def __init__(self):
        self.batches, self.epochs, self.tag = [], [], [None]

    def getData(self, query, multi=True):
        return [] if multi else None

    def insertData(self, *rows):
        self.epochs.extend(rows)

    def bulkSave(self, rows):
        self.batches.append((self.tag[0], list(rows)))


def _pointing(agent):
    """(boresight, time_last_tasked) of a sensing agent as seen through its public attributes."""
    return list(agent.sensors.boresight), agent.sensors.time_last_tasked


def _bare_scenario(targets, sensors, eng, collect=None):
    """A Scenario (bare object, attributes of the real constructor) around the real engine: real clock object, sensing agents
    from the real SensingAgent constructor with real Optical sensors, identity tokens for targets and estimates."""
    from resonaate.agents.sensing_agent import SensingAgent
    from resonaate.dynamics.two_body import TwoBody
    from resonaate.physics.time.stardate import ScenarioTime, datetimeToJulianDate
    from resonaate.scenario import clock as CK
    from resonaate.scenario import scenario as SC
    from resonaate.sensors.optical import Optical

    clock = object.__new__(CK.ScenarioClock)
    clock.datetime_start = _dt.datetime(2021, 1, 1)
    clock.julian_date_start = datetimeToJulianDate(clock.datetime_start)
    clock.dt_step, clock.time, clock.initial_time, clock.logger = ScenarioTime(60.0), ScenarioTime(0.0), ScenarioTime(0.0), None
    agents = {}
    for k, sid in enumerate(sensors):
        sen = Optical(az_mask=np.array([0.0, 359.0]), el_mask=np.array([0.0, 90.0]), r_matrix=np.diag([1e-8, 1e-8]), diameter=1.0, efficiency=0.9, slew_rate=1.0,
                      field_of_view=types.SimpleNamespace(), background_observations=False, minimum_range=0.0, maximum_range=1e6, detectable_vismag=20.0)
        if collect is not None:
            sen.collectObservations = collect(sid)  # what the sensor sees is the subject of C02
        agents[sid] = SensingAgent(sid, f"S{sid}", "GroundFacility", np.array([6378.0, 10.0 * k, 0.0, 0.0, 0.46, 0.0]), clock, sen, TwoBody(), True, 10.0, 100.0, 0.2)
    sc = object.__new__(SC.Scenario)
    sc.clock = clock
    sc.current_julian_date = clock.julian_date_epoch
    sc.database = _RecDB()
    nul = lambda *a, **k: None  # noqa: E731
    sc.logger = types.SimpleNamespace(info=nul, error=nul, debug=nul, warning=nul)
    sc.scenario_config = types.SimpleNamespace(propagation=types.SimpleNamespace(truth_simulation_only=False),
                                               time=types.SimpleNamespace(physics_step_sec=ScenarioTime(60.0), output_step_sec=ScenarioTime(60.0)))
    sc.estimation_config = types.SimpleNamespace(sequential_filter=types.SimpleNamespace(save_filter_steps=False))
    sc.target_agents = {t: _TokAgent(t, "target") for t in targets}
    sc._estimate_agents = {t: _TokAgent(t, "estimate") for t in targets}
    sc._sensor_agents = agents
    sc._tasking_engines = {eng.unique_id: eng}
    sc._ephem_importer = None
    sc._stepped_epochs = {}
    sc._agent_propagator, sc._estimate_predictor, sc._estimate_updater = _NoExec(), _NoExec(), _NoExec()
    sc._target_store, sc._sensor_store, sc._estimate_store = {}, {}, {}
    return sc


def _scenario_shadows(rayst):
    """The names of the scenario module that stand outside the tasking step."""
    from resonaate.scenario import scenario as SC

    return shadow(SC, ray=rayst, EventStack=types.SimpleNamespace(logAndFlushEvents=lambda: None), handleRelevantEvents=lambda *a, **k: None,
                  getRelevantEvents=lambda *a, **k: [], PropagateRegistration=_Reg, EstPredictRegistration=_Reg, EstUpdateRegistration=_Reg)


def _drive(sc, eng, steps, via, output_every, targets, sensors, collect, one_step):
    """Run `steps` time steps.  via="assess": the engine's assess() is called directly; via="scenario": the real Scenario.stepForward drives it and
    applies the results; via="stored": the real Scenario.propagateTo drives stepForward and saveDatabaseOutput with an output interval of
    `output_every` physics steps (a final saveDatabaseOutput collects what is still buffered).  `one_step(st, advance)` is called once per step:
    it calls advance() to take the step and records what the step handed out."""
    from resonaate.physics.time.stardate import ScenarioTime
    from resonaate.scenario import scenario as SC

    if via == "assess":
        for st in range(steps):
            def advance(st=st):
                eng.setHandles({t: FakeEstimate(t) for t in targets}, {s: FakeSensor(s, collect) for s in sensors}, {t: FakeEstimate(t) for t in targets})
                t0 = _dt.datetime(2021, 1, 1, 0, st, 0)
                eng.assess(t0, t0 + _dt.timedelta(seconds=60))
            one_step(st, advance)
            eng.resetHandles()
    elif via == "scenario":
        for st in range(steps):
            one_step(st, sc.stepForward)
    else:
        sc.scenario_config.time.output_step_sec = ScenarioTime(60.0 * output_every)
        count = [0]
        real_step = sc.stepForward

        def stepped():
            st = count[0]
            count[0] += 1
            sc.database.tag[0] = st
            one_step(st, real_step)

        sc.stepForward = stepped  # observation point after every step the real propagateTo takes
        sc.propagateTo(ScenarioTime(60.0 * steps).convertToJulianDate(sc.clock.julian_date_start))
        if count[0] != steps:
            raise AssertionError(f"propagateTo took {count[0]} steps instead of {steps}")
        if not any(tag == steps - 1 for tag, _rows in sc.database.batches):
            SC.Scenario.saveDatabaseOutput(sc)


def _new_by_identity(items, seen):
    """The items not met before (the engine's missed_observations property is cumulative today; a per-step list gives the same answer)."""
    out = [x for x in items if id(x) not in seen]
    seen.update(id(x) for x in items)
    return out


def _run_assess(targets, sensors, policy, steps=1, via="assess"):
    """The real engine (and scenario) on symbolic job results; see _drive for `via`."""
    from resonaate.parallel import tasking_execution as TE
    from resonaate.parallel import tasking_reward_generation as TR
    from resonaate.tasking.engine import centralized_engine as CE
    import resonaate.parallel as P

    rayst = RayStub()
    eng = _engine(targets, sensors, policy)
    K = eng.num_metrics
    nS = len(sensors)
    log = {"exec": [], "reward": {}, "truth": {}, "batches": [], "output_every": 1}
    counter = [0]
    step = [0]
    worker = _worker(TE)

    def reward_fn(sub):
        tid = sub.estimate_handle.simulation_id
        vis = np.array([boolean(f"vis{step[0]}_{tid}_{s}") for s in sensors], dtype=object)
        # concrete, distinct metric values (tasking variety comes from the symbolic visibility bits):
        # sensors prefer the first target except the last sensor, which prefers the second one
        met = np.array(_metric_values(targets, tid, nS, K))
        res = TR.RewardCalcResult(estimate_id=tid, visibility=vis, metric_matrix=met)
        log["reward"][(step[0], tid)] = res
        return res

    def sees(sid, tid):
        """One tasked sensor's collection: an observation or a miss of the tasked target, and the sensor's pointing state afterwards."""
        counter[0] += 1
        seen = bool(boolean(f"observed{step[0]}_{tid}_{sid}"))
        tok = Tok("obs" if seen else "miss", tid, sid, counter[0])
        bore, tlt = reals(f"bore{step[0]}_{tid}_{sid}", 3), real(f"tlt{step[0]}_{tid}_{sid}")
        log["truth"][(step[0], tid, sid)] = {"sensor_id": sid, "observations": [tok] if seen else [], "missed_observations": [] if seen else [tok],
                                             "boresight": bore, "time_last_tasked": tlt}
        return ([tok] if seen else []), ([] if seen else [tok]), bore, tlt

    collect = lambda sid: _Collect(sid, sees)  # noqa: E731

    def exec_fn(sub):
        tid = sub.estimate_handle.simulation_id
        sids = [sh.simulation_id for sh in sub.sensor_handle_list]
        res = worker(_by_value(TE, sub))
        log["exec"].append((step[0], tid, sids, res))
        return res

    snaps = []
    sc = _bare_scenario(targets, sensors, eng, collect) if via != "assess" else None
    output_every = 1
    if via == "stored" and steps > 1:
        output_every = _choose(integer("output_every"), 1, steps)
    log["output_every"] = output_every
    seen_miss = set()

    def one_step(st, advance):
        step[0] = st
        extra = {}
        if sc is not None:
            extra["pointing_before"] = {sid: _pointing(a) for sid, a in sc.sensor_agents.items()}
            sc._estimate_updater.regs.clear()
        advance()
        if sc is not None:
            extra["pointing_after"] = {sid: _pointing(a) for sid, a in sc.sensor_agents.items()}
            extra["updates"] = [reg.args for reg in sc._estimate_updater.regs]
            extra["estimates"] = dict(sc.estimate_agents)
        drain = via != "stored"  # "stored": the real saveDatabaseOutput drains the buffers
        snaps.append({
            "observations": list(eng.observations), "step_miss": _new_by_identity(list(eng.missed_observations), seen_miss),
            "saved_obs": list(eng.getCurrentObservations()) if drain else None,
            "saved_miss": list(eng.getCurrentMissedObservations()) if drain else None, "sensor_changes": dict(eng.sensor_changes),
            "decision": np.array(eng.decision_matrix, dtype=object), "visibility": np.array(eng.visibility_matrix, dtype=object),
            "metric": np.array(eng.metric_matrix, dtype=object), "order": list(rayst.order),
            "unfinished": (len(eng._reward_executor._unfinished_jobs), len(eng._reward_executor._result_reg_mapping),
                           len(eng._task_exec_executor._unfinished_jobs), len(eng._task_exec_executor._result_reg_mapping)),
            **extra,
        })

    with shadow(P, ray=rayst), shadow(CE, ray=rayst, handleRelevantEvents=lambda *a, **k: None, zeros=_zeros_vis), \
            shadow(TR, asyncCalculateReward=Remote(rayst, reward_fn, "reward")), shadow(TE, ray=rayst, asyncExecuteTasking=Remote(rayst, exec_fn, "exec")), \
            _scenario_shadows(rayst), contextlib.ExitStack() as _st:
        for _cm in closeness_shadows([TE]):  # numpy/math closeness functions, where the worker module binds any, are solver terms
            _st.enter_context(_cm)
        _drive(sc, eng, steps, via, output_every, targets, sensors, collect, one_step)
    if sc is not None:
        log["batches"] = list(sc.database.batches)
    return eng, log, snaps


def _metric_values(targets, tid, nS, K):
    return [[(1.0 + 0.1 * k + (0.5 if ((si == nS - 1) == (tid != targets[0])) else 0.0)) for k in range(K)] for si in range(nS)]


def _zeros_vis(shape, dtype=None):
    """numpy.zeros; boolean matrices get object cells so that symbolic visibility bits can be stored."""
    if dtype is bool:
        a = np.empty(shape, dtype=object)
        a.fill(False)
        return a
    return np.zeros(shape, dtype=dtype)


def _tb(x):
    if isinstance(x, SBool):
        return x.t
    return z3.BoolVal(bool(x))


def _tr(x):
    if isinstance(x, SReal):
        return x.t
    if isinstance(x, SInt):
        return z3.ToReal(x.t)
    return rv(x)


def replay_assess(d):
    """Concrete replay of the same scenario on the real engine with a fixed completion order."""
    return _concrete_assess(d)


_POINTING = {}  # pointing states the counterexample under replay prescribes (those the path condition mentions); set by _concrete_assess


def _payload(st, tid, sid):
    """The concrete pointing state job (step, target) reports for sensor sid in a replay: what the counterexample prescribes where the explored path
    depends on it, otherwise distinct per (step, target, sensor)."""
    p_ = _POINTING.get(f"{st}:{tid}_{sid}")
    if p_ is not None:
        return np.array(p_[0], dtype=float), float(p_[1])
    return np.array([float(tid), float(sid), 1.0 + st]), 10000.0 * (st + 1) + 100.0 * tid + sid


def _concrete_assess(d):
    """The real assess() / stepForward() / propagateTo() on plain values, with its own oracle stated over what the step hands out: the decision matrix
    names the tasked pairs; records, sensor_changes, the sensors' pointing state, the update jobs' observation lists and the batches handed to the
    database are compared with what the tasked sensors collected."""
    from resonaate.data.task import Task
    from resonaate.parallel import tasking_execution as TE
    from resonaate.parallel import tasking_reward_generation as TR
    from resonaate.tasking.engine import centralized_engine as CE
    import resonaate.parallel as P

    targets, sensors, policy = d["targets"], d["sensors"], d["policy"]
    _POINTING.clear()
    _POINTING.update(d.get("pointing", {}))
    steps, via = int(d.get("steps", 1)), d.get("via", "assess")
    output_every = int(d.get("output_every", 1))
    eng = _engine(targets, sensors, policy)

    class FixedRay(RayStub):
        def wait(self, refs, **kw):
            refs = list(refs)
            self.nwait += 1
            i = d["order"].get(str(self.nwait), 0) if len(refs) > 1 else 0
            i = min(i, len(refs) - 1)
            return [refs[i]], refs[:i] + refs[i + 1:]

    rayst = FixedRay()
    cnt = [0]
    step = [0]
    worker = _worker(TE)

    def key(tid, sid=None):
        # evidence written before the multi-step replay existed has no step prefix
        k = f"{tid}" if sid is None else f"{tid}_{sid}"
        return f"{step[0]}:{k}"

    def reward_fn(sub):
        tid = sub.estimate_handle.simulation_id
        vis = d["vis"].get(key(tid), d["vis"].get(str(tid)))
        met = d["met"].get(key(tid), d["met"].get(str(tid)))
        return TR.RewardCalcResult(estimate_id=tid, visibility=np.array(vis, dtype=bool), metric_matrix=np.array(met, dtype=float))

    jobs = []
    truth = {}

    def sees(sid, tid):
        cnt[0] += 1
        seen = d["observed"].get(key(tid, sid), d["observed"].get(f"{tid}_{sid}", False))
        tok = Tok("obs" if seen else "miss", tid, sid, cnt[0])
        bore, tlt = _payload(step[0], tid, sid)
        truth[(step[0], tid, sid)] = tok
        return ([tok] if seen else []), ([] if seen else [tok]), bore, tlt

    collect = lambda sid: _Collect(sid, sees)  # noqa: E731

    def exec_fn(sub):
        tid = sub.estimate_handle.simulation_id
        sids = [sh.simulation_id for sh in sub.sensor_handle_list]
        jobs.append((step[0], tid, sids))
        res = worker(_by_value(TE, sub))
        # the worker's result: the job's own target, the records its sensors collected (each once), one pointing report per tasked sensor (its own)
        tag = f"step {step[0]}: job of target {tid} with sensors {sids}: "
        mine = [truth[(step[0], tid, sid)] for sid in sids]
        if res.target_id != tid:
            problems.append(tag + f"result names target {res.target_id}")
        if sorted(map(id, list(res.observations) + list(res.missed_observations))) != sorted(map(id, mine)) or any(t.kind != "obs" for t in res.observations) \
                or any(t.kind != "miss" for t in res.missed_observations):
            problems.append(tag + "result's records are not the records the tasked sensors collected")
        reported = sorted(i_["sensor_id"] for i_ in res.sensor_info_list)
        if reported != sorted(sids):
            problems.append(tag + f"result reports the pointing state of sensors {reported}")
        for i_ in res.sensor_info_list:
            if i_["sensor_id"] in sids:
                b, t = _payload(step[0], tid, i_["sensor_id"])
                if not (np.array_equal(np.array(i_["boresight"], dtype=float), b) and float(i_["time_last_tasked"]) == t):
                    problems.append(tag + f"pointing report of sensor {i_['sensor_id']} is not what that sensor's collection returned")
        return res

    problems = []
    sc = _bare_scenario(targets, sensors, eng, collect) if via != "assess" else None
    seen_miss = set()
    decisions = {}

    def one_step(st, advance):
        step[0] = st
        if sc is not None:
            before = {sid: _pointing(a) for sid, a in sc.sensor_agents.items()}
            sc._estimate_updater.regs.clear()
        advance()
        tag = f"step {st}: "
        D = np.array(eng.decision_matrix, dtype=bool)
        decisions[st] = (D, np.array(eng.visibility_matrix, dtype=bool))
        obs_now, miss_step = list(eng.observations), _new_by_identity(list(eng.missed_observations), seen_miss)
        recs = obs_now + miss_step
        # exactly one record per tasked pair (the decision matrix names the tasked pairs), none for the others
        for ti, tid in enumerate(targets):
            for si, sid in enumerate(sensors):
                n = sum(1 for r in recs if (r.target_id, r.sensor_id) == (tid, sid))
                if n != (1 if D[ti, si] else 0):
                    problems.append(tag + f"pair (t{tid},s{sid}) tasked={bool(D[ti, si])} has {n} records")
        # the records are what the tasked sensors collected; the lists kept for the database equal the lists of the step
        want_obs = [t for (s_, _t, _s), t in truth.items() if s_ == st and t.kind == "obs"]
        want_miss = [t for (s_, _t, _s), t in truth.items() if s_ == st and t.kind == "miss"]
        if sorted(map(id, obs_now)) != sorted(map(id, want_obs)):
            problems.append(tag + "observations differ from what the tasked sensors collected")
        if sorted(map(id, miss_step)) != sorted(map(id, want_miss)):
            problems.append(tag + "missed observations differ from what the tasked sensors missed")
        if via != "stored":
            saved_obs, saved_miss = list(eng.getCurrentObservations()), list(eng.getCurrentMissedObservations())
            if sorted(map(id, saved_obs)) != sorted(map(id, want_obs)):
                problems.append(tag + "observations kept for the database differ from the step's observations")
            if sorted(map(id, saved_miss)) != sorted(map(id, want_miss)):
                problems.append(tag + "missed observations kept for the database differ from the step's missed observations")
        # pointing state: every tasked sensor carries what its own collection (for one of its jobs) returned; nobody else is touched
        for si, sid in enumerate(sensors):
            tids = [tid for ti, tid in enumerate(targets) if D[ti, si]]
            allowed = [_payload(st, tid, sid) for tid in tids]
            ch = eng.sensor_changes.get(sid)
            if tids and ch is None:
                problems.append(tag + f"tasked sensor {sid} missing from sensor_changes")
            elif tids and not any(np.array_equal(np.array(ch["boresight"], dtype=float), b) and float(ch["time_last_tasked"]) == t for b, t in allowed):
                problems.append(tag + f"sensor_changes[{sid}] is not what sensor {sid} reported")
            elif not tids and ch is not None:
                problems.append(tag + f"untasked sensor {sid} in sensor_changes")
            if sc is not None:
                bore, tlt = _pointing(sc.sensor_agents[sid])
                if tids and not any(np.array_equal(np.array(bore, dtype=float), b) and float(tlt) == t for b, t in allowed):
                    problems.append(tag + f"tasked sensor {sid}: pointing state after the step (time_last_tasked={float(tlt)}) is not what its collection returned")
                if not tids and not (np.array_equal(np.array(bore, dtype=float), np.array(before[sid][0], dtype=float)) and float(tlt) == float(before[sid][1])):
                    problems.append(tag + f"untasked sensor {sid}: pointing state changed")
        # reward batch: each row from its own estimate
        for ti, tid in enumerate(targets):
            vis = d["vis"].get(key(tid), d["vis"].get(str(tid)))
            if [bool(x) for x in eng.visibility_matrix[ti]] != [bool(x) for x in vis]:
                problems.append(tag + f"visibility row of target {tid} is not its own job's result")
        if (len(eng._reward_executor._unfinished_jobs), len(eng._reward_executor._result_reg_mapping),
                len(eng._task_exec_executor._unfinished_jobs), len(eng._task_exec_executor._result_reg_mapping)) != (0, 0, 0, 0):
            problems.append(tag + "executors not drained")
        if sc is not None:
            problems.extend(tag + p_ for p_ in _update_routing_problems(targets, [reg.args for reg in sc._estimate_updater.regs], dict(sc.estimate_agents), obs_now))

    with shadow(P, ray=rayst), shadow(CE, ray=rayst, handleRelevantEvents=lambda *a, **k: None), \
            shadow(TR, asyncCalculateReward=Remote(rayst, reward_fn, "reward")), shadow(TE, ray=rayst, asyncExecuteTasking=Remote(rayst, exec_fn, "exec")), \
            _scenario_shadows(rayst):
        _drive(sc, eng, steps, via, output_every, targets, sensors, collect, one_step)
    if via == "stored":
        produced = {id(t): (st, t) for (st, _t, _s), t in truth.items()}
        problems += _stored_problems(sc.database.batches, produced, steps, targets, sensors,
                                     lambda st, ti, si, row: bool(row.decision) == bool(decisions[st][0][ti, si]) and bool(row.visibility) == bool(decisions[st][1][ti, si]), Task)
    return bool(problems), {"problems": problems, "jobs": jobs, "output_every": output_every}


def _stored_problems(batches, produced, steps, targets, sensors, task_ok, Task):
    """What Scenario.saveDatabaseOutput handed to the database over the run: every record a tasked sensor collected is stored exactly once, in the
    first batch written after its step; nothing else of that kind is stored; every batch carries one tasking row per pair, showing the step's
    decision and visibility, and one ephemeris row per agent.  `produced`: id(record) -> (step, record)."""
    problems = []
    out_steps = [tag for tag, _rows in batches]
    if out_steps != sorted(set(out_steps)) or not out_steps or out_steps[-1] != steps - 1:
        problems.append(f"database batches written after steps {out_steps} (last step {steps - 1})")
    times = {}
    for tag, rows in batches:
        for r in rows:
            if isinstance(r, Tok) and r.kind in ("obs", "miss"):
                times.setdefault(id(r), []).append(tag)
                if id(r) not in produced:
                    problems.append(f"stored record {r} was not collected by a tasked sensor")
        tasks = [r for r in rows if isinstance(r, Task)]
        for ti, tid in enumerate(targets):
            for si, sid in enumerate(sensors):
                mine = [r for r in tasks if (r.target_id, r.sensor_id) == (tid, sid)]
                if len(mine) != 1:
                    problems.append(f"batch after step {tag}: {len(mine)} tasking rows for pair (t{tid},s{sid})")
                elif not task_ok(tag, ti, si, mine[0]):
                    problems.append(f"batch after step {tag}: tasking row of pair (t{tid},s{sid}) does not show the step's decision / visibility")
        if len(tasks) != len(targets) * len(sensors):
            problems.append(f"batch after step {tag}: {len(tasks)} tasking rows")
        # one state row per agent (targets / estimates: their tokens; sensors: the real TruthEphemeris of the sensing agent)
        for role, ids in (("ephem-target", targets), ("ephem-estimate", targets)):
            for aid in ids:
                n_rows = sum(1 for r in rows if isinstance(r, Tok) and r.kind == role and r.target_id == aid)
                if n_rows != 1:
                    problems.append(f"batch after step {tag}: {n_rows} {role} rows of agent {aid}")
        for sid in sensors:
            n_rows = sum(1 for r in rows if not isinstance(r, (Tok, Task)) and getattr(r, "agent_id", None) == sid)
            if n_rows != 1:
                problems.append(f"batch after step {tag}: {n_rows} state rows of sensor {sid}")
    for st, rec in produced.values():
        due = min([t for t in out_steps if t >= st], default=None)
        got = times.get(id(rec), [])
        if got != [due]:
            problems.append(f"record {rec} of step {st} stored after steps {got}, expected exactly once after step {due}")
    return problems


def _update_routing_problems(targets, updates, estimates, observations):
    """Scenario.stepForward hands every estimate exactly one update job, carrying exactly the step's observations of that target (each once)."""
    problems = []
    for tid in targets:
        mine = [u for u in updates if len(u) == 3 and getattr(u[0], "simulation_id", None) == tid]
        if len(mine) != 1:
            problems.append(f"estimate {tid} has {len(mine)} update jobs")
            continue
        _reg, handle, obs = mine[0]
        if handle is not estimates[tid]:
            problems.append(f"update job of estimate {tid} carries another estimate's handle")
        if sorted(map(id, obs)) != sorted(id(o) for o in observations if o.target_id == tid):
            problems.append(f"update job of estimate {tid} does not carry exactly the step's observations of target {tid}")
    if len(updates) != len(targets):
        problems.append(f"{len(updates)} update jobs for {len(targets)} estimates")
    return problems


def o_assess(rep, nT, nS, policy, steps=1, via="assess"):
    targets = [11, 12, 13][:nT]
    sensors = [21, 22, 23][:nS]

    def run():
        return _run_assess(targets, sensors, policy, steps, via)

    res = explore(run, max_paths=20000, max_depth=400)
    rep.note(f"{policy} {nT}x{nS} steps={steps} via={via}: paths={len(res)}")
    orders_seen = set()
    classes = {"slewed-and-missed": [], "lowest-sensor-alone": [], "two-jobs": [], "shared-target": []}
    n = 0
    for r in res:
        if r.exc is not None:
            rep.error("exception", f"{r.exc!r}")
            continue
        eng, log, snaps = r.out
        goals = []
        for st, snap in enumerate(snaps):
            orders_seen.add(tuple(snap["order"]))
            D = snap["decision"]
            jobs = [(tid, sids, res_) for (s_, tid, sids, res_) in log["exec"] if s_ == st]
            # (a) decision rows drive the jobs: a job per target with >=1 tasked sensor, its sensors are the tasked ones
            for ti, tid in enumerate(targets):
                mine = [j for j in jobs if j[0] == tid]
                goals.append(z3.BoolVal(len(mine) <= 1))
                in_job = set(mine[0][1]) if mine else set()
                for si, sid in enumerate(sensors):
                    # the decision bit (a term over the visibility bits) must equal "sensor sid is in target tid's job"
                    goals.append(_tb(D[ti, si]) == z3.BoolVal(sid in in_job))
            # (w) the worker's result (the real asyncExecuteTasking body): the job's own target, the records the tasked sensors collected (each once)
            #     and one pointing report per tasked sensor, carrying that sensor's own boresight / time
            truth = log["truth"]
            for tid, sids, res_ in jobs:
                mine = [truth[(st, tid, sid)] for sid in sids]
                goals.append(z3.BoolVal(res_.target_id == tid))
                goals.append(z3.BoolVal(sorted(map(id, res_.observations)) == sorted(id(o) for t_ in mine for o in t_["observations"])))
                goals.append(z3.BoolVal(sorted(map(id, res_.missed_observations)) == sorted(id(o) for t_ in mine for o in t_["missed_observations"])))
                goals.append(z3.BoolVal(sorted(i_["sensor_id"] for i_ in res_.sensor_info_list) == sorted(sids)))
                for i_ in res_.sensor_info_list:
                    t_ = truth.get((st, tid, i_["sensor_id"]))
                    if t_ is not None:
                        goals.append(z3.And(_tr(i_["time_last_tasked"]) == _tr(t_["time_last_tasked"]), z3.BoolVal(len(i_["boresight"]) == len(t_["boresight"])),
                                            *[_tr(a_) == _tr(b_) for a_, b_ in zip(i_["boresight"], t_["boresight"])]))
            # (b) exactly one record per tasked pair, never both, never duplicated; saved lists equal
            recs_obs, recs_miss = snap["observations"], snap["step_miss"]
            for tid, sids, res_ in jobs:
                for sid in sids:
                    n_o = sum(1 for x in recs_obs if (x.target_id, x.sensor_id) == (tid, sid))
                    n_m = sum(1 for x in recs_miss if (x.target_id, x.sensor_id) == (tid, sid))
                    goals.append(z3.BoolVal(n_o + n_m == 1))
            # ... stated over the decision matrix too (the tasked pairs are the ones the engine publishes, whatever jobs it formed)
            for ti, tid in enumerate(targets):
                for si, sid in enumerate(sensors):
                    n_r = sum(1 for x in list(recs_obs) + list(recs_miss) if (x.target_id, x.sensor_id) == (tid, sid))
                    goals.append(z3.If(_tb(D[ti, si]), z3.BoolVal(n_r == 1), z3.BoolVal(n_r == 0)))
            want_obs = [o for tid, sids, _r in jobs for sid in sids for o in truth[(st, tid, sid)]["observations"]]
            want_miss = [o for tid, sids, _r in jobs for sid in sids for o in truth[(st, tid, sid)]["missed_observations"]]
            goals.append(z3.BoolVal(sorted(map(id, recs_obs)) == sorted(map(id, want_obs))))
            goals.append(z3.BoolVal(sorted(map(id, recs_miss)) == sorted(map(id, want_miss))))
            if snap["saved_obs"] is not None:  # the buffers for the database, drained after every step (via="stored": drained by saveDatabaseOutput, below)
                goals.append(z3.BoolVal(sorted(map(id, snap["saved_obs"])) == sorted(map(id, want_obs))))
                goals.append(z3.BoolVal(sorted(map(id, snap["saved_miss"])) == sorted(map(id, want_miss))))
            # (c) every tasked sensor's pointing state is what its own collection returned (for one of its jobs), symbolic payload equality
            tasked_by = {}
            for tid, sids, res_ in jobs:
                for sid in sids:
                    tasked_by.setdefault(sid, []).append(truth[(st, tid, sid)])
            sc = snap["sensor_changes"]
            for sid, infos in tasked_by.items():
                if sid not in sc:
                    goals.append(z3.BoolVal(False))
                    continue
                alts = []
                for info in infos:
                    alts.append(z3.And(_tr(sc[sid]["time_last_tasked"]) == _tr(info["time_last_tasked"]),
                                       *[_tr(a) == _tr(b) for a, b in zip(sc[sid]["boresight"], info["boresight"])]))
                goals.append(z3.Or(*alts))
            goals.append(z3.BoolVal(set(sc) <= set(tasked_by)))
            # (d) reward-batch merge: each row is the result of its own estimate, whatever the order
            for ti, tid in enumerate(targets):
                rr = log["reward"][(st, tid)]
                for si in range(len(sensors)):
                    goals.append(_tb(snap["visibility"][ti, si]) == _tb(rr.visibility[si]))
            # (e) executors drained
            goals.append(z3.BoolVal(snap["unfinished"] == (0, 0, 0, 0)))
            if via != "assess":
                # (f) after the real stepForward every tasked sensor *agent* carries the pointing state its job reported (observed or missed alike);
                #     a sensor no job reported on keeps the state it had before the step
                for sid in sensors:
                    bore, tlt = snap["pointing_after"][sid]
                    if sid in tasked_by:
                        goals.append(z3.Or(*[z3.And(_tr(tlt) == _tr(info["time_last_tasked"]), z3.BoolVal(len(bore) == len(info["boresight"])),
                                                    *[_tr(a_) == _tr(b_) for a_, b_ in zip(bore, info["boresight"])]) for info in tasked_by[sid]]))
                    else:
                        bore0, tlt0 = snap["pointing_before"][sid]
                        goals.append(z3.And(_tr(tlt) == _tr(tlt0), z3.BoolVal(len(bore) == len(bore0)), *[_tr(a_) == _tr(b_) for a_, b_ in zip(bore, bore0)]))
                # (g) the step's observations reach the update job of their own estimate, each once
                goals.append(z3.BoolVal(not _update_routing_problems(targets, snap["updates"], snap["estimates"], recs_obs)))
            # branch classes (vacuity guards below): conditions over the published decision matrix and the step's records
            observing = {x.sensor_id for x in recs_obs}
            col = lambda si: z3.Or(*[_tb(D[ti, si]) for ti in range(len(targets))])  # noqa: E731
            row = lambda ti: z3.Or(*[_tb(D[ti, si]) for si in range(len(sensors))])  # noqa: E731
            conds = {
                "slewed-and-missed": z3.Or(*[z3.And(col(si), z3.BoolVal(sid not in observing)) for si, sid in enumerate(sensors)]),
                "lowest-sensor-alone": z3.Or(*[z3.And(_tb(D[ti, 0]), *[z3.Not(_tb(D[ti, si])) for si in range(1, len(sensors))]) for ti in range(len(targets))]),
                "two-jobs": z3.Or(*([z3.And(row(a_), row(b_)) for a_ in range(len(targets)) for b_ in range(a_ + 1, len(targets))] or [z3.BoolVal(False)])),
                "shared-target": z3.Or(*([z3.And(_tb(D[ti, a_]), _tb(D[ti, b_])) for ti in range(len(targets)) for a_ in range(len(sensors)) for b_ in range(a_ + 1, len(sensors))]
                                         or [z3.BoolVal(False)])),
            }
            hints = {"slewed-and-missed": any(sid not in observing for (_t, sid) in {(x.target_id, x.sensor_id) for x in recs_miss}),
                     "lowest-sensor-alone": any(sids == [sensors[0]] for _t, sids, _r in jobs), "two-jobs": len(jobs) >= 2,
                     "shared-target": any(len(sids) >= 2 for _t, sids, _r in jobs)}
            for c in hints:
                classes[c].append((bool(hints[c]), conds[c], r.constraints))
        if via == "stored":
            # (s) what the real saveDatabaseOutput handed to the database over the run (output every `output_every` steps, solver-chosen)
            from resonaate.data.task import Task

            def task_ok(st_, ti, si, row, snaps=snaps, goals=goals):
                goals.append(z3.And(_tb(row.decision) == _tb(snaps[st_]["decision"][ti, si]), _tb(row.visibility) == _tb(snaps[st_]["visibility"][ti, si])))
                return True

            produced = {id(o): (st_, o) for (st_, _t, _s), t_ in log["truth"].items() for o in t_["observations"] + t_["missed_observations"]}
            goals.append(z3.BoolVal(not _stored_problems(log["batches"], produced, steps, targets, sensors, task_ok, Task)))
            k_out = log["output_every"]
            buffered = lambda kind: any(o.kind == kind and (st_ + 1) % k_out != 0 and st_ != steps - 1 for st_, o in produced.values())  # noqa: E731
            for c, h in (("miss-kept-across-steps", buffered("miss")), ("observation-kept-across-steps", buffered("obs")), ("output-every-step", k_out == 1 and steps > 1)):
                classes.setdefault(c, []).append((bool(h), z3.BoolVal(bool(h)), r.constraints))
        n += 1

        def inputs(m, r=r, log=log, snaps=snaps):
            d = {"targets": targets, "sensors": sensors, "policy": policy, "steps": steps, "via": via, "order": {}, "vis": {}, "met": {}, "observed": {},
                 "output_every": log["output_every"]}
            for k in range(1, 1 + 2 * nT * steps):
                v = m.eval(z3.Int(f"finish_{k}"), model_completion=True)
                d["order"][str(k)] = v.as_long()
            K = eng.num_metrics
            for st in range(steps):
                for tid in targets:
                    d["vis"][f"{st}:{tid}"] = [bool(mval(m, z3.Bool(f"vis{st}_{tid}_{s}"))) for s in sensors]
                    d["met"][f"{st}:{tid}"] = _metric_values(targets, tid, len(sensors), K)
                    for s in sensors:
                        d["observed"][f"{st}:{tid}_{s}"] = bool(mval(m, z3.Bool(f"observed{st}_{tid}_{s}")))
            # pointing states the path condition mentions (a branch of the analysed code depended on them) are part of the counterexample
            from symx.core import free_vars

            used = set()
            for c_ in r.constraints:
                used |= {str(v_) for v_ in free_vars(c_)}
            d["pointing"] = {}
            for st in range(steps):
                for tid in targets:
                    for s in sensors:
                        names = [f"bore{st}_{tid}_{s}_{i}" for i in range(3)]
                        if any(n_ in used for n_ in names):
                            d["pointing"][f"{st}:{tid}_{s}"] = ([mfloat(m, z3.Real(n_)) for n_ in names], mfloat(m, z3.Real(f"tlt{st}_{tid}_{s}")))
            return d

        what = "one record per tasked pair, saved lists exact, sensor state from own job, reward rows from own estimate, executors drained"
        if via == "stored":
            what = ("through the real Scenario.propagateTo / saveDatabaseOutput with a solver-chosen output interval: every collected record stored exactly once in the first batch after its "
                    "step, tasking rows show the step's decision; " + what)
        elif via == "scenario":
            what = "after the real Scenario.stepForward: " + what + "; tasked sensor agents carry their job's boresight/time_last_tasked (observed or missed), untasked ones unchanged; update jobs get their own target's observations"
        rep.prove(f"{policy}[{nT}x{nS}]#{n}", z3.And(*goals), r.constraints, inputs=inputs, replay=replay_assess, sample=f"{policy} {nT}x{nS}: {what}")
    rep.note(f"distinct completion orders explored: {len(orders_seen)}; paths by class: { {c: sum(1 for h, _c, _k in v if h) for c, v in classes.items()} }")
    if len(orders_seen) < 2 and nT > 1:
        rep.error("reach", "only one completion order explored")
    # vacuity guards (reachability twins): each interesting tasking outcome is satisfiable on some explored path
    need = ["two-jobs"] if nT > 1 and (nS > 1 or policy != "greedy") else []
    need += ["slewed-and-missed"]
    if nT > 1 and nS > 1:
        need += ["lowest-sensor-alone"]
    if policy != "greedy" and nS > 1:
        need += ["shared-target"]
    if via == "stored" and steps > 1:
        need += ["miss-kept-across-steps", "observation-kept-across-steps", "output-every-step"]
    from symx.core import solve

    for c in need:
        cands = sorted(classes[c], key=lambda x: not x[0])[:200]
        for _hint, cond, cons in cands:
            if solve(list(cons) + [cond], 5000).status == "sat":
                rep.reachable(f"class:{c}", list(cons) + [cond])
                break
        else:
            rep.error(f"class:{c}", f"no explored path of class {c}")


def o_propagate_merge(rep):
    """PropagateRegistration.processResults writes only its own registrant; join applies each result once in any order."""
    import resonaate.parallel as P
    from resonaate.parallel import agent_propagation as AP

    class Agent:
        def __init__(self, i):
            self.simulation_id = i
            self.time = real(f"t_{i}")
            self.eci_state = reals(f"x_{i}", 2)
            self.writes = 0

        def __setattr__(self, k, v):
            if k in ("time", "eci_state") and "writes" in self.__dict__:
                self.__dict__["writes"] += 1
            self.__dict__[k] = v

    def run():
        rayst = RayStub()
        agents = [Agent(i) for i in range(3)]
        results = {}

        class Reg(AP.PropagateRegistration):
            def generateSubmission(self):
                return self._registrant.simulation_id

        def fn(aid):
            res = AP.PropagateResult(agent_id=aid, final_time=real(f"tf_{aid}"), prev_state=None, final_eci=reals(f"xf_{aid}", 2))
            results[aid] = res
            return res

        ex = AP.PropagateExecutor()
        with shadow(P, ray=rayst), shadow(AP, asyncPropagate=Remote(rayst, fn, "prop")):
            for a in agents:
                ex.enqueueJob(Reg(a))
            ex.join()
        return agents, results, rayst.order

    res = explore(run, max_paths=100)
    orders = set()
    for i, r in enumerate(res):
        if r.exc is not None:
            rep.error("exception", repr(r.exc))
            continue
        agents, results, order = r.out
        orders.add(tuple(order))
        goals = []
        for a in agents:
            goals.append(_tr(a.time) == _tr(results[a.simulation_id].final_time))
            goals += [_tr(x) == _tr(y) for x, y in zip(a.eci_state, results[a.simulation_id].final_eci)]
            goals.append(z3.BoolVal(a.writes == 2))
        rep.prove(f"propagate-merge#{i}", z3.And(*goals), r.constraints, sample="each propagation result is applied exactly once, to its own agent, in any completion order")
    rep.note(f"orders={len(orders)}")
    if len(orders) != 6:
        rep.error("reach", f"expected 6 completion orders of 3 jobs, got {len(orders)}")


REPLAYS = {}


def obligations(tier):
    obs = []
    cases = [("greedy", 2, 3, 1), ("allvisible", 2, 2, 1), ("greedy", 2, 2, 2)]
    if tier == "thorough":
        cases += [("greedy", 3, 3, 1), ("allvisible", 2, 3, 1)]
    for pol, nT, nS, steps in cases:
        name = f"assess-{pol}-{nT}x{nS}" + (f"-steps{steps}" if steps > 1 else "")
        obs.append(Ob(name, (lambda a: lambda rep: o_assess(rep, *a))((nT, nS, pol, steps)), f"assess() bookkeeping, {pol} {nT}x{nS}, {steps} step(s), all completion orders", 1500))
        REPLAYS[name] = replay_assess
    # the same step through the real Scenario.stepForward: pointing state of the sensor agents and routing of the observations after the step
    scen = [("greedy", 2, 2, 1), ("allvisible", 2, 2, 1)]
    if tier == "thorough":
        scen += [("greedy", 2, 3, 1), ("greedy", 2, 2, 2)]
    for pol, nT, nS, steps in scen:
        name = f"step-{pol}-{nT}x{nS}" + (f"-steps{steps}" if steps > 1 else "")
        obs.append(Ob(name, (lambda a: lambda rep: o_assess(rep, *a, via="scenario"))((nT, nS, pol, steps)),
                      f"Scenario.stepForward around assess(): sensor agents' pointing state and update routing, {pol} {nT}x{nS}, {steps} step(s), all completion orders", 1500))
        REPLAYS[name] = replay_assess
    # several steps through the real Scenario.propagateTo with the real saveDatabaseOutput: what reaches the database, for every output interval
    stored = [("greedy", 2, 1, 2), ("allvisible", 1, 2, 2)]
    if tier == "thorough":
        stored += [("greedy", 2, 2, 2), ("allvisible", 1, 2, 3)]
    for pol, nT, nS, steps in stored:
        name = f"stored-{pol}-{nT}x{nS}-steps{steps}"
        obs.append(Ob(name, (lambda a: lambda rep: o_assess(rep, *a, via="stored"))((nT, nS, pol, steps)),
                      f"Scenario.propagateTo (stepForward + saveDatabaseOutput, solver-chosen output interval): stored records and tasking rows, {pol} {nT}x{nS}, {steps} steps, all completion orders", 1500))
        REPLAYS[name] = replay_assess
    obs.append(Ob("propagate-merge", o_propagate_merge, "propagation results applied once to their own agent in any order", 300))
    # the worker side of "exactly one record per tasked pair": the real asyncExecuteTasking body on symbolic sensor constraints
    # (obligation shared with C02: oracle O2-exactly-one / O3-pointing over the worker's returned lists)
    from harness import c02

    for ob in c02.obligations(tier):
        if ob.name.startswith("async-"):
            obs.append(Ob("worker-" + ob.name, ob.fn, "worker result: exactly one observation-or-miss per tasked pair; " + ob.desc, ob.timeout_s))
            if ob.name in c02.REPLAYS:
                REPLAYS["worker-" + ob.name] = c02.REPLAYS[ob.name]
    return obs


# `./check C08 --replay <file>` looks the replay function up by obligation name without asking for the obligations first
try:
    obligations("thorough")
except Exception:  # noqa: BLE001  (a broken neighbour harness must not hide this module's own replays)
    for _n in ("assess-greedy-2x3", "assess-allvisible-2x2", "assess-greedy-2x2-steps2", "assess-greedy-3x3", "assess-allvisible-2x3",
               "step-greedy-2x2", "step-allvisible-2x2", "step-greedy-2x3", "step-greedy-2x2-steps2",
               "stored-greedy-2x1-steps2", "stored-allvisible-1x2-steps2", "stored-greedy-2x2-steps2", "stored-allvisible-1x2-steps3"):
        REPLAYS.setdefault(_n, replay_assess)
