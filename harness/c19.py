"""C19 - imported ephemerides/observations are used faithfully; importer stays read-only."""
from __future__ import annotations

import datetime as _dt
import logging

import numpy as np
import z3

from symx import fp
from symx.core import SBool, SInt, SReal, Unsupported, assume, boolean, cur, explore, integer, mfloat, mval, real, reals, rv, solve
from symx.dtmodel import IsoToken, SDateTime, STimeDelta
from symx.runner import Ob
from symx.stubs import shadow
from symx.timeenv import time_env

ID = "C19"
TECHNIQUE = ("the real EphemerisImporter.registerAgent/importEphemerides, Target/SensingAgent.importState, CentralizedTaskingEngine.loadImportedObservations/"
             "_attachObsMetadata and the ImporterDatabase write methods are executed against a stub database whose content is chosen by the solver: for each agent id of a "
             "small universe a z3 Bool says whether the database holds a row for it and whether it is registered; states are symbolic reals; z3 proves the faithful-import / "
             "error-iff-missing oracle on every path (O1, O3, O4).  O5/O7 run the real Scenario.stepForward (real clock, real EphemerisImporter, real PropagateRegistration, real "
             "CentralizedTaskingEngine.assess) for consecutive steps with the two propagation flags, the per-epoch database content and the stored observations' targets as solver "
             "Booleans.  O6 runs the real look-up of the importer and of the engine on a database written by the clock arithmetic of a producing run: start second, step asked and "
             "step of the record are solver integers, Julian dates are bit-exact symbolic IEEE doubles (symx.fp, the real datetimeToJulianDate / ScenarioTime.convertToJulianDate), "
             "and the where-clause of the real SQLAlchemy Query is evaluated on the symbolic joined row; z3 decides that the record is delivered iff its epoch is the one asked for")
FLOAT_SEMANTICS = ("exact for ids/sets; state vectors symbolic reals (O1-O5, O7); O6: IEEE-754 double, exact round-to-nearest-even encoding for every Julian date the query or the "
                   "database rows involve (models are bit-equal to CPython and are replayed against a real SQLite database)")
ENCODED = ["resonaate.dynamics.importer:EphemerisImporter.registerAgent", "resonaate.dynamics.importer:EphemerisImporter.importEphemerides",
           "resonaate.dynamics.importer:EphemerisImporter.__init__",
           "resonaate.agents.target_agent:TargetAgent.importState", "resonaate.agents.sensing_agent:SensingAgent.importState",
           "resonaate.tasking.engine.centralized_engine:CentralizedTaskingEngine.loadImportedObservations",
           "resonaate.tasking.engine.centralized_engine:CentralizedTaskingEngine._attachObsMetadata",
           "resonaate.tasking.engine.centralized_engine:CentralizedTaskingEngine.assess",
           "resonaate.tasking.engine.engine_base:TaskingEngine.saveObservations", "resonaate.tasking.engine.engine_base:TaskingEngine.setHandles",
           "resonaate.scenario.scenario:Scenario.stepForward", "resonaate.scenario.clock:ScenarioClock.ticToc", "resonaate.scenario.clock:ScenarioClock.datetime_epoch",
           "resonaate.parallel.agent_propagation:PropagateRegistration.generateSubmission", "resonaate.parallel.agent_propagation:PropagateRegistration.processResults",
           "resonaate.agents.agent_base:Agent.prunePropagateEvents", "resonaate.agents.sensing_agent:SensingAgent.pruneTimeBiasEvents",
           "resonaate.data.events:getRelevantEvents", "resonaate.data.events:handleRelevantEvents",
           "resonaate.physics.time.stardate:datetimeToJulianDate", "resonaate.physics.time.stardate:JulianDate.getJulianDate",
           "resonaate.physics.time.stardate:ScenarioTime.convertToJulianDate",
           "resonaate.data.importer_database:ImporterDatabase.insertData", "resonaate.data.importer_database:ImporterDatabase.deleteData",
           "resonaate.data.importer_database:ImporterDatabase.bulkSave"]
BOUNDS = {"agents": "O1: universe of 5 agent ids; every subset as database content (<= 5 rows) and every subset as registered agents (supersets, exact sets, subsets)",
          "observations": "O3: <= 3 stored observations per epoch over 2 sensors x 2 targets with symbolic sensor positions",
          "mixed scenarios (O5)": "2 targets + 1 sensor (thorough: 2 sensors) + 1 unrelated agent id; both propagation flags free (all four mixes); 2 consecutive stepForward calls; per step "
                                  "every subset of the ids as importer records (supersets, exact sets, gaps at either step); states of records / propagation / initial condition symbolic; "
                                  "start 2021-03-30T17:00:00, dt 60 s (concrete clock)",
          "routing (O7)": "2 targets, 2 sensors, 2 (thorough 3) consecutive steps, per step 2 stored observations each present or absent with target chosen by the solver; engine with realtime_obs false",
          "epoch look-up (O6)": "start instant: a fixed day (quick 2021-03-30; thorough also 2018-12-01, 2024-02-28) at ANY whole second of the day (runs across midnight included); dt 60 s and 300 s "
                                "(ephemerides quick: 60 s); step asked k and step of the record ki free in 1..12 (thorough 1..40); one record"}
OUTSIDE = ["that the importer file is byte-identical afterwards (SQLAlchemy/SQLite behaviour)", "_insertData (private loader)",
           "SQLite's evaluation of the where-clause (O5-O7 evaluate the where-clause the real code builds on the stub rows; the O6 replay runs it on a real in-memory SQLite database)",
           "importer databases whose epoch rows were NOT written by RESONAATE's clock arithmetic (Julian date = ScenarioTime(t).convertToJulianDate(datetimeToJulianDate(start)), timestamp = "
           "isoformat of the instant): O6 fixes that producer model", "sub-second start instants and fractional steps; start days other than the listed ones in the bit-exact obligation O6",
           "the numerical content of a propagation (O5: the agent's own dynamics yield an arbitrary symbolic state) and of the filter update (O7 stops at the observations handed to EstUpdateRegistration)",
           "realtime_obs engines mixing tasked and imported observations; decentralised engines; scenarios without an importer although a group is imported (RuntimeError branch)",
           "O6 isoformat(timespec=...) is an order-preserving injective token of the instant: a look-up string in another format is only seen by O5/O7, which compare real strings at one start instant"]
ASSUMPTIONS = ["ImporterDatabase.getData(query) returns the rows matching the query (O1/O3 stub: solver-chosen rows, at most one per agent id and epoch; O5-O7 stub: the rows of all epochs of the "
               "run filtered by the where-clause of the REAL query, evaluated by the harness on (table, column) -> value)",
               "ray.get(handle) returns the sensor agent; ray.put(x) is x",
               "O5/O7: bare Scenario / agents / engine (object.__new__ + the attributes the real constructors set); EphemerisImporter built by its real constructor with ImporterDatabase -> stub; "
               "PropagateExecutor + worker -> the real PropagateRegistration.generateSubmission/processResults around a propagation result that is a fresh symbolic state; ReductionParams.build, "
               "eci2ecef, ecef2lla, EventStack, BehavioralConfig(ThreeSigmaObs false), EstPredictRegistration/EstUpdateRegistration (recorders) stubbed; output database without events",
               "O6: datetime/timedelta -> integer calendar model (symx.dtmodel) with the day concrete and a fork at midnight; JulianDate/ScenarioTime re-based on symbolic doubles (symx.timeenv); float -> "
               "double-engine float in the importer and engine modules; the database's epoch row of step ki carries ScenarioTime(ki*dt).convertToJulianDate(datetimeToJulianDate(start)) "
               "(real code, as ScenarioClock.__init__ and julian_date_epoch compute it) and the timestamp token of start + ki*dt",
               "O6 case split: a query not decided in 20 s is split over the step index k = 1..kmax (complete: 1 <= k <= kmax is a constraint); each case is a solver query"]
LEVEL_TEXT = ("Bounded symbolic verification over all database contents for a small agent universe: every registered agent receives exactly its own row, and the missing-ephemeris "
              "error is raised iff some registered agent has no row - supersets with unrelated agents included; through the real stepForward for every mix of realtime and imported "
              "groups over consecutive steps with gaps at arbitrary epochs; stored observations reach the filter update of their target at their epoch; and the epoch look-up of "
              "importer and engine is decided on bit-exact Julian dates for every start second of the day - the one-ulp disagreements between differently computed Julian dates are "
              "too sparse and too configuration-dependent (start time of day) for the suite's noon-start fixtures.")
LEVEL_NOTE = "Agent universe, step count and record count bounded; start day fixed per obligation in O6 (any second of the day); database replaced by solver-chosen rows filtered by the real query; storage layer trusted."

U = [101, 102, 103, 104, 105]


class Row:
    def __init__(self, aid, concrete=False):
        self.agent_id = aid
        self.eci = [float(aid * 10 + k) for k in range(6)] if concrete else [real(f"row{aid}_{k}") for k in range(6)]
        self.julian_date = 2459304.5 + 600.0 / 86400.0


def _agent(cls, aid):
    a = object.__new__(cls)
    a.__dict__["_id"] = aid
    a.__dict__["_realtime"] = False
    a.__dict__["_truth_state"] = np.array([(-1.0 if _CONCRETE else real(f"old{aid}_{k}")) for k in range(6)], dtype=object)
    a.__dict__["_previous_state"] = a.__dict__["_truth_state"]
    from resonaate.physics.time.stardate import ScenarioTime

    a.__dict__["_time"] = ScenarioTime(540.0)
    a.__dict__["imports"] = 0
    return a


def _run_import(sensor_ids=(101,), member=None):
    member = member or (lambda kind, u: bool(boolean(f"{kind}_{u}")))
    from resonaate.agents import sensing_agent as SA
    from resonaate.agents import target_agent as TA
    from resonaate.dynamics import importer as IM

    from resonaate.physics.time.stardate import JulianDate

    imp = object.__new__(IM.EphemerisImporter)
    imp._logger = logging.getLogger("symx")
    imp._logger.setLevel(logging.CRITICAL)
    imp._registrants = {}
    captured = {"ecef_epochs": {}}

    class DB:
        def getData(self, query, multi=True):
            captured["query"] = query
            rows = [Row(u, concrete=_CONCRETE) for u in U if member("indb", u)]
            # order of rows in the result set is arbitrary: rotate by a solver-chosen offset
            captured["rows"] = rows
            return rows

    imp._importer_db = DB()
    agents = {}
    calls = {}

    class TAgent(TA.TargetAgent):
        pass

    class SAgent(SA.SensingAgent):
        pass

    for u in U:
        if member("reg", u):
            cls = SAgent if u in sensor_ids else TAgent
            a = _agent(cls, u)
            # minimal attribute surface used by importState / registerAgent
            cls.simulation_id = property(lambda self: self.__dict__["_id"])
            cls.realtime = property(lambda self: self.__dict__["_realtime"])
            cls.julian_date_start = property(lambda self: JulianDate(2459304.5))
            cls.datetime_start = property(lambda self: _dt.datetime(2021, 3, 30, 0, 0, 0))
            agents[u] = a
            imp.registerAgent(a)
    epoch = _dt.datetime(2021, 3, 30, 0, 10, 0)
    err = None

    def rec_eci2ecef(x, when):
        captured["ecef_epochs"][id(x)] = when
        return x

    try:
        with shadow(SA, eci2ecef=rec_eci2ecef, ecef2lla=lambda x: x[:3]):
            imp.importEphemerides(epoch)
    except Exception as e:  # noqa: BLE001
        err = e
    return imp, agents, captured, err, epoch


def replay_import(d):
    """Concrete replay on the same real classes (real importer, real Target/SensingAgent.importState)."""
    from resonaate.common.exceptions import MissingEphemerisError

    def member(kind, u):
        return u in d[kind]

    global _CONCRETE
    _CONCRETE = True
    try:
        imp, agents, cap, err, epoch = _run_import(member=member)
    finally:
        _CONCRETE = False
    raised = isinstance(err, MissingEphemerisError)
    if err is not None and not raised:
        return False, {"unexpected_exception": repr(err)}
    missing = sorted(set(d["reg"]) - set(d["indb"]))
    problems = []
    if raised != bool(missing):
        problems.append(f"MissingEphemerisError raised={raised} but missing ids={missing}")
    if not raised:
        rows = {row.agent_id: row for row in cap["rows"]}
        for u, a in agents.items():
            st = a.__dict__["_truth_state"]
            if u not in rows or [float(x) for x in st] != [float(x) for x in rows[u].eci]:
                problems.append(f"agent {u} left with a stale state")
            elif u == 101:
                when = cap["ecef_epochs"].get(id(st))
                if when is None or abs((when - epoch).total_seconds()) > 1.5:
                    problems.append(f"sensing agent {u}: Earth-fixed state derived at {when} instead of the row's epoch {epoch}")
    return bool(problems), {"raised": raised, "missing_ids": missing, "problems": problems}


_CONCRETE = False


def o1_import(rep):
    from resonaate.common.exceptions import MissingEphemerisError

    res = explore(_run_import, max_paths=5000, max_depth=40)
    rep.note(f"paths={len(res)}")

    def inputs(m):
        return {"indb": [u for u in U if bool(mval(m, z3.Bool(f"indb_{u}")))], "reg": [u for u in U if bool(mval(m, z3.Bool(f"reg_{u}")))]}

    n = 0
    n_err = n_ok = 0
    for r in res:
        if r.exc is not None:
            rep.error("exception", repr(r.exc))
            continue
        imp, agents, cap, err, epoch = r.out
        indb = {u: z3.Bool(f"indb_{u}") for u in U}
        reg = {u: z3.Bool(f"reg_{u}") for u in U}
        missing = z3.Or(*[z3.And(reg[u], z3.Not(indb[u])) for u in U])
        goals = []
        if err is not None and not isinstance(err, MissingEphemerisError):
            rep.error("exception", repr(err))
            continue
        goals.append(z3.BoolVal(err is not None) == missing)
        if err is None:
            n_ok += 1
            rows = {row.agent_id: row for row in cap["rows"]}
            for u, a in agents.items():
                if u in rows:
                    st = a.__dict__["_truth_state"]
                    goals.append(z3.And(*[(x.t if isinstance(x, SReal) else rv(x)) == y.t for x, y in zip(st, rows[u].eci)]))
                    goals.append(z3.BoolVal(abs(float(a.__dict__["_time"]) - 600.0) < 1e-4))
                    if u in (101,):  # the sensing agent: its Earth-fixed state must be derived at the row's epoch
                        when = cap["ecef_epochs"].get(id(st))
                        goals.append(z3.BoolVal(when is not None and abs((when - epoch).total_seconds()) < 1.5))
                else:
                    goals.append(z3.BoolVal(False))  # registered agent without a row although no error was raised
            goals.append(z3.BoolVal(len(imp._registrants) == 0))
        else:
            n_err += 1
        n += 1
        if len(rep.violations) >= 5:  # (five replayed counterexamples are reported; the remaining paths of a broken tree add nothing)
            continue
        rep.prove(f"import#{n}", z3.And(*goals), r.constraints, inputs=inputs, replay=replay_import,
                  sample="MissingEphemerisError iff a registered agent has no row; otherwise every registered agent holds exactly its own row's state and epoch")
    # (that the query the real code builds selects exactly the records of the epoch is decided behaviourally in O6: the where-clause is evaluated there)
    if n_err == 0 or n_ok == 0:
        rep.error("reach", "both the error and the success outcome must be reachable")
    rep.reachable("superset-with-gap", [z3.Bool("reg_101"), z3.Not(z3.Bool("indb_101")), z3.Bool("indb_104"), z3.Bool("indb_105"), z3.Not(z3.Bool("reg_104")), z3.Not(z3.Bool("reg_105")),
                                        z3.Bool("reg_102"), z3.Bool("indb_102")])


# ----------------------------------------------------------------------------------
def _real_measurement():
    import numpy as np
    from resonaate.physics.measurements import Measurement

    return Measurement.fromMeasurementLabels(["azimuth_rad", "elevation_rad"], np.eye(2) * 1e-6)


def _stored_observation(i, sensor_id, target_id, pos):
    """A real Observation as it comes back from the importer database: the measurement metadata is not stored."""
    import numpy as np
    from resonaate.data.observation import Observation

    ob = Observation(julian_date=2459303.5 + 600 / 86400, target_id=target_id, sensor_id=sensor_id, sensor_type="Optical", sensor_eci=np.array([*pos, 0.0, 0.0, 0.0]),
                     measurement=_real_measurement(), azimuth_rad=0.1 * (i + 1), elevation_rad=0.2)
    ob._measurement = None
    ob._row_index = i
    return ob


def _bare_sensing_agent(measurement):
    """A real SensingAgent without running its constructor: only the attribute the real constructor stores the sensor in."""
    import types

    from resonaate.agents.sensing_agent import SensingAgent

    ag = object.__new__(SensingAgent)
    ag._sensors = types.SimpleNamespace(measurement=measurement, host=ag)
    return ag


def replay_observations(d):
    """The same stored rows through the real loadImportedObservations (concrete)."""
    from resonaate.tasking.engine import centralized_engine as CE

    sensors = [21, 22]
    meas = {s: _real_measurement() for s in sensors}
    rows = [_stored_observation(r["i"], r["sensor"], r["target"], tuple(r["pos"])) for r in d["rows"]]
    eng = object.__new__(CE.CentralizedTaskingEngine)
    eng.logger = logging.getLogger("symx")

    class IDB:
        def getData(self, query, multi=True):
            return rows

    eng._importer_db = IDB()
    eng._sensor_store = {s: _bare_sensing_agent(meas[s]) for s in sensors}

    class Ray:
        @staticmethod
        def get(h):
            return h

    try:
        with shadow(CE, ray=Ray):
            out = eng.loadImportedObservations(_dt.datetime(2021, 3, 30, 0, 10, 0))
    except Exception as e:  # noqa: BLE001
        return True, {"raised": repr(e)}
    want = _wanted(rows)
    ok = [x._row_index for x in out] == [x._row_index for x in want] and all(x.measurement is meas[x.sensor_id] for x in out)
    return (not ok), {"returned": [x._row_index for x in out], "expected": [x._row_index for x in want]}


def _wanted(rows):
    """Independent oracle: every stored observation reaches its target's filter; only a repeated record of the same
    (sensor, target) pair at the epoch is a duplicate."""
    seen, want = set(), []
    for row in rows:
        key = (row.sensor_id, row.target_id)
        if key not in seen:
            seen.add(key)
            want.append(row)
    return want


def o3_observations(rep):
    from resonaate.tasking.engine import centralized_engine as CE

    sensors = [21, 22]
    targets = [11, 12]
    meas = {s: _real_measurement() for s in sensors}

    def run():
        eng = object.__new__(CE.CentralizedTaskingEngine)
        eng.logger = logging.getLogger("symx")
        cap = {}
        rows = []
        # up to 3 stored observations; (sensor, target) of each chosen by the solver; the position stored with a row is its sensor's position
        for i in range(3):
            if not bool(boolean(f"present_{i}")):
                continue
            s = sensors[0] if bool(boolean(f"sens_{i}")) else sensors[1]
            t = targets[0] if bool(boolean(f"tgt_{i}")) else targets[1]
            rows.append(_stored_observation(i, s, t, (1000.0 + s, 2000.0 + s, 3000.0)))

        class IDB:
            def getData(self, query, multi=True):
                cap["query"] = query
                return rows

        eng._importer_db = IDB()
        eng._sensor_store = {s: _bare_sensing_agent(meas[s]) for s in sensors}

        class Ray:
            @staticmethod
            def get(h):
                return h

        epoch = _dt.datetime(2021, 3, 30, 0, 10, 0)
        with shadow(CE, ray=Ray):
            out = eng.loadImportedObservations(epoch)
        return rows, out, cap, epoch

    res = explore(run, max_paths=5000, max_depth=60, catch=(Exception,))
    rep.note(f"paths={len(res)}")
    n = 0
    for r in res:
        n += 1
        if r.exc is not None:
            if len(rep.violations) >= 5:
                continue
            # the real code raised for a feasible database content: replay it
            m = rep.feasible(f"raises#{n}", r.constraints)
            rep.prove(f"observations#{n}", z3.BoolVal(False), r.constraints, inputs=_rows_from_model, replay=replay_observations,
                      sample=f"loadImportedObservations must not raise ({type(r.exc).__name__})")
            continue
        rows, out, cap, epoch = r.out
        if len(rep.violations) >= 5:  # (five replayed counterexamples are reported; the remaining paths of a broken tree add nothing)
            continue
        want = _wanted(rows)
        ok = [id(x) for x in out] == [id(x) for x in want] and all(x.measurement is meas[x.sensor_id] for x in out)
        rep.prove(f"observations#{n}", z3.BoolVal(bool(ok)), r.constraints, inputs=_rows_from_model, replay=replay_observations,
                  sample="every stored observation (distinct sensor/target pair) is returned once, in order, with its sensor's measurement attached (real Observation rows, bare real SensingAgent)")
    if n < 8:
        rep.error("reach", "too few database contents explored")


def _rows_from_model(m):
    rows = []
    for i in range(3):
        g = lambda nm: bool(z3.is_true(m.eval(z3.Bool(nm), model_completion=True)))  # noqa: E731
        if not g(f"present_{i}"):
            continue
        s = 21 if g(f"sens_{i}") else 22
        t = 11 if g(f"tgt_{i}") else 12
        rows.append({"i": i, "sensor": s, "target": t, "pos": [1000.0 + s, 2000.0 + s, 3000.0]})
    return {"rows": rows}


def o4_readonly(rep):
    from resonaate.data.importer_database import ImporterDatabase

    db = object.__new__(ImporterDatabase)
    outcomes = []
    for name, args in (("insertData", (object(),)), ("insertData", ()), ("deleteData", (object(),)), ("bulkSave", ([object()],)), ("bulkSave", ([],))):
        try:
            getattr(db, name)(*args)
            outcomes.append((name, "returned"))
        except NotImplementedError:
            outcomes.append((name, "NotImplementedError"))
        except Exception as e:  # noqa: BLE001
            outcomes.append((name, type(e).__name__))
    ok = all(o[1] == "NotImplementedError" for o in outcomes)
    rep.prove("write-methods-raise", z3.BoolVal(ok), [], sample=f"public write methods of ImporterDatabase raise for every argument: {outcomes}")
    # they do not touch the session at all: the methods' code objects reference no session/engine attribute
    import inspect

    src = "".join(inspect.getsource(getattr(ImporterDatabase, n)) for n in ("insertData", "deleteData", "bulkSave"))
    rep.prove("write-methods-touch-nothing", z3.BoolVal("session" not in src.split('"""')[-1] and "_getSessionScope" not in src), [], sample="insertData/deleteData/bulkSave bodies only raise")


# ==================================================================================
# shared: the where-clause of the REAL Query evaluated on joined rows
# ==================================================================================
def _where(clause, row):
    """bool / SBool: value of the where-clause of a real SQLAlchemy Query on one joined row {(table name, column key): value}."""
    from sqlalchemy.sql import operators
    from sqlalchemy.sql.elements import BinaryExpression, BindParameter, BooleanClauseList, Grouping

    if clause is None:
        return True
    if isinstance(clause, Grouping):
        return _where(clause.element, row)
    if isinstance(clause, BooleanClauseList):
        vals = [bool(_where(c, row)) for c in clause.clauses]
        if clause.operator is operators.and_:
            return all(vals)
        if clause.operator is operators.or_:
            return any(vals)
        raise Unsupported(f"where-clause operator {clause.operator}")
    if isinstance(clause, BinaryExpression):
        def side(x):
            if isinstance(x, BindParameter):
                return x.value
            key = (getattr(getattr(x, "table", None), "name", None), getattr(x, "key", None))
            if key in row:
                return row[key]
            raise Unsupported(f"where-clause operand {x!r} (the stub tables hold {sorted(map(str, row))})")
        a, b = side(clause.left), side(clause.right)
        name = clause.operator.__name__
        ops = {"eq": lambda: a == b, "ne": lambda: a != b, "le": lambda: a <= b, "lt": lambda: a < b, "ge": lambda: a >= b, "gt": lambda: a > b}
        if name not in ops:
            raise Unsupported(f"where-clause operator {name}")
        return ops[name]()
    raise Unsupported(f"where-clause element {type(clause).__name__}")


def _tables():
    from resonaate.data.ephemeris import TruthEphemeris
    from resonaate.data.epoch import Epoch
    from resonaate.data.observation import Observation

    return {"epoch": Epoch.__tablename__, "ephem": TruthEphemeris.__tablename__, "obs": Observation.__tablename__}


def _entity_name(query):
    try:
        return str(query.column_descriptions[0]["entity"].__name__)
    except Exception:  # noqa: BLE001
        return None


_HARNESS_EXC = (AttributeError, TypeError, NameError, Unsupported, ImportError)


# ==================================================================================
# O5: every mix of realtime and imported agents through the real Scenario.stepForward
# ==================================================================================
MIX_START = _dt.datetime(2021, 3, 30, 17, 0, 0)
MIX_DT = 60.0
MIX = {"quick": {"targets": (11, 12), "sensors": (21,), "extra": (99,), "steps": 2},
       "thorough": {"targets": (11, 12), "sensors": (21, 22), "extra": (99,), "steps": 2}}


def _mix_state(kind, step, aid, concrete):
    """The 6-state a record / a propagation / the initial condition carries: solver variables, or distinct codes in a replay."""
    if concrete:
        base = {"row": 1.0e5, "prop": 2.0e5, "old": 3.0e5}[kind]
        return np.array([base + 1000.0 * step + aid + k / 8.0 for k in range(6)], dtype=float)
    return np.array([real(f"{kind}{step}_{aid}_{k}") for k in range(6)], dtype=object)


def _run_mixed(cfg, choose, concrete=False):
    """`steps` real stepForward calls of a bare Scenario whose targets / sensors are realtime or imported as the two propagation flags say.

    choose(name) -> bool decides the flags and, per step and agent id, whether the importer database holds a record."""
    import types

    from resonaate.agents import sensing_agent as SA
    from resonaate.agents import target_agent as TA
    from resonaate.dynamics import importer as IM
    from resonaate.parallel import agent_propagation as AP
    from resonaate.physics.time.stardate import ScenarioTime, datetimeToJulianDate
    from resonaate.scenario import clock as CK
    from resonaate.scenario import scenario as SC
    from resonaate.scenario.config.propagation_config import PropagationConfig

    targets, sensors, extra, nsteps = cfg["targets"], cfg["sensors"], cfg["extra"], cfg["steps"]
    rt_t, rt_s = choose("rt_targets"), choose("rt_sensors")
    log = logging.getLogger("symx")
    log.setLevel(logging.CRITICAL)
    logging.getLogger("resonaate").setLevel(logging.CRITICAL + 1)  # (the real importer logs the missing ids before raising)
    clock = object.__new__(CK.ScenarioClock)
    clock.datetime_start, clock.julian_date_start = MIX_START, datetimeToJulianDate(MIX_START)
    clock.dt_step, clock.time, clock.initial_time, clock.logger = ScenarioTime(MIX_DT), ScenarioTime(0), ScenarioTime(0), log
    ctx = {"step": 0, "propagated": [], "consulted": {}}
    T = _tables()

    def agent(base, aid, realtime):
        a = object.__new__(base)
        a.__dict__.update(_id=aid, _realtime=realtime, _time=clock.time, _dt_step=clock.dt_step, julian_date_start=clock.julian_date_start, datetime_start=clock.datetime_start,
                          _dynamics="dynamics-token", _station_keeping=[], propagate_event_queue=[], sensor_time_bias_event_queue=[], _logger=log,
                          _truth_state=_mix_state("old", 0, aid, concrete), _previous_state=None, _ecef_state=None, _lla_state=None)
        return a

    # the importer database: records of every epoch of the run; the REAL query's where-clause selects
    class DB:
        def getData(self, query, multi=True):
            if _entity_name(query) != "TruthEphemeris":
                return [] if multi else None
            out = []
            for s in range(0, nsteps + 1):
                jd = float(ScenarioTime(s * MIX_DT).convertToJulianDate(clock.julian_date_start))
                iso = (MIX_START + _dt.timedelta(seconds=s * MIX_DT)).isoformat(timespec="microseconds")
                for u in (*targets, *sensors, *extra):
                    cols = {(T["epoch"], "timestampISO"): iso, (T["epoch"], "julian_date"): jd, (T["ephem"], "julian_date"): jd, (T["ephem"], "agent_id"): u}
                    if not bool(_where(query.whereclause, cols)):
                        continue
                    if s == 0:
                        continue  # (the initial epoch is never imported)
                    has = choose(f"has_{s}_{u}")
                    ctx["consulted"][(s, u)] = has
                    if has:
                        row = Row(u, concrete=True)
                        row.eci, row.julian_date = list(_mix_state("row", s, u, concrete)), jd
                        out.append(row)
            return out if multi else (out[0] if out else None)

    class Events:  # the output database: no events
        def getData(self, query, multi=True):
            return [] if multi else None

    class Executor:
        """Stands for PropagateExecutor + worker: the real PropagateRegistration makes the submission and takes the result; the agent's own dynamics yield `prop`."""

        def __init__(self):
            self.jobs = []

        def enqueueJob(self, reg):
            self.jobs.append(reg)

        def join(self):
            jobs, self.jobs = self.jobs, []
            for reg in jobs:
                sub = reg.generateSubmission()
                ctx["propagated"].append((ctx["step"], sub.agent_id))
                reg.processResults(AP.PropagateResult(agent_id=sub.agent_id, final_time=sub.final_time, prev_state=sub.init_eci, final_eci=_mix_state("prop", ctx["step"], sub.agent_id, concrete)))

    sc = object.__new__(SC.Scenario)
    sc.clock = clock
    sc.current_julian_date = clock.julian_date_epoch
    sc.database = Events()
    sc.logger = log
    sc.scenario_config = types.SimpleNamespace(propagation=PropagationConfig(target_realtime_propagation=rt_t, sensor_realtime_propagation=rt_s, truth_simulation_only=True))
    sc.target_agents = {u: agent(TA.TargetAgent, u, rt_t) for u in targets}
    sc._sensor_agents = {u: agent(SA.SensingAgent, u, rt_s) for u in sensors}
    sc._estimate_agents = {}
    sc._importer_db_path = "stub"
    sc._ephem_importer = None
    if not (rt_t and rt_s):  # as the real constructor: an importer whenever some group is imported
        with shadow(IM, ImporterDatabase=lambda *a, **k: DB()):
            sc._ephem_importer = IM.EphemerisImporter("stub")
    sc._stepped_epochs = {}
    sc._agent_propagator = Executor()
    sc._estimate_predictor = sc._estimate_updater = types.SimpleNamespace(enqueueJob=lambda *a: None, join=lambda: None)
    sc._target_store, sc._sensor_store, sc._estimate_store = {}, {}, {}
    sc._tasking_engines = {}
    agents = {**sc.target_agents, **sc._sensor_agents}
    snaps, err, err_step = [], None, None
    nul = lambda *a, **k: None  # noqa: E731
    with shadow(SC, ray=types.SimpleNamespace(put=lambda x: x), EventStack=types.SimpleNamespace(logAndFlushEvents=nul)), \
            shadow(AP, ReductionParams=types.SimpleNamespace(build=lambda d: None)), shadow(SA, eci2ecef=lambda x, when: x, ecef2lla=lambda x: x[:3]):
        for s in range(1, nsteps + 1):
            ctx["step"] = s
            try:
                sc.stepForward()
            except _HARNESS_EXC:
                raise
            except Exception as e:  # noqa: BLE001
                err, err_step = e, s
                break
            snaps.append({u: (list(a.eci_state), float(a.time), float(clock.time)) for u, a in agents.items()})
    return {"rt_t": rt_t, "rt_s": rt_s, "snaps": snaps, "err": err, "err_step": err_step, "consulted": dict(ctx["consulted"]), "propagated": list(ctx["propagated"])}


def _mix_expect(cfg, d):
    """Independent oracle: (step at which the run must stop with MissingEphemerisError or None, {step: {agent: 'row' | 'prop'}})."""
    imported = ([] if d["rt_targets"] else list(cfg["targets"])) + ([] if d["rt_sensors"] else list(cfg["sensors"]))
    plan = {}
    for s in range(1, cfg["steps"] + 1):
        have = set(d["rows"].get(str(s), d["rows"].get(s, [])))
        if any(u not in have for u in imported):
            return s, plan
        plan[s] = {u: ("row" if u in imported else "prop") for u in (*cfg["targets"], *cfg["sensors"])}
    return None, plan


def replay_mixed(d):
    """The same configuration on the same real classes with plain floats."""
    from resonaate.common.exceptions import MissingEphemerisError

    cfg = MIX[d["tier"]]

    def choose(name):
        if name in ("rt_targets", "rt_sensors"):
            return bool(d[name])
        _h, s, u = name.split("_")
        return int(u) in d["rows"].get(s, [])

    out = _run_mixed(cfg, choose, concrete=True)
    stop, plan = _mix_expect(cfg, d)
    problems = []
    if out["err"] is not None and not isinstance(out["err"], MissingEphemerisError):
        problems.append(f"step {out['err_step']}: {type(out['err']).__name__}: {out['err']}")
    elif out["err_step"] != stop:
        problems.append(f"MissingEphemerisError at step {out['err_step']}, but the first step with a registered agent lacking a record is {stop}")
    for s, snap in enumerate(out["snaps"], start=1):
        for u, (st, t_agent, t_clock) in snap.items():
            if s not in plan:
                problems.append(f"step {s} completed although an imported agent has no record")
                break
            want = _mix_state(plan[s][u], s, u, True)
            if [float(x) for x in st] != [float(x) for x in want]:
                src = "another source"
                for kind in ("row", "prop", "old"):
                    for s2 in range(0, cfg["steps"] + 1):
                        if [float(x) for x in st] == [float(x) for x in _mix_state(kind, s2, u, True)]:
                            src = {"row": f"the database record of step {s2}", "prop": f"its own propagation of step {s2}", "old": "its initial state"}[kind]
                problems.append(f"step {s}: agent {u} ({'imported' if plan[s][u] == 'row' else 'realtime'}) holds {src} instead of "
                                f"{'the database record' if plan[s][u] == 'row' else 'its propagated state'} of step {s}")
            if abs(t_agent - t_clock) > 1e-4:
                problems.append(f"step {s}: agent {u} at t={t_agent}, clock at {t_clock}")
    return bool(problems), {"flags": {"target_realtime_propagation": d["rt_targets"], "sensor_realtime_propagation": d["rt_sensors"]}, "records": d["rows"],
                            "raised": repr(out["err"]), "problems": problems[:6]}


def o5_mixed(rep, tier="quick"):
    from resonaate.common.exceptions import MissingEphemerisError

    cfg = MIX[tier]
    ids = (*cfg["targets"], *cfg["sensors"])
    universe = (*ids, *cfg["extra"])
    res = explore(lambda: _run_mixed(cfg, lambda n: bool(boolean(n))), max_paths=20000, max_depth=60, catch=_HARNESS_EXC)
    rep.note(f"paths={len(res)}")
    B = z3.Bool
    imp = {u: z3.Not(B("rt_targets") if u in cfg["targets"] else B("rt_sensors")) for u in ids}

    def missing(s):
        return z3.Or(*[z3.And(imp[u], z3.Not(B(f"has_{s}_{u}"))) for u in ids])

    def inputs(m):
        g = lambda n: bool(mval(m, B(n)))  # noqa: E731
        return {"tier": tier, "rt_targets": g("rt_targets"), "rt_sensors": g("rt_sensors"),
                "rows": {str(s): [u for u in universe if g(f"has_{s}_{u}")] for s in range(1, cfg["steps"] + 1)}}

    what = ("after every step each imported agent (group flag false) holds exactly the importer record of that agent and epoch and each realtime agent its propagated state; the run stops with "
            "MissingEphemerisError at the first step at which an imported agent has no record, and only then")
    classes = {}
    for n, r in enumerate(res, start=1):
        if r.exc is not None:
            rep.error(f"exception#{n}", repr(r.exc))
            continue
        o = r.out
        goals = []
        for s, snap in enumerate(o["snaps"], start=1):
            goals.append(z3.Not(missing(s)))
            for u, (st, t_agent, t_clock) in snap.items():
                row, prop = _mix_state("row", s, u, False), _mix_state("prop", s, u, False)
                goals.append(z3.And(*[(x.t if isinstance(x, SReal) else rv(x)) == z3.If(imp[u], a.t, b.t) for x, a, b in zip(st, row, prop)]))
                goals.append(z3.BoolVal(abs(t_agent - t_clock) < 1e-4))
        if o["err"] is not None:
            goals.append(missing(o["err_step"]) if isinstance(o["err"], MissingEphemerisError) else z3.BoolVal(False))
        if len(rep.violations) < 3:  # (three replayed counterexamples are reported; the remaining paths of a broken tree add nothing)
            rep.prove(f"mixed#{n}", z3.And(*goals), r.constraints, inputs=inputs, replay=replay_mixed, sample=what)
        key = (o["rt_t"], o["rt_s"], o["err_step"] is not None, any(has and u in cfg["extra"] for (_s, u), has in o["consulted"].items()))
        classes.setdefault(key, r)
    # vacuity: every mix, with and without a gap, with unrelated records in the database
    for (rt_t, rt_s, gap, unrelated), r in sorted(classes.items(), key=str):
        rep.reachable(f"class[targets {'realtime' if rt_t else 'imported'}, sensors {'realtime' if rt_s else 'imported'}, {'gap' if gap else 'complete'}, "
                      f"{'with' if unrelated else 'without'} unrelated records]", r.constraints)
    need = [(a, b, g) for a in (True, False) for b in (True, False) for g in (True, False) if not (a and b and g)]
    lacking = [k for k in need if not any(c[:3] == k for c in classes)]
    if lacking and not rep.violations:
        rep.error("reach", f"configuration classes (targets realtime, sensors realtime, gap) not reached: {lacking}")


# ==================================================================================
# O6: the records of an epoch are exactly the ones the real query selects (bit-exact Julian dates)
# ==================================================================================
EPOCH_DAYS = {"quick": ("2021-03-30",), "thorough": ("2021-03-30", "2018-12-01", "2024-02-28")}
EPOCH_CFG = {"quick": [("obs", 60, 12), ("obs", 300, 12), ("ephem", 60, 12)], "thorough": [("obs", 60, 40), ("obs", 300, 40), ("ephem", 60, 40), ("ephem", 300, 40)]}


class _Iso(IsoToken):
    """isoformat() token that also orders: ISO strings of one format order as their instants do."""

    def __lt__(self, o):
        return SBool(self.n < o.n)

    def __le__(self, o):
        return SBool(self.n <= o.n)

    def __gt__(self, o):
        return SBool(self.n > o.n)

    def __ge__(self, o):
        return SBool(self.n >= o.n)

    __hash__ = IsoToken.__hash__


class _DayDT(SDateTime):
    """The calendar model with the day kept concrete: an addition forks over 'same day / next day' (shifts stay below one day)."""

    def isoformat(self, sep="T", timespec="auto"):
        return _Iso(self.tot, z3.IntVal(0))

    def _shift(self, secs):
        sod = z3.simplify(self.sod + secs)
        if cur().branch(sod <= 86399):
            return _DayDT._of(self.n, sod)  # noqa: SLF001
        return _DayDT._of(z3.simplify(self.n + 1), z3.simplify(sod - 86400))  # noqa: SLF001


def _day_number(day):
    return (_dt.date.fromisoformat(day) - _dt.date(1901, 1, 1)).days


def _run_epoch(kind, day, dt, kmax):
    """A database written by a RESONAATE run that started at second `sod0` of `day` (epoch rows as the real clock writes them: timestamp of the instant, Julian date
    ScenarioTime.convertToJulianDate(start)); one record at step ki; the real importer / engine asks for the epoch of step k."""
    import types

    from resonaate.common.exceptions import MissingEphemerisError
    from resonaate.dynamics import importer as IM
    from resonaate.tasking.engine import centralized_engine as CE

    with time_env([("resonaate.tasking.engine.centralized_engine", {"float": fp.fp_float}), ("resonaate.dynamics.importer", {"float": fp.fp_float})]) as ns:
        sod0, k, ki = integer("sod0"), integer("k"), integer("ki")
        assume(sod0.t >= 0, sod0.t <= 86399, k.t >= 1, k.t <= kmax, ki.t >= 1, ki.t <= kmax)
        t0 = _DayDT._of(z3.IntVal(_day_number(day)), sod0.t)  # noqa: SLF001
        js = ns.stardate.datetimeToJulianDate(t0)  # ScenarioClock.__init__: julian_date_start
        jd_i = fp.fp_float(ns.ScenarioTime(fp.from_int(ki.t * dt, 0, kmax * dt)).convertToJulianDate(js))  # ScenarioClock.__init__ / julian_date_epoch: the epoch row of step ki
        iso_i = (t0 + STimeDelta(seconds=ki.t * dt)).isoformat(timespec="microseconds")
        epoch = t0 + STimeDelta(seconds=k.t * dt)  # ScenarioClock.datetime_epoch at step k
        T = _tables()
        table = T[kind]
        cols = {(table, "julian_date"): jd_i, (T["epoch"], "julian_date"): jd_i, (T["epoch"], "timestampISO"): iso_i, (table, "target_id"): 11, (table, "sensor_id"): 21, (table, "agent_id"): 11}
        log = logging.getLogger("symx")
        log.setLevel(logging.CRITICAL)
        logging.getLogger("resonaate").setLevel(logging.CRITICAL + 1)
        if kind == "obs":
            row = _stored_observation(0, 21, 11, (1021.0, 2021.0, 3000.0))
        else:
            row = Row(11, concrete=True)

        class IDB:
            def getData(self, query, multi=True):
                want = "Observation" if kind == "obs" else "TruthEphemeris"
                if _entity_name(query) != want:
                    raise Unsupported(f"query over {_entity_name(query)}")
                return [row] if bool(_where(query.whereclause, cols)) else []

        if kind == "obs":
            eng = object.__new__(CE.CentralizedTaskingEngine)
            eng.logger = log
            eng._importer_db = IDB()
            eng._sensor_store = {21: _bare_sensing_agent(_real_measurement())}
            with shadow(CE, ray=types.SimpleNamespace(get=lambda h: h)):
                out = eng.loadImportedObservations(epoch)
            return {"selected": len(out) == 1 and out[0] is row, "none": len(out) == 0, "k": k, "ki": ki}
        got = []
        with shadow(IM, ImporterDatabase=lambda *a, **kw: IDB()):
            imp = IM.EphemerisImporter("stub")
        imp.registerAgent(types.SimpleNamespace(simulation_id=11, realtime=False, importState=got.append))
        missing = False
        try:
            imp.importEphemerides(epoch)
        except MissingEphemerisError:
            missing = True
        return {"selected": got == [row] and not missing, "none": missing and not got, "k": k, "ki": ki}


def replay_epoch(d):
    """The same database as a real (in-memory) SQLite importer database read through the real ImporterDatabase by the real importer / engine."""
    import types

    from resonaate.common.exceptions import MissingEphemerisError
    from resonaate.data.agent import AgentModel
    from resonaate.data.ephemeris import TruthEphemeris
    from resonaate.data.epoch import Epoch
    from resonaate.data.importer_database import ImporterDatabase
    from resonaate.data.observation import Observation
    from resonaate.dynamics import importer as IM
    from resonaate.physics.time.stardate import ScenarioTime, datetimeToJulianDate
    from resonaate.tasking.engine import centralized_engine as CE

    logging.getLogger("resonaate").setLevel(logging.CRITICAL + 1)
    start = _dt.datetime.fromisoformat(d["day"]) + _dt.timedelta(seconds=d["sod0"])
    dt, k, ki, kmax = d["dt"], d["k"], d["ki"], d["kmax"]
    js = datetimeToJulianDate(start)
    db = ImporterDatabase("sqlite://", logger=logging.getLogger("symx"))
    jds = {}
    for s in range(kmax + 1):  # the epoch rows as ScenarioClock.__init__ writes them
        jds[s] = float(ScenarioTime(s * dt).convertToJulianDate(js))
        db._insertData(Epoch(julian_date=jds[s], timestampISO=(start + _dt.timedelta(seconds=s * dt)).isoformat(timespec="microseconds")))  # noqa: SLF001
    db._insertData(AgentModel(unique_id=11, name="target"), AgentModel(unique_id=21, name="sensor"))  # noqa: SLF001
    epoch = start + _dt.timedelta(seconds=k * dt)
    if d["kind"] == "obs":
        meas = _real_measurement()
        db._insertData(Observation(julian_date=jds[ki], target_id=11, sensor_id=21, sensor_type="Optical", sensor_eci=np.array([1021.0, 2021.0, 3000.0, 0.0, 0.0, 0.0]),  # noqa: SLF001
                                   measurement=meas, azimuth_rad=0.1, elevation_rad=0.2))
        eng = object.__new__(CE.CentralizedTaskingEngine)
        eng.logger = logging.getLogger("symx")
        eng._importer_db = db
        eng._sensor_store = {21: _bare_sensing_agent(meas)}
        want = [(21, 11, jds[ki])] if k == ki else []
        try:
            with shadow(CE, ray=types.SimpleNamespace(get=lambda h: h)):
                out = eng.loadImportedObservations(epoch)
            got = [(o.sensor_id, o.target_id, float(o.julian_date)) for o in out]
            bad = got != want
            detail = {"returned": got, "expected": want}
        except Exception as e:  # noqa: BLE001
            bad, detail = True, {"raised": repr(e)[:200], "expected": want}
    else:
        db._insertData(TruthEphemeris(julian_date=jds[ki], agent_id=11, pos_x_km=7000.0, pos_y_km=1.0, pos_z_km=2.0, vel_x_km_p_sec=0.0, vel_y_km_p_sec=7.5, vel_z_km_p_sec=0.0))  # noqa: SLF001
        got = []
        with shadow(IM, ImporterDatabase=lambda *a, **kw: db):
            imp = IM.EphemerisImporter("stub")
        imp.registerAgent(types.SimpleNamespace(simulation_id=11, realtime=False, importState=lambda e: got.append((e.agent_id, float(e.julian_date)))))
        raised = None
        other = None
        try:
            imp.importEphemerides(epoch)
        except MissingEphemerisError as e:
            raised = repr(e)[:160]
        except Exception as e:  # noqa: BLE001
            other = repr(e)[:200]
        want = [(11, jds[ki])] if k == ki else []
        bad = got != want or (raised is None) != (k == ki) or other is not None
        detail = {"imported": got, "expected": want, "MissingEphemerisError": raised, "other_exception": other}
    db.engine.dispose()
    detail.update(start=start.isoformat(), dt=dt, step_asked=k, step_of_record=ki, epoch=epoch.isoformat(), record_julian_date=repr(jds[ki]),
                  datetimeToJulianDate_of_epoch=repr(float(datetimeToJulianDate(epoch))))
    return bad, detail


def _prove_split(rep, label, goal, cons, kt, kmax, inputs, replay, what):
    """rep.prove with a complete case split over the step index when the plain query is not decided in time (each case is a solver query; the cases cover 1 <= k <= kmax,
    which is among the constraints).  A model is replayed on the real code before it counts."""
    from symx.core import Verdict

    def candidate(v, lab):
        data = inputs(v.model)
        try:
            reproduced, detail = replay(data)
        except Exception as e:  # noqa: BLE001
            reproduced, detail = False, f"replay raised {type(e).__name__}: {e}"
        rep._item(lab, "prove", v, {"counterexample": data, "replay": {"reproduced": reproduced, "detail": detail}})  # noqa: SLF001
        if reproduced:
            rep.concrete_violation(lab, data, detail)
        else:
            rep.error(lab, f"counterexample does not reproduce on the real code: {detail}")
        return False

    v = solve(list(cons) + [z3.Not(goal)], 20000)
    rep.sample({"obligation": f"{rep.ob}:{label}", "verdict": v.status, "what": what})
    if v.status == "unsat":
        rep._item(label, "prove", v)  # noqa: SLF001
        return True
    if v.status == "sat":
        return candidate(v, label)
    secs, open_cases = v.secs, []
    for k0 in range(1, kmax + 1):
        vk = solve(list(cons) + [z3.Not(goal), kt == k0], 12000)
        secs += vk.secs
        rep._item(f"{label}|k={k0}", "case", vk)  # noqa: SLF001
        if vk.status == "sat":
            return candidate(vk, f"{label}|k={k0}")
        if vk.status != "unsat":
            open_cases.append(k0)
    if not open_cases:
        rep._item(label, "prove", Verdict("unsat", None, secs, f"case split over k = 1..{kmax}: every case unsat"))  # noqa: SLF001
        return True
    rep.undecided(label, f"plain query and the cases k in {open_cases} not decided in time")
    return None


def o6_epoch(rep, kind, day, dt, kmax):
    with fp.mode("exact"):
        res = explore(lambda: _run_epoch(kind, day, dt, kmax), max_paths=64, max_depth=80, branch_timeout_ms=5000, catch=(Exception,))
    rep.note(f"paths={len(res)}")

    def inputs(m):
        g = lambda n: mval(m, z3.Int(n))  # noqa: E731
        return {"kind": kind, "day": day, "sod0": g("sod0"), "dt": dt, "k": g("k"), "ki": g("ki"), "kmax": kmax}

    what = ("for every start second of the day and every pair of steps (k, ki): the record stored for the epoch of step ki (Julian date written by the clock arithmetic) is "
            + ("returned by loadImportedObservations" if kind == "obs" else "imported by importEphemerides") + " at the epoch of step k iff ki == k"
            + ("" if kind == "obs" else "; MissingEphemerisError otherwise"))
    seen = set()
    # paths on which the record was not delivered first: a wrong look-up key shows there
    order = sorted(range(len(res)), key=lambda i: (res[i].exc is None and bool(res[i].out["selected"]), i))
    kt = z3.Int("k")
    for n in order:
        r = res[n]
        if rep.violations:
            break  # (one replayed counterexample is reported; the remaining paths of a broken tree add nothing)
        if r.exc is not None:
            if isinstance(r.exc, _HARNESS_EXC):
                rep.error(f"exception#{n}", repr(r.exc))
            else:
                _prove_split(rep, f"raises#{n}", z3.BoolVal(False), r.constraints, kt, kmax, inputs, replay_epoch, f"must not raise {type(r.exc).__name__}")
            continue
        o = r.out
        same = o["k"].t == o["ki"].t
        goal = same if o["selected"] else (z3.Not(same) if o["none"] else z3.BoolVal(False))
        cls = "delivered" if o["selected"] else "not delivered"
        _prove_split(rep, f"epoch#{n}[{cls}]", goal, fp.sliced(r.path, goal), kt, kmax, inputs, replay_epoch, what)
        if cls not in seen and not rep.violations:
            if rep.reachable(f"reach[{cls}]#{n}", r.constraints, timeout_ms=30000) is not None:
                seen.add(cls)
    if not rep.violations and seen != {"delivered", "not delivered"}:
        rep.error("reach", f"outcome classes reached: {sorted(seen)}")


# ==================================================================================
# O7: stored observations reach the filter update of their target at their epoch (real assess + real stepForward)
# ==================================================================================
ROUTE = {"quick": {"steps": 2, "rows": 2}, "thorough": {"steps": 3, "rows": 2}}
ROUTE_TARGETS, ROUTE_SENSORS = (11, 12), (21, 22)


def _run_routing(cfg, choose):
    """Real stepForward (estimation on) with a real CentralizedTaskingEngine that takes its observations from the importer database only (realtime_obs false).
    Per step `rows` stored observations (row j by sensor ROUTE_SENSORS[j]); choose() decides presence and target of each."""
    import types

    from resonaate.agents import sensing_agent as SA
    from resonaate.agents import target_agent as TA
    from resonaate.parallel import agent_propagation as AP
    from resonaate.physics.time.stardate import ScenarioTime, datetimeToJulianDate
    from resonaate.scenario import clock as CK
    from resonaate.scenario import scenario as SC
    from resonaate.scenario.config.propagation_config import PropagationConfig
    from resonaate.tasking.engine import centralized_engine as CE

    nsteps, nrows = cfg["steps"], cfg["rows"]
    log = logging.getLogger("symx")
    log.setLevel(logging.CRITICAL)
    logging.getLogger("resonaate").setLevel(logging.CRITICAL + 1)
    clock = object.__new__(CK.ScenarioClock)
    clock.datetime_start, clock.julian_date_start = MIX_START, datetimeToJulianDate(MIX_START)
    clock.dt_step, clock.time, clock.initial_time, clock.logger = ScenarioTime(MIX_DT), ScenarioTime(0), ScenarioTime(0), log
    meas = {u: _real_measurement() for u in ROUTE_SENSORS}

    def agent(base, aid):
        a = object.__new__(base)
        a.__dict__.update(_id=aid, _realtime=True, _time=clock.time, _dt_step=clock.dt_step, julian_date_start=clock.julian_date_start, datetime_start=clock.datetime_start,
                          _dynamics="dynamics-token", _station_keeping=[], propagate_event_queue=[], sensor_time_bias_event_queue=[], _logger=log,
                          _truth_state=_mix_state("old", 0, aid, True), _previous_state=None, _ecef_state=None, _lla_state=None)
        if base is SA.SensingAgent:
            a._sensors = types.SimpleNamespace(measurement=meas[aid], host=a)
        return a

    stored = {}  # step -> rows the database holds for that epoch
    T = _tables()

    def rows_of(s):
        if s not in stored:
            stored[s] = []
            for j in range(nrows):
                if choose(f"obs_{s}_{j}"):
                    t = ROUTE_TARGETS[0] if choose(f"tgt_{s}_{j}") else ROUTE_TARGETS[1]
                    sen = ROUTE_SENSORS[j % len(ROUTE_SENSORS)]
                    ob = _stored_observation(10 * s + j, sen, t, (1000.0 + sen + s, 2000.0 + sen, 3000.0))
                    ob.julian_date = float(ScenarioTime(s * MIX_DT).convertToJulianDate(clock.julian_date_start))
                    stored[s].append(ob)
        return stored[s]

    class IDB:
        def getData(self, query, multi=True):
            if _entity_name(query) != "Observation":
                raise Unsupported(f"importer query over {_entity_name(query)}")
            out = []
            for s in range(0, nsteps + 1):
                jd = float(ScenarioTime(s * MIX_DT).convertToJulianDate(clock.julian_date_start))
                iso = (MIX_START + _dt.timedelta(seconds=s * MIX_DT)).isoformat(timespec="microseconds")
                cols = {(T["epoch"], "timestampISO"): iso, (T["epoch"], "julian_date"): jd, (T["obs"], "julian_date"): jd}
                if s >= 1 and bool(_where(query.whereclause, cols)):
                    out.extend(rows_of(s))
            return out

    class Events:
        def getData(self, query, multi=True):
            return [] if multi else None

    class Executor:
        def __init__(self):
            self.jobs = []

        def enqueueJob(self, reg):
            self.jobs.append(reg)

        def join(self):
            jobs, self.jobs = self.jobs, []
            for reg in jobs:
                if isinstance(reg, AP.PropagateRegistration):
                    sub = reg.generateSubmission()
                    reg.processResults(AP.PropagateResult(agent_id=sub.agent_id, final_time=sub.final_time, prev_state=sub.init_eci, final_eci=_mix_state("prop", 0, sub.agent_id, True)))

    eng = object.__new__(CE.CentralizedTaskingEngine)
    eng.__dict__.update(logger=log, _unique_id=1, sensor_list=sorted(ROUTE_SENSORS), target_list=sorted(ROUTE_TARGETS), _reward=types.SimpleNamespace(metrics=[]), _decision=None,
                        _observations=[], _saved_observations=[], _missed_observations=[], _saved_missed_observations=[], sensor_changes={}, _database=Events(), _importer_db=IDB(),
                        _realtime_obs=False, _target_store={}, _sensor_store={}, _estimate_store={})
    eng.target_indices = {u: i for i, u in enumerate(eng.target_list)}
    eng.sensor_indices = {u: i for i, u in enumerate(eng.sensor_list)}
    updates = []

    class Update:  # stands for EstUpdateRegistration: what the filter of `agent` is given
        def __init__(self, est_agent, handle, observations):
            updates.append((step[0], est_agent.simulation_id, list(observations)))

    sc = object.__new__(SC.Scenario)
    sc.clock, sc.current_julian_date, sc.database, sc.logger = clock, clock.julian_date_epoch, Events(), log
    sc.scenario_config = types.SimpleNamespace(propagation=PropagationConfig(truth_simulation_only=False))
    sc.target_agents = {u: agent(TA.TargetAgent, u) for u in ROUTE_TARGETS}
    sc._sensor_agents = {u: agent(SA.SensingAgent, u) for u in ROUTE_SENSORS}
    sc._estimate_agents = {u: types.SimpleNamespace(simulation_id=u) for u in ROUTE_TARGETS}
    sc._ephem_importer, sc._stepped_epochs = None, {}
    sc._agent_propagator = sc._estimate_predictor = sc._estimate_updater = Executor()
    sc._target_store, sc._sensor_store, sc._estimate_store = {}, {}, {}
    sc._tasking_engines = {1: eng}
    step = [0]
    nul = lambda *a, **k: None  # noqa: E731
    behav = types.SimpleNamespace(getConfig=lambda: types.SimpleNamespace(debugging=types.SimpleNamespace(ThreeSigmaObs=False)))
    ray_stub = types.SimpleNamespace(put=lambda x: x, get=lambda h: h)
    err = None
    with shadow(SC, ray=ray_stub, EventStack=types.SimpleNamespace(logAndFlushEvents=nul), EstPredictRegistration=lambda a: a, EstUpdateRegistration=Update, BehavioralConfig=behav), \
            shadow(CE, ray=ray_stub), shadow(AP, ReductionParams=types.SimpleNamespace(build=lambda d: None)), shadow(SA, eci2ecef=lambda x, when: x, ecef2lla=lambda x: x[:3]):
        for s in range(1, nsteps + 1):
            step[0] = s
            try:
                sc.stepForward()
            except _HARNESS_EXC:
                raise
            except Exception as e:  # noqa: BLE001
                err = (s, e)
                break
            rows_of(s)  # (a database content the code never asked for is still part of the configuration)
    return {"updates": updates, "stored": stored, "err": err, "meas": meas}


def _routing_problems(cfg, out):
    """Independent oracle on one run: per completed step and target, the filter update gets exactly the observations stored for (that epoch, that target), in stored order,
    each carrying its sensor's measurement."""
    problems = []
    if out["err"] is not None:
        return [f"step {out['err'][0]}: {type(out['err'][1]).__name__}: {out['err'][1]}"]
    for s in range(1, cfg["steps"] + 1):
        for t in ROUTE_TARGETS:
            got = [u for u in out["updates"] if u[0] == s and u[1] == t]
            want = [ob for ob in out["stored"].get(s, []) if ob.target_id == t]
            if len(got) != 1:
                problems.append(f"step {s}: {len(got)} filter updates for target {t}")
                continue
            if [id(x) for x in got[0][2]] != [id(x) for x in want]:
                problems.append(f"step {s}: the filter of target {t} received observations {[(x.sensor_id, x.target_id, x._row_index) for x in got[0][2]]}, "
                                f"stored for that epoch and target: {[(x.sensor_id, x.target_id, x._row_index) for x in want]}")
            elif any(x.measurement is not out["meas"][x.sensor_id] for x in want):
                problems.append(f"step {s}: an observation of target {t} does not carry its sensor's measurement")
    return problems


def replay_routing(d):
    cfg = ROUTE[d["tier"]]
    out = _run_routing(cfg, lambda name: bool(d["choices"].get(name, False)))
    problems = _routing_problems(cfg, out)
    return bool(problems), {"stored": {str(s): [(x.sensor_id, x.target_id) for x in rows] for s, rows in out["stored"].items()}, "problems": problems[:6]}


def o7_routing(rep, tier="quick"):
    cfg = ROUTE[tier]
    res = explore(lambda: _run_routing(cfg, lambda n: bool(boolean(n))), max_paths=20000, max_depth=80, catch=_HARNESS_EXC)
    rep.note(f"paths={len(res)}")
    names = [f"{k}_{s}_{j}" for s in range(1, cfg["steps"] + 1) for j in range(cfg["rows"]) for k in ("obs", "tgt")]

    def inputs(m):
        return {"tier": tier, "choices": {n: bool(mval(m, z3.Bool(n))) for n in names}}

    what = ("at every step each target's filter update receives exactly the observations the importer database stores for that epoch and that target (in order, with the sensor's measurement); "
            "observations of other epochs or targets never")
    fullest = None
    for n, r in enumerate(res, start=1):
        if r.exc is not None:
            rep.error(f"exception#{n}", repr(r.exc))
            continue
        if len(rep.violations) < 3:
            rep.prove(f"routing#{n}", z3.BoolVal(not _routing_problems(cfg, r.out)), r.constraints, inputs=inputs, replay=replay_routing, sample=what)
        size = sum(len(v) for v in r.out["stored"].values())
        if fullest is None or size > fullest[0]:
            fullest = (size, r)
    if fullest is None or fullest[0] < cfg["steps"] * cfg["rows"]:
        if not rep.violations:
            rep.error("reach", "the configuration with every stored observation present was not reached")
    else:
        rep.reachable("class[all observations present]", fullest[1].constraints)


REPLAYS = {"O1": replay_import, "O3": replay_observations, "O5": replay_mixed, "O7": replay_routing}


def _epoch_obs(tier):
    out = []
    for kind, dt, kmax in EPOCH_CFG[tier]:
        for day in EPOCH_DAYS[tier]:
            name = f"O6[{kind},{day},dt={dt}]"
            out.append(Ob(name, (lambda rep, a=(kind, day, dt, kmax): o6_epoch(rep, *a)),
                          f"{'loadImportedObservations' if kind == 'obs' else 'importEphemerides'}: the record of an epoch is delivered at exactly that epoch (real query evaluated on bit-exact Julian dates; "
                          f"start {day}, any second of the day, dt={dt} s, steps 1..{kmax})", 900))
            REPLAYS[name] = replay_epoch
    return out


for _tier in ("quick", "thorough"):
    _epoch_obs(_tier)


def obligations(tier):
    return [
        Ob("O1", o1_import, "importEphemerides: every registered agent gets its own row; MissingEphemerisError iff a registered agent has no row", 900),
        Ob("O3", o3_observations, "loadImportedObservations returns each distinct stored observation once with measurement metadata", 600),
        Ob("O4", o4_readonly, "ImporterDatabase public write methods raise", 60),
        Ob("O5", lambda rep: o5_mixed(rep, tier), "Scenario.stepForward with every mix of realtime / imported targets and sensors: imported agents hold their record, realtime agents their propagation, "
                                                  "MissingEphemerisError at the first gap", 900),
        Ob("O7", lambda rep: o7_routing(rep, tier), "stepForward + CentralizedTaskingEngine.assess (imported observations only): every stored observation of the epoch reaches the filter update of its target", 600),
        *_epoch_obs(tier),
    ]
