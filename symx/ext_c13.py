"""Engine helpers for C13 (force model): scalar cuts for norms / dot products of named vectors.

`ScalarCut` replaces `norm` / `vdot` / `dot` in an analysed module.  The norm of every *named* vector u
and of every difference u - w of two named vectors becomes one positive cut variable; every dot product
of (scaled) integer combinations of named vectors is expressed through those variables by polarisation,
u.w = (|u|^2 + |w|^2 - |u-w|^2)/2, i.e. the law of cosines is built into the representation instead of
being a hypothesis.  Each replacement is justified on the spot by a solver query (a pure ring / field
identity over the coordinates): the argument handed in by the real code is *proved* equal to
f * sum(alpha_i u_i) before anything is substituted; arguments that cannot be matched fall through to the
real numpy/scipy function (sqrt contract).  After the cut the acceleration formulas are rational functions
of free variables (coordinates, norms) and z3 decides their identity without equational hypotheses.

The cut forgets how the norms depend on the coordinates (sound for proving: more models).  `links()` gives
those definitions back; they are added when a counterexample is searched so that the model is consistent
and can be replayed on the real code.
"""
from __future__ import annotations

import itertools
import random
from fractions import Fraction

import numpy as np
import z3

from .core import STATS, SReal, _real_term, cur, refute, rv


def _num_eval(t, pairs):
    v = z3.simplify(z3.substitute(t, *pairs))
    if z3.is_rational_value(v):
        return Fraction(v.numerator_as_long(), v.denominator_as_long())
    if z3.is_int_value(v):
        return Fraction(v.as_long())
    return None


def _solve_rational(A, b):
    """Exact solution x of the square/over-determined system A x = b over Fractions, or None."""
    n = len(A[0])
    M = [list(row) + [bb] for row, bb in zip(A, b)]
    piv = []
    r = 0
    for c in range(n):
        p = next((i for i in range(r, len(M)) if M[i][c] != 0), None)
        if p is None:
            return None
        M[r], M[p] = M[p], M[r]
        pv = M[r][c]
        M[r] = [x / pv for x in M[r]]
        for i in range(len(M)):
            if i != r and M[i][c] != 0:
                f = M[i][c]
                M[i] = [x - f * y for x, y in zip(M[i], M[r])]
        piv.append(c)
        r += 1
    for i in range(r, len(M)):
        if M[i][n] != 0:
            return None
    return [M[i][n] for i in range(n)]


class ScalarCut:
    def __init__(self, vectors: dict, real_norm, real_dot, prefix="n", seed=7, polarise=None):
        self.names = list(vectors)
        self.vecs = [np.asarray(vectors[k], dtype=object) for k in self.names]
        self.dim = len(self.vecs[0])
        self.real_norm, self.real_dot = real_norm, real_dot
        self.prefix = prefix
        self.N = {}  # frozenset of names (1 or 2) -> z3 var
        self.G = {}  # frozenset of two names -> z3 var: free dot-product variables of the pairs that are not polarised
        # polarise(name_a, name_b) -> bool: express u.w through |u-w| (needed where the code also takes the norm of the difference);
        # other pairs get one free dot-product variable constrained by Cauchy-Schwarz (smaller terms)
        self.polarise = polarise or (lambda a, b: True)
        self.lemmas = 0
        self.matched, self.unmatched = [], []
        self._rng = random.Random(seed)
        self._coord = []
        for v in self.vecs:
            for x in v:
                self._coord.append(_real_term(x))
        for i in range(len(self.names)):
            self.nvar(i)

    # ---- cut variables -------------------------------------------------------
    def nvar(self, i, j=None):
        key = frozenset((i,) if j is None or j == i else (i, j))
        if key not in self.N:
            nm = "_".join(self.names[k] for k in sorted(key))
            self.N[key] = z3.Real(f"{self.prefix}_{nm}" if len(key) == 1 else f"{self.prefix}d_{nm}")
        return self.N[key]

    def norm_of(self, name, other=None):
        i = self.names.index(name)
        return SReal(self.nvar(i, None if other is None else self.names.index(other)))

    def P(self, i, j):
        """u_i . u_j over the cut variables (polarisation)."""
        if i == j:
            n = self.nvar(i)
            return n * n
        key = frozenset((i, j))
        if not self.polarise(self.names[i], self.names[j]) and key not in self.N:
            if key not in self.G:
                self.G[key] = z3.Real(f"{self.prefix}g_" + "_".join(self.names[k] for k in sorted(key)))
            return self.G[key]
        ni, nj, nij = self.nvar(i), self.nvar(j), self.nvar(i, j)
        return (ni * ni + nj * nj - nij * nij) / 2

    def dot_named(self, a, b):
        return SReal(self.P(self.names.index(a), self.names.index(b)))

    def poly_dot(self, i, j):
        return sum((x * y for x, y in zip(self.vecs[i], self.vecs[j])), SReal(0)).t

    def facts(self):
        """What every real configuration satisfies: positive norms and the triangle inequalities."""
        cs = []
        for key, v in self.N.items():
            cs.append(v > 0 if len(key) == 1 else v >= 0)
        for key, v in self.N.items():
            if len(key) == 2:
                i, j = sorted(key)
                ni, nj = self.nvar(i), self.nvar(j)
                cs += [v <= ni + nj, ni <= v + nj, nj <= v + ni]
        for key, gv in self.G.items():  # Cauchy-Schwarz
            i, j = sorted(key)
            pr = self.nvar(i) * self.nvar(j)
            cs += [gv <= pr, -pr <= gv]
        # every coordinate (difference) is bounded by the corresponding norm: keeps counterexample candidates realistic
        for key, v in self.N.items():
            if len(key) == 1:
                (i,) = key
                for x in self.vecs[i]:
                    cs += [_real_term(x) <= v, -v <= _real_term(x)]
            else:
                i, j = sorted(key)
                for x, y in zip(self.vecs[i], self.vecs[j]):
                    d = _real_term(x) - _real_term(y)
                    cs += [d <= v, -v <= d]
        return cs

    def links(self):
        """Definitions of the cut variables over the coordinates (used for consistent counterexamples)."""
        cs = []
        for key, v in self.N.items():
            if len(key) == 1:
                (i,) = key
                cs.append(v * v == self.poly_dot(i, i))
            else:
                i, j = sorted(key)
                d = self.vecs[i] - self.vecs[j]
                cs.append(v * v == sum((x * x for x in d), SReal(0)).t)
        for key, gv in self.G.items():
            i, j = sorted(key)
            cs.append(gv == self.poly_dot(i, j))
        return cs

    # ---- matching --------------------------------------------------------------
    def _point(self):
        pairs = [(c, rv(Fraction(self._rng.randint(1, 97), self._rng.randint(1, 13)))) for c in self._coord]
        for v in list(self.N.values()) + list(self.G.values()):
            pairs.append((v, rv(Fraction(self._rng.randint(1, 97), self._rng.randint(1, 13)))))
        return pairs

    def _structural(self, at):
        """Guess (alpha, f) from the shape of the terms: components linear in the named coordinates, possibly all divided by
        the same cut variable.  Only a guess - the caller lets the solver prove it."""
        from .poly import Expander, NotPolynomial

        f = None
        nums = at
        if all(z3.is_app(t) and t.decl().kind() == z3.Z3_OP_DIV for t in at):
            dens = {t.children()[1].get_id() for t in at}
            cutids = {v.get_id(): v for v in self.N.values()}
            if len(dens) == 1 and next(iter(dens)) in cutids:
                f = cutids[next(iter(dens))]
                nums = [t.children()[0] for t in at]
        ex = Expander()
        n = len(self.names)
        alpha = [None] * n
        owner = {}
        for i, v in enumerate(self.vecs):
            for k, x in enumerate(v):
                owner[str(_real_term(x))] = (i, k)
        try:
            for k, t in enumerate(nums):
                for mono, c in ex.poly(t).items():
                    if len(mono) != 1 or mono[0][1] != 1 or mono[0][0] not in owner:
                        return None
                    i, kk = owner[mono[0][0]]
                    if kk != k:
                        return None
                    if alpha[i] is None:
                        alpha[i] = [Fraction(0)] * self.dim
                    alpha[i][k] = c
        except NotPolynomial:
            return None
        x = []
        for i in range(n):
            if alpha[i] is None:
                x.append(Fraction(0))
            elif len(set(alpha[i])) == 1:
                x.append(alpha[i][0])
            else:
                return None
        return x, f

    def _prove_decomposition(self, at, x, f):
        n = len(self.names)
        for k in range(self.dim):
            L = z3.Sum([rv(x[i]) * _real_term(self.vecs[i][k]) for i in range(n)]) if n else rv(0)
            goal = (at[k] == L) if f is None else (at[k] * f == L)
            hyp = [] if f is None else [f > 0]
            self.lemmas += 1
            if refute(goal, hyp, 5000).status != "unsat":
                return False
        return True

    def decompose(self, a):
        """a == f * sum(alpha_i u_i) with f in {1, 1/N}: returns (alpha list of Fractions, f as z3 term) after the
        solver has proved it component-wise; None when no such form is found."""
        a = np.asarray(a, dtype=object)
        if a.shape != (self.dim,):
            return None
        at = [_real_term(x) for x in a]
        if any(t is None for t in at):
            return None
        guess = self._structural(at)
        if guess is not None and self._prove_decomposition(at, *guess):
            return guess
        n = len(self.names)
        pts = [self._point() for _ in range(max(2, (n + self.dim - 1) // self.dim + 1))]
        scalings = [None] + list(self.N.values())
        for f in scalings:
            A, b = [], []
            ok = True
            for pt in pts:
                fv = Fraction(1) if f is None else _num_eval(f, pt)
                for k in range(self.dim):
                    av = _num_eval(at[k], pt)
                    if av is None:
                        ok = False
                        break
                    b.append(av * fv)
                    A.append([_num_eval(_real_term(self.vecs[i][k]), pt) for i in range(n)])
                if not ok:
                    break
            if not ok:
                return None
            x = _solve_rational(A, b)
            if x is None or any(abs(c.denominator) > 8 or abs(c.numerator) > 64 for c in x):
                continue
            if self._prove_decomposition(at, x, f):
                return x, (None if f is None else f)
        return None

    def _quad(self, al, be):
        n = len(self.names)
        t = rv(0)
        for i in range(n):
            for j in range(n):
                c = al[i] * be[j]
                if c != 0:
                    t = t + rv(c) * self.P(i, j)
        return t

    def norm(self, a, *args, **kw):
        d = None if (args or kw) else self.decompose(a)
        if d is None:
            self.unmatched.append("norm")
            return self.real_norm(a, *args, **kw)
        al, f = d
        nz = [(i, c) for i, c in enumerate(al) if c != 0]
        if len(nz) == 1 and abs(nz[0][1]) == 1:
            base = self.nvar(nz[0][0])
        elif len(nz) == 2 and {nz[0][1], nz[1][1]} == {Fraction(1), Fraction(-1)}:
            base = self.nvar(nz[0][0], nz[1][0])
        else:
            self.unmatched.append("norm(general combination)")
            return self.real_norm(a, *args, **kw)
        self.matched.append("norm")
        return SReal(base if f is None else base / f)

    def dot(self, a, b, *args, **kw):
        da = None if (args or kw) else self.decompose(a)
        db = None if da is None else self.decompose(b)
        if da is None or db is None:
            self.unmatched.append("dot")
            return self.real_dot(a, b, *args, **kw)
        (al, fa), (be, fb) = da, db
        t = self._quad(al, be)
        if fa is not None:
            t = t / fa
        if fb is not None:
            t = t / fb
        self.matched.append("dot")
        return SReal(t)


def realise(cut: ScalarCut, model, getval, tree):
    """Concrete vectors for the named vectors of `cut` from a model of the cut variables.

    tree: list of (name, parent or None) in construction order; a vector with a parent gets the modelled
    dot product with it, its remaining direction is generic.  Returns {name: ndarray}."""
    import math

    out = {}
    gen = [np.array([0.36, 0.48, 0.8]), np.array([0.6, -0.64, 0.48]), np.array([-0.8, 0.36, 0.48]), np.array([0.48, 0.6, -0.64]),
           np.array([0.28, -0.96, 0.0]), np.array([0.0, 0.6, 0.8])]
    for k, (name, parent) in enumerate(tree):
        i = cut.names.index(name)
        n = float(getval(model, cut.nvar(i)))
        g = gen[k % len(gen)]
        if parent is None:
            out[name] = n * g / np.linalg.norm(g)
            continue
        j = cut.names.index(parent)
        u = out[parent]
        nu = np.linalg.norm(u)
        if frozenset((i, j)) in cut.G:
            dot = float(getval(model, cut.G[frozenset((i, j))]))
        else:
            nij = float(getval(model, cut.nvar(i, j)))
            dot = (n * n + nu * nu - nij * nij) / 2
        c = max(-1.0, min(1.0, dot / (n * nu)))
        perp = np.cross(u, g)
        if np.linalg.norm(perp) < 1e-9 * nu:
            perp = np.cross(u, gen[(k + 1) % len(gen)])
        perp = perp / np.linalg.norm(perp)
        out[name] = n * (c * u / nu + math.sqrt(max(0.0, 1 - c * c)) * perp)
    return out


# --------------------------------------------------------------------------------------------------
# polynomial identities modulo a few rewrite-like relations, decided by the solver in linear arithmetic
# --------------------------------------------------------------------------------------------------
def prove_by_reduction(goals, rules, split=(), timeout_ms=60000, max_products=400000):
    """Decide polynomial identities modulo polynomial relations by reduction-guided linearisation.

    goals: z3 equalities over Real terms (polynomial after expansion).
    rules: list of (lead, relation): `relation` a z3 equality h_l == h_r that holds (hypothesis or proved lemma),
           `lead` a z3 term that is one monomial of h_l - h_r.  Every monomial M of the working set divisible by a
           lead contributes the consequence (M/lead) * (h_l - h_r) == 0; this is repeated to closure (the instances a
           normal-form reduction would use, so for a Groebner-basis-like rule set the procedure is complete).
    split: names of variables the goal is linear in (coefficients): the goal is grouped by them and each group is
           proved on its own (sufficient, and keeps the linear systems small).
    Every monomial becomes a solver variable; z3 (QF_LRA) decides `instances and goal != 0`.  unsat => the identity
    holds for all real values satisfying the relations.  Otherwise 'unknown' (never a violation by itself)."""
    import time

    from .core import Verdict
    from .poly import Expander, _mono_div, eq_to_poly, p_mul

    t0 = time.time()
    ex = Expander()
    G = []
    for g in goals:
        G += eq_to_poly(ex, g)
    R = []
    for lead, rel in rules:
        (h,) = eq_to_poly(ex, rel)
        lp = ex.poly(lead)
        if len(lp) != 1:
            raise ValueError("lead must be a monomial")
        (lm, lc), = lp.items()
        if lm not in h:
            raise ValueError(f"lead {lead} is not a monomial of its relation")
        R.append((lm, h))
    split = set(split)
    groups = {}
    for gi, g in enumerate(G):
        for m, k in g.items():
            key = (gi, tuple(v for v, _e in m if v in split))
            groups.setdefault(key, {})[m] = k
    n_prod = n_mono = 0
    worst = "unsat"
    info = ""
    for key, g in groups.items():
        S = set(g)
        queue = list(S)
        products = {}
        while queue:
            M = queue.pop()
            for ri, (lm, h) in enumerate(R):
                q = _mono_div(M, lm)
                if q is None or (ri, q) in products:
                    continue
                pr = p_mul({q: Fraction(1)}, h)
                products[(ri, q)] = pr
                for mm in pr:
                    if mm not in S:
                        S.add(mm)
                        queue.append(mm)
            if len(products) > max_products:
                break
        mv = {}

        def var(m):
            if m == ():
                return z3.RealVal(1)
            if m not in mv:
                mv[m] = z3.Real(f"m!{len(mv)}")
            return mv[m]

        def lin(p):
            return z3.Sum([z3.RealVal(f"{k.numerator}/{k.denominator}") * var(m) for m, k in p.items()]) if p else z3.RealVal(0)

        s = z3.SolverFor("QF_LRA")
        s.set("timeout", int(max(1000, timeout_ms - (time.time() - t0) * 1000)))
        for pr in products.values():
            s.add(lin(pr) == 0)
        s.add(lin(g) != 0)
        r = str(s.check())
        STATS.queries += 1
        n_prod += len(products)
        n_mono += len(mv)
        if r != "unsat":
            worst = "unknown"
            info = f"group {key}: {r}; "
            break
    dt = time.time() - t0
    STATS.solver_s += dt
    msg = f"{info}reduction-linearised: {len(G)} goal polys in {len(groups)} groups, {len(R)} relations, {n_prod} instances, {n_mono} monomials"
    if worst != "unsat":
        STATS.unknown += 1
    return Verdict(worst, None, dt, msg)
