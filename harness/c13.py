"""C13 - the high-fidelity force model equals an independent reference at every state / epoch.

Real code executed symbolically: SpecialPerturbations.__init__/_differentialEquation (with the real
_getRotationMatrix, _getThirdBodyAcceleration, _getSolarRadiationPressureAcceleration,
_getGeneralRelativityAcceleration, thirdBodyFactory, checkEarthCollision, rot3), nonSphericalAcceleration /
getNonSphericalHarmonics (Cunningham recursion), _getGeopotentialCoefficientScale, loadGeopotentialCoefficients,
the five third-body getPosition() compositions, _scaleChebyshevInputs / getSegmentPosition (Chebyshev evaluation),
TwoBody._differentialEquation, calcSatRatio.
"""
from __future__ import annotations

import itertools
import math
from fractions import Fraction
from math import comb, factorial

import numpy as np
import z3

from symx.core import (SInt, SReal, _real_term, assume, eq_arrays, explore, integer, mfloat, mval, real, reals, refute, rv, single_path,
                       solve, terms)
from symx.ext_c13 import ScalarCut, prove_by_reduction, realise
from symx.runner import Ob
from symx.stubs import shadow, shadow_attr, sym_array, sym_zeros

ID = "C13"
TECHNIQUE = ("symbolic execution of the real force-model code on z3 Real proxies (numpy object arrays). Cowell glue: the real "
             "SpecialPerturbations.__init__/_differentialEquation (incl. its third-body, SRP, relativity helpers and _getRotationMatrix) run on a "
             "symbolic batch of states, symbolic epoch, symbolic body positions / Earth-orientation matrices, for every configuration; norms and "
             "dot products are cut to scalar variables (each cut proved by a ring identity, law of cosines built into the representation) so "
             "that every acceleration component is a rational function of free variables and z3 (nlsat) proves it equal to the independent "
             "reference -mu r/|r|^3 + E grad U(E^T r) + sum mu_b[(s-r)/|s-r|^3 - s/|s|^3] + SRP + GR + thrust. Harmonics: the real Cunningham "
             "recursion on a fully symbolic position, mu, R and all C_nm/S_nm is proved equal to the analytic gradient of the closed-form "
             "(Legendre) solid-harmonic potential, as polynomial identities modulo |r|^2 = x^2+y^2+z^2 decided by z3 (QF_LRA) after "
             "reduction-guided linearisation. Counterexamples are replayed on the unmodified float code against an independent numeric reference.")
FLOAT_SEMANTICS = "Real-ideal (rounding outside the claim); counterexamples are asked with a relative margin so that they replay in doubles"
ENCODED = [
    "resonaate.dynamics.special_perturbations:SpecialPerturbations.__init__",
    "resonaate.dynamics.special_perturbations:SpecialPerturbations._differentialEquation",
    "resonaate.dynamics.special_perturbations:SpecialPerturbations._getSolarRadiationPressureAcceleration",
    "resonaate.dynamics.special_perturbations:_getRotationMatrix",
    "resonaate.dynamics.special_perturbations:_getThirdBodyAcceleration",
    "resonaate.dynamics.special_perturbations:_getGeneralRelativityAcceleration",
    "resonaate.dynamics.special_perturbations:calcSatRatio",
    "resonaate.dynamics.special_perturbations:thirdBodyFactory",
    "resonaate.dynamics.celestial:checkEarthCollision",
    "resonaate.dynamics.two_body:TwoBody._differentialEquation",
    "resonaate.physics.maths:rot3",
    "resonaate.physics.bodies.gravitational_potential:nonSphericalAcceleration",
    "resonaate.physics.bodies.gravitational_potential:getNonSphericalHarmonics",
    "resonaate.physics.bodies.gravitational_potential:_getGeopotentialCoefficientScale",
    "resonaate.physics.bodies.gravitational_potential:loadGeopotentialCoefficients.__wrapped__",
    "resonaate.physics.bodies.third_body:Sun.getPosition",
    "resonaate.physics.bodies.third_body:Moon.getPosition",
    "resonaate.physics.bodies.third_body:Jupiter.getPosition",
    "resonaate.physics.bodies.third_body:Saturn.getPosition",
    "resonaate.physics.bodies.third_body:Venus.getPosition",
    "resonaate.physics.bodies.third_body:_scaleChebyshevInputs",
    "resonaate.physics.bodies.third_body:getSegmentPosition",
]
BOUNDS = {
    "states": "every position with |r| from 200 km altitude to 10 Earth radii, every velocity with 0 < |v| <= 12 km/s; batch of K = 1, 2 states (quick), also 3 (thorough)",
    "epoch": "symbolic initial Julian date and integration time (any real values); replays use epochs inside the EOP table (2014-12 .. 2021-10)",
    "configurations": "third-body sets: quick = all subsets of {Sun, Moon}, each of Jupiter/Saturn/Venus alone, all five; thorough = all 32 subsets; "
                      "SRP / GR / finite thrust: quick = {none, each alone, all}, thorough = all 8 combinations; geopotential config degree 4 / order 3 / EGM-96 (pass-through checked)",
    "body positions, Earth-orientation matrices, sidereal angle, Sun fraction, sat ratio": "symbolic (any real value; bodies farther than the satellite)",
    "harmonics": "fully symbolic position (non-zero), mu, R > 0, all C_nm, S_nm; (degree, order): quick (8,8),(5,2),(3,0),(2,1),(1,1),(0,0); thorough adds (12,12),(12,7),(16,9),(20,0),(20,20)",
    "scale": "every degree 80 >= n >= order m >= 0 (symbolic integers; 80 = configuration limit; factorial uninterpreted)",
    "Chebyshev": "symbolic epoch inside the first 3 sub-intervals of a segment, symbolic coefficient arrays (3 x 3 x 5), real segment start/interval of each distinct interval length",
}
OUTSIDE = [
    "numerical values of the geopotential coefficient files, of the DE432s Chebyshev tables, of EOP/nutation data",
    "agreement of Sun/Moon positions with analytic low-precision ephemerides and their continuity across Chebyshev sub-interval boundaries (properties of the tabulated data; transcendental reference)",
    "calculateSunVizFraction itself (provider here; branch structure is in C14-O5), ReductionParams.build / sidereal time (providers here; C04), finite-thrust callback (C15)",
    "floating-point rounding, incl. the split of the absolute epoch into init_jd + t/86400 (C03) and the one-second truncation inside julianDateToDatetime (C05)",
    "degree/order above 20; order > degree (documented precondition of nonSphericalAcceleration)",
    "v = 0 exactly: _getGeneralRelativityAcceleration divides by |v| (returns NaN); stated as bound |v| > 0",
    "harmonics: when the linear-arithmetic proof fails, counterexamples are searched by nlsat and then at pinned rational positions (partial concretisation); if none is found the obligation is reported undecided",
]
ASSUMPTIONS = [
    "sqrt contract (non-negative root) for norms that are not cut; angle algebra for cos/sin of the sidereal angle in rot3",
    "norm / vdot in special_perturbations and two_body are replaced by ScalarCut (symx/ext_c13.py): |u| and |u-w| of the named vectors become positive cut variables, dot products are "
    "expressed through them by polarisation; every replacement is proved equal to the code's own argument by a solver query; the cut forgets the coordinates (sound for proving)",
    "providers (stubs) in the glue obligations: JulianDate, julianDateToDatetime, ReductionParams.build (symbolic rot_pn, rot_w, dut1, eq_equinox), dayOfYear and greenwichApparentTime "
    "(uninterpreted functions), <Body>.getPosition (symbolic vectors), nonSphericalAcceleration (symbolic vector; its arguments are checked), calculateSunVizFraction (symbolic value; "
    "arguments checked), loadGeopotentialCoefficients (tokens), empty_like (object array), finite_thrust (symbolic 6-vector)",
    "harmonics: norm() returns a cut variable N after the solver proved its argument's squared length equals x^2+y^2+z^2, N^2 = x^2+y^2+z^2, N > 0; zeros/array -> object arrays; "
    "division by N and R^2 through reciprocal variables (i N = 1); the lemma i^2 (x^2+y^2+z^2) = 1 is proved by the solver and then used as a rewrite relation",
    "scale: math.factorial -> uninterpreted function; numpy sqrt -> sqrt contract",
    "Chebyshev: numpy array(.., dtype=int) -> truncation toward zero; THIRD_BODY_EPHEMS -> symbolic coefficient arrays with the real (start, interval) of a segment; numpy chebval runs unmodified",
    "reference constants: documented values (Vallado App. D, DE430 Table 8, Montenbruck 3.4) with the stated relative tolerances",
    "cut facts used besides positivity: triangle inequalities between |u|, |w|, |u-w| and |coordinate| <= norm (true of every real configuration)",
    "counterexample search only: when an exact identity is refuted the model is re-derived with a relative margin (1e-11 of the two-body acceleration in the glue, term-specific elsewhere) "
    "and with visibility restrictions (sat ratio >= 0.01 for SRP, |v| >= 1 km/s for GR, bounded coefficients) so that it replays in doubles; restricting the search is sound, proofs never use these",
    "replays: the real float code at the counterexample's state/epoch/configuration against an independent numeric reference that uses the real providers "
    "(ephemerides, reductions, visible fraction, coefficient file); for SRP configurations also at the sunlit and umbra variants of the state; the replay thrust callback is state dependent",
]
LEVEL_TEXT = ("Bounded symbolic verification: for every configuration in the bounds, every state of the batch, every epoch and every value of the provider outputs, z3 proves "
              "(unsat) that each component of the derivative returned by the real _differentialEquation equals the independent reference, that the geopotential is evaluated at "
              "E^T r with E = PN R3(-GAST) W and rotated back, that every provider sees the epoch init_jd + t/86400, and - with a fully symbolic position and coefficient set up to "
              "degree/order 20 - that the Cunningham recursion equals the gradient of the closed-form spherical-harmonic potential. A sign, index, frame or switch slip is a "
              "satisfiable query whose model is replayed on the float code.")
LEVEL_NOTE = ("Real arithmetic; norms/dot products cut to scalars (each cut proved); data tables, ephemeris accuracy/continuity, Sun-fraction and reduction providers outside; "
              "harmonics proved by solver-checked linearisation modulo |r|^2 = x^2+y^2+z^2.")

# ------------------------------------------------------------------------------------------------
# documented constants (reference side)
# ------------------------------------------------------------------------------------------------
DOC_CONSTANTS = {
    # name: (documented value, relative tolerance, source)
    "Earth.mu": (398600.4415, 1e-9, "Vallado App. D (EGM-96), km^3/s^2"),
    "Earth.radius": (6378.1363, 1e-9, "Vallado App. D (EGM-96), km"),
    "Sun.mu": (1.32712440041939400e11, 1e-9, "DE430 Table 8"),
    "Moon.mu": (4902.800066, 1e-9, "DE430 Table 8"),
    "Jupiter.mu": (1.267127641e8, 1e-8, "DE430 Table 8 (system)"),
    "Saturn.mu": (3.79405852e7, 1e-8, "DE430 Table 8 (system)"),
    "Venus.mu": (3.24858592e5, 1e-8, "DE430 Table 8"),
    "SPEED_OF_LIGHT": (2.99792458e8, 1e-12, "SI, m/s"),
    "SOLAR_PRESSURE": (4.56e-6, 1e-3, "Montenbruck 3.4, N/m^2"),
    "AU2KM": (1.495978707e8, 1e-4, "IAU 2012 (the code carries 6 digits)"),
}
ALL_BODIES = ["sun", "moon", "jupiter", "saturn", "venus"]
T_LO, T_HI = 0.0, 30 * 86400.0
JD_LO, JD_HI = 2457000.5, 2459400.5
REL_MARGIN = 1e-11  # counterexamples must violate by more than this fraction of the two-body acceleration
REL_REPLAY = 1e-12
EPOCH_MARGIN = 1e-2  # days


def _tag(r):
    return "".join("T" if d else "F" for d in r.path.decisions)


def _consts():
    from resonaate.physics import constants as const
    from resonaate.physics.bodies import Earth, Jupiter, Moon, Saturn, Sun, Venus

    return {"Earth.mu": Earth.mu, "Earth.radius": Earth.radius, "Sun.mu": Sun.mu, "Moon.mu": Moon.mu, "Jupiter.mu": Jupiter.mu, "Saturn.mu": Saturn.mu,
            "Venus.mu": Venus.mu, "SPEED_OF_LIGHT": const.SPEED_OF_LIGHT, "SOLAR_PRESSURE": const.SOLAR_PRESSURE, "AU2KM": const.AU2KM}


# ------------------------------------------------------------------------------------------------
# independent reference for the geopotential: closed-form Legendre -> solid harmonics -> analytic gradient
# ------------------------------------------------------------------------------------------------
def _pmul(p, q):
    r = {}
    for (a, b, c), k1 in p.items():
        for (d, e, f), k2 in q.items():
            m = (a + d, b + e, c + f)
            v = r.get(m, 0) + k1 * k2
            if v == 0:
                r.pop(m, None)
            else:
                r[m] = v
    return r


def _padd(p, q):
    r = dict(p)
    for m, k in q.items():
        v = r.get(m, 0) + k
        if v == 0:
            r.pop(m, None)
        else:
            r[m] = v
    return r


def _pdiff(p, ax):
    r = {}
    for m, k in p.items():
        if m[ax] == 0:
            continue
        mm = list(m)
        mm[ax] -= 1
        r[tuple(mm)] = r.get(tuple(mm), 0) + k * m[ax]
    return r


_R2 = {(2, 0, 0): Fraction(1), (0, 2, 0): Fraction(1), (0, 0, 2): Fraction(1)}
_SOLID = {}


def _solid(n, m):
    """(H^c_nm, H^s_nm) = r^n P_nm(z/r) (cos, sin)(m lambda) as polynomials in x, y, z, with the un-normalised associated
    Legendre function P_nm(u) = (1-u^2)^(m/2) d^m P_n / du^m (no Condon-Shortley phase) and P_n from its explicit sum."""
    if (n, m) in _SOLID:
        return _SOLID[(n, m)]
    re, im = {}, {}
    for j in range(m + 1):  # (x + i y)^m
        c = comb(m, j)
        if j % 2 == 0:
            re[(m - j, j, 0)] = Fraction(c * (1 if j % 4 == 0 else -1))
        else:
            im[(m - j, j, 0)] = Fraction(c * (1 if j % 4 == 1 else -1))
    zpart = {}
    for k in range(n // 2 + 1):
        e = n - 2 * k
        if e < m:
            continue
        coef = Fraction((-1) ** k * comb(n, k) * comb(2 * n - 2 * k, n), 2 ** n) * Fraction(factorial(e), factorial(e - m))
        term = {(0, 0, e - m): coef}
        for _ in range(k):
            term = _pmul(term, _R2)
        zpart = _padd(zpart, term)
    _SOLID[(n, m)] = (_pmul(zpart, re), _pmul(zpart, im))
    return _SOLID[(n, m)]


def _peval(p, x, y, z):
    px, py, pz = {0: 1}, {0: 1}, {0: 1}

    def pw(tab, b, e):
        if e not in tab:
            tab[e] = pw(tab, b, e - 1) * b
        return tab[e]

    s = 0
    for (a, b, c), k in p.items():
        t = k if not isinstance(x, float) else float(k)
        if a:
            t = t * pw(px, x, a)
        if b:
            t = t * pw(py, y, b)
        if c:
            t = t * pw(pz, z, c)
        s = s + t
    return s


def ref_geopotential_acc(pos, inv_r, mu, R, C, S, degree, order):
    """grad of U = mu sum_{n=2..degree} sum_{m<=min(n,order)} R^n (C_nm H^c_nm + S_nm H^s_nm) / r^(2n+1), using
    d/dx_i [H / r^(2n+1)] = H_i / r^(2n+1) - (2n+1) x_i H / r^(2n+3).  Works on floats and on SReal proxies."""
    x, y, z = pos
    acc = [0, 0, 0]
    ip = {1: inv_r}

    def ipow(e):
        if e not in ip:
            ip[e] = ipow(e - 1) * inv_r
        return ip[e]

    Rn = {0: 1}
    for n in range(1, degree + 1):
        Rn[n] = Rn[n - 1] * R
    for n in range(2, degree + 1):
        i1, i3 = ipow(2 * n + 1), ipow(2 * n + 3)
        for m in range(0, min(n, order) + 1):
            for H, coef in zip(_solid(n, m), (C[n][m], S[n][m])):
                if not H:
                    continue
                Hv = _peval(H, x, y, z)
                for i in range(3):
                    t = _peval(_pdiff(H, i), x, y, z) * i1 - (2 * n + 1) * (pos[i] * Hv) * i3
                    acc[i] = acc[i] + mu * Rn[n] * (coef * t)
    return acc


# ------------------------------------------------------------------------------------------------
# independent numeric reference of the whole derivative (used by replays only)
# ------------------------------------------------------------------------------------------------
def _body_classes():
    from resonaate.physics.bodies import Jupiter, Moon, Saturn, Sun, Venus

    return {"sun": Sun, "moon": Moon, "jupiter": Jupiter, "saturn": Saturn, "venus": Venus}


def ref_derivative(t, jd0, X, bodies, srp, gr, k, thrust, degree, order, model):
    """X: (6, K).  Two-body + E gradU(E^T r) + third bodies (direct formula) + cannonball SRP x visible fraction + GR + thrust."""
    from resonaate.common.labels import GeopotentialModel
    from resonaate.physics import constants as const
    from resonaate.physics.bodies import Earth
    from resonaate.physics.bodies.gravitational_potential import loadGeopotentialCoefficients
    from resonaate.physics.sensor_utils import calculateSunVizFraction
    from resonaate.physics.time.conversions import dayOfYear, greenwichApparentTime
    from resonaate.physics.time.stardate import JulianDate, julianDateToDatetime
    from resonaate.physics.transforms.reductions import ReductionParams

    cls = _body_classes()
    jd = JulianDate(float(jd0) + t / 86400)
    red = ReductionParams.build(julianDateToDatetime(jd))
    y, mo, d, h, mi, s = jd.calendar_date
    th = greenwichApparentTime(y, dayOfYear(y, mo, d, h, mi, s + red.dut1) - 1, red.eq_equinox)
    c_, s_ = math.cos(th), math.sin(th)
    E = red.rot_pn @ np.array([[c_, -s_, 0.0], [s_, c_, 0.0], [0.0, 0.0, 1.0]]) @ red.rot_w
    C, S = loadGeopotentialCoefficients(GeopotentialModel(model))
    out = np.zeros_like(X, dtype=float)
    csq = (const.SPEED_OF_LIGHT / 1000) ** 2
    for j in range(X.shape[1]):
        r, v = X[:3, j], X[3:, j]
        rn = math.sqrt(r @ r)
        a = -Earth.mu * r / rn ** 3
        re = E.T @ r
        a = a + E @ np.array(ref_geopotential_acc([float(q) for q in re], 1.0 / rn, Earth.mu, Earth.radius, C, S, degree, order), dtype=float)
        for b in bodies:
            sp = np.array(cls[b].getPosition(jd), dtype=float)
            dd = sp - r
            a = a + cls[b].mu * (dd / math.sqrt(dd @ dd) ** 3 - sp / math.sqrt(sp @ sp) ** 3)
        if srp:
            sp = np.array(cls["sun"].getPosition(jd), dtype=float)
            dd = sp - r
            a = a - const.SOLAR_PRESSURE * k * const.AU2KM ** 2 * dd / math.sqrt(dd @ dd) ** 3 * calculateSunVizFraction(r, sp) / 1000.0
        if gr:
            a = a + Earth.mu / (csq * rn ** 3) * ((4 * Earth.mu / rn - v @ v) * r + 4 * (r @ v) * v)
        if thrust is not None:
            a = a + _replay_thrust(thrust, np.concatenate((r, v)))[:3]
        out[:3, j] = v
        out[3:, j] = a
    return out


def _replay_thrust(thrust, state):
    """state-dependent thrust used by replays, so that a callback fed with the wrong column / wrong state is visible"""
    return np.array(thrust, dtype=float) + 1e-7 * np.asarray(state, dtype=float)[::-1]


def _real_dynamics(jd0, bodies, srp, gr, k, degree, order, model, thrust):
    from resonaate.dynamics.special_perturbations import SpecialPerturbations
    from resonaate.physics.time.stardate import JulianDate
    from resonaate.scenario.config.geopotential_config import GeopotentialConfig
    from resonaate.scenario.config.perturbations_config import PerturbationsConfig

    dyn = SpecialPerturbations(JulianDate(jd0), GeopotentialConfig(model=model, degree=degree, order=order),
                               PerturbationsConfig(third_bodies=list(bodies), solar_radiation_pressure=srp, general_relativity=gr), k)
    if thrust is not None:
        dyn.finite_thrust = lambda state: _replay_thrust(thrust, state)
    return dyn


def _replay_glue_one(d, X):
    dyn = _real_dynamics(d["jd0"], d["bodies"], d["srp"], d["gr"], d["k"], d["degree"], d["order"], d["model"], d.get("thrust"))
    try:
        got = np.array(dyn._differentialEquation(d["t"], X.ravel().copy()), dtype=float).reshape(X.shape)
    except Exception as e:  # noqa: BLE001  (the documented inputs must not make the force model raise)
        return True, {"real code raised": f"{type(e).__name__}: {e}", "state": X.tolist()}
    exp = ref_derivative(d["t"], d["jd0"], X, d["bodies"], d["srp"], d["gr"], d["k"], d.get("thrust"), d["degree"], d["order"], d["model"])
    from resonaate.physics.bodies import Earth

    worst, where = 0.0, None
    for j in range(X.shape[1]):
        sc = Earth.mu / float(X[:3, j] @ X[:3, j])
        e = np.abs(got[3:, j] - exp[3:, j]).max() / sc
        ev = np.abs(got[:3, j] - exp[:3, j]).max() / max(1e-9, np.abs(X[3:, j]).max())
        if max(e, ev) > worst:
            worst, where = max(e, ev), j
    return worst > REL_REPLAY, {"max_relative_error(vs two-body acceleration)": worst, "column": where, "state": X.tolist(), "got": got.tolist(), "reference": exp.tolist()}


def replay_glue(d):
    """Real _differentialEquation against the independent numeric reference, at the counterexample's state and (for SRP
    configurations, whose visible-fraction provider is real in a replay) at its sunlit / umbra variants."""
    last = None
    # the obligations hold for every elapsed time and SRP coefficient inside the bounds, so the replay also evaluates the
    # counterexample's configuration late in the span and with a full SRP coefficient (a stale epoch is invisible at the tiny t / zero k a model may pick)
    for tt, kk in ((d["t"], d["k"]), (float(T_HI), d["k"]), (float(T_HI), 1.0)):
        dd = dict(d, t=tt, k=kk)
        for X in [d["state"]] + list(d.get("alt_states", [])):
            bad, detail = _replay_glue_one(dd, np.array(X, dtype=float))
            if bad:
                detail["t"] = tt
                return True, detail
            last = detail
    return False, last


# ------------------------------------------------------------------------------------------------
# O1: Cowell glue on the real SpecialPerturbations
# ------------------------------------------------------------------------------------------------
class _Tok:
    def __init__(self, **k):
        self.__dict__.update(k)


DOY = z3.Function("dayOfYear", *([z3.RealSort()] * 7))
GAST = z3.Function("gast", *([z3.RealSort()] * 4))


def _glue_run(K, bodies, srp, gr, thr, degree=4, order=3, model="egm96.txt"):
    """One symbolic execution of the real __init__ + _differentialEquation; returns everything the oracles need."""
    from resonaate.dynamics import special_perturbations as SP
    from resonaate.physics.bodies import Earth
    from resonaate.scenario.config.geopotential_config import GeopotentialConfig
    from resonaate.scenario.config.perturbations_config import PerturbationsConfig

    cls = _body_classes()
    R0 = float(Earth.radius)
    t, jd0, k = real("t"), real("jd0"), real("k")
    X = reals("x", 6, K)
    pos = {b: reals(b, 3) for b in ALL_BODIES}
    vecs = {}
    for j in range(K):
        vecs[f"r{j}"], vecs[f"v{j}"] = X[:3, j], X[3:, j]
    used = list(ALL_BODIES)  # every body position is a named, bounded vector (also those a wrong switch might query)
    for b in used:
        vecs[b] = pos[b]
    cut = ScalarCut(vecs, SP.norm, SP.vdot, polarise=lambda a, b: a in ALL_BODIES or b in ALL_BODIES)
    pre = [t.t >= rv(T_LO), t.t <= rv(T_HI), jd0.t >= rv(JD_LO), jd0.t <= rv(JD_HI), k.t >= 0, k.t <= 1]
    for j in range(K):
        nr, nv = cut.norm_of(f"r{j}").t, cut.norm_of(f"v{j}").t
        pre += [nr >= rv(R0 + 200.0), nr <= rv(10 * R0), nv > 0, nv <= 12]
    far = {"sun": (1.4e8, 1.6e8), "moon": (3.5e5, 4.1e5), "jupiter": (5.8e8, 9.7e8), "saturn": (1.19e9, 1.67e9), "venus": (3.8e7, 2.62e8)}
    for b in used:
        nb = cut.norm_of(b).t
        pre += [nb >= rv(far[b][0]), nb <= rv(far[b][1])]
    assume(*pre)

    log = {"jd": [], "cal": [], "dt": [], "red": [], "pos": [], "g": [], "viz": [], "thrust": [], "coef": []}
    cal = tuple(real(n) for n in ("cal_Y", "cal_M", "cal_D", "cal_h", "cal_m", "cal_s"))
    PN, W = reals("PN", 3, 3), reals("W", 3, 3)
    dut1, eqe = real("dut1"), real("eqe")

    class JD:
        def __init__(self, x):
            self.x = x
            log["jd"].append(x)

        @property
        def calendar_date(self):
            log["cal"].append(self)
            return cal

    def j2d(jd):
        tok = _Tok(jd=jd)
        log["dt"].append(jd)
        return tok

    class RP:
        @staticmethod
        def build(utc_date, eops=None):
            log["red"].append(utc_date)
            # fields the force model has no business with (they belong to the whole-second calendar instant the reduction was built for, not to the
            # evaluation epoch) are free symbols: a result that depends on them cannot equal the reference
            other = {n: reals(f"RP_{n}{len(log['red'])}", 3, 3) for n in ("rot_pnr", "rot_rnp", "rot_wt")}
            return _Tok(rot_pn=PN.copy(), rot_w=W.copy(), dut1=dut1, eq_equinox=eqe, built_from=utc_date, date_time=utc_date, lod=real(f"RP_lod{len(log['red'])}"), **other)

    def doy(year, month, day, hour, minute, second):
        return SReal(DOY(*[_real_term(x) for x in (year, month, day, hour, minute, second)]))

    def gast(year, elapsed_days, eq_equinox):
        return SReal(GAST(*[_real_term(x) for x in (year, elapsed_days, eq_equinox)]))

    def getpos(name):
        def f(jd):
            log["pos"].append((name, jd))
            return pos[name].copy()

        return staticmethod(f)

    def g(ecef_pos, cb_mu, cb_radius, c, s, max_degree, max_order):
        v = reals(f"g{len(log['g'])}", 3)
        log["g"].append(((ecef_pos, cb_mu, cb_radius, c, s, max_degree, max_order), v))
        return v.copy()

    def viz(tgt_eci_position, sun_eci_position):
        v = real(f"nu{len(log['viz'])}")
        log["viz"].append(((tgt_eci_position, sun_eci_position), v))
        return v

    def thrust(state):
        v = reals(f"th{len(log['thrust'])}", 6)
        log["thrust"].append((state, v))
        return v.copy()

    def loadcoef(m):
        tok = (_Tok(kind="C", model=m), _Tok(kind="S", model=m))
        log["coef"].append(tok)
        return tok

    patches = [shadow_attr(cls[b], getPosition=getpos(b)) for b in ALL_BODIES]
    with shadow(SP, empty_like=lambda s, dtype=None: np.empty(s.shape, dtype=object), JulianDate=JD, julianDateToDatetime=j2d, ReductionParams=RP,
                dayOfYear=doy, greenwichApparentTime=gast, nonSphericalAcceleration=g, calculateSunVizFraction=viz, loadGeopotentialCoefficients=loadcoef,
                norm=cut.norm, vdot=cut.dot):
        for pch in patches:
            pch.__enter__()
        try:
            dyn = SP.SpecialPerturbations(jd0, GeopotentialConfig(model=model, degree=degree, order=order),
                                          PerturbationsConfig(third_bodies=list(bodies), solar_radiation_pressure=srp, general_relativity=gr), k)
            if thr:
                dyn.finite_thrust = thrust
            out = dyn._differentialEquation(t, X.ravel())
        finally:
            for pch in reversed(patches):
                pch.__exit__(None, None, None)
    return _Tok(out=out, X=X, t=t, jd0=jd0, k=k, cut=cut, log=log, pos=pos, PN=PN, W=W, dut1=dut1, eqe=eqe, cal=cal, pre=pre, K=K,
                cfg=dict(bodies=list(bodies), srp=srp, gr=gr, thr=thr, degree=degree, order=order, model=model))


def _glue_reference(run, j):
    """Reference acceleration of column j as proxies over the same providers' outputs (independent formulas)."""
    from resonaate.physics import constants as const
    from resonaate.physics.bodies import Earth

    cls = _body_classes()
    cut, X, cfg = run.cut, run.X, run.cfg
    r, v = X[:3, j], X[3:, j]
    rho = cut.norm_of(f"r{j}")
    # E = [P][N] R3(-GAST) [W]  (Vallado 3-57), GAST at UT1 = UTC + dut1
    Y, Mo, D, h, mi, s = run.cal
    days = SReal(DOY(*[_real_term(q) for q in (Y, Mo, D, h, mi, s + run.dut1)]))
    theta = SReal(GAST(Y.t, (days - 1).t, run.eqe.t))
    c, sn = theta.cos(), theta.sin()
    R3 = np.array([[c, -sn, SReal(0)], [sn, c, SReal(0)], [SReal(0), SReal(0), SReal(1)]], dtype=object)
    E = run.PN.dot(R3).dot(run.W)
    gvec = run.log["g"][j][1]
    ref = -Earth.mu * r / (rho * rho * rho) + E.dot(gvec)
    for b in cfg["bodies"]:
        sp = run.pos[b]
        dn, sb = cut.norm_of(b, f"r{j}"), cut.norm_of(b)
        ref = ref + cls[b].mu * ((sp - r) / (dn * dn * dn) - sp / (sb * sb * sb))
    if cfg["srp"]:
        sp = run.pos["sun"]
        dn = cut.norm_of("sun", f"r{j}")
        nu = run.log["viz"][j][1]
        ref = ref - const.SOLAR_PRESSURE * run.k * const.AU2KM ** 2 * (sp - r) / (dn * dn * dn) * nu / 1000
    if cfg["gr"]:
        csq = (const.SPEED_OF_LIGHT / 1000) ** 2
        vv, rdv = cut.dot_named(f"v{j}", f"v{j}"), cut.dot_named(f"r{j}", f"v{j}")
        ref = ref + Earth.mu / (csq * rho * rho * rho) * ((4 * Earth.mu / rho - vv) * r + 4 * rdv * v)
    if cfg["thr"]:
        ref = ref + run.log["thrust"][j][1][:3]
    return ref, E


def _glue_inputs(run):
    cut, K, cfg = run.cut, run.K, run.cfg

    def inputs(m):
        tree = []
        for j in range(K):
            tree.append((f"r{j}", None))
            key = frozenset((cut.names.index(f"r{j}"), cut.names.index(f"v{j}")))
            has = key in cut.N or key in cut.G
            tree.append((f"v{j}", f"r{j}" if has else None))
        vec = realise(cut, m, mval, tree)
        X = np.zeros((6, K))
        for j in range(K):
            X[:3, j], X[3:, j] = vec[f"r{j}"], vec[f"v{j}"]
        t, jd0 = mfloat(m, run.t.t), mfloat(m, run.jd0.t)
        if t == int(t):
            t += 0.37  # a generic elapsed time: the model leaves t free, and integration stages do not fall on whole seconds
        alts = []
        if cfg["srp"]:  # the visible fraction is a real function in a replay: offer a sunlit and an umbra (anti-Sun axis) variant of the state
            from resonaate.physics.bodies import Sun
            from resonaate.physics.time.stardate import JulianDate

            sun = np.array(Sun.getPosition(JulianDate(jd0 + t / 86400)), dtype=float)
            lit, dark = X.copy(), X.copy()
            for j in range(K):
                if lit[:3, j] @ sun < 0:
                    lit[:, j] = -lit[:, j]
                dark[:3, j] = -sun / np.linalg.norm(sun) * min(np.linalg.norm(X[:3, j]), 3 * 6378.0)
            X, alts = lit, [dark]
        d = {"t": t, "jd0": jd0, "state": X, "alt_states": alts, "k": mfloat(m, run.k.t), **{q: cfg[q] for q in ("bodies", "srp", "gr", "degree", "order", "model")}}
        if cfg["thr"]:
            d["thrust"] = [mfloat(m, q.t) for q in run.log["thrust"][0][1]]
        return d

    return inputs


def _decide(rep, label, got, ref, cons, scale, inputs, replay, sample, timeout_ms=60000, pinvars=(), visible=(), margin=None):
    """Exact identity first; if it is not proved, ask for a counterexample that violates it by more than the margin
    (if the model refuting the exact identity already does, its scalar part is pinned so that the second query is cheap)."""
    g = got == ref
    v = refute(g, cons, timeout_ms)
    if v.status == "unsat":
        rep._item(label, "prove", v)
        rep.sample({"obligation": f"{rep.ob}:{label}", "verdict": "unsat", "what": sample})
        return True
    margin = REL_MARGIN if margin is None else margin
    tol = rv(margin) * scale
    pins = list(visible)  # extra constraints on the counterexample search that keep the effect observable in a replay (sound)
    if v.status == "sat":
        try:
            if z3.is_true(v.model.eval(z3.And(z3.Or(got - ref > tol, ref - got > tol), *visible), model_completion=True)):
                for x in pinvars:
                    val = v.model.eval(x, model_completion=True)
                    if z3.is_rational_value(val):
                        pins.append(x == val)
        except z3.Z3Exception:
            pins = []
    return rep.prove(label, z3.And(got - ref <= tol, ref - got <= tol), cons + pins, timeout_ms=timeout_ms, inputs=inputs, replay=replay,
                     sample=sample + f" (within {margin:g} of the natural scale)")


def _decide_bool(rep, label, goal, cons, visible, inputs, replay, sample, timeout_ms=60000):
    """Prove `goal`; when it is refuted, search the counterexample again under `visible` (extra constraints that make the effect
    observable in a replay; restricting the search for a counterexample is always sound)."""
    v = refute(goal, cons, timeout_ms)
    if v.status == "unsat":
        rep._item(label, "prove", v)
        rep.sample({"obligation": f"{rep.ob}:{label}", "verdict": "unsat", "what": sample})
        return True
    return rep.prove(label, goal, cons + list(visible), timeout_ms=timeout_ms, inputs=inputs, replay=replay, sample=sample)


def _glue_config(rep, K, bodies, srp, gr, thr, degree=4, order=3):
    from resonaate.physics.bodies import Earth

    name = f"K{K}[{'+'.join(bodies) or '-'}|{'S' if srp else '-'}{'G' if gr else '-'}{'T' if thr else '-'}]"
    with single_path() as p:
        try:
            run = _glue_run(K, bodies, srp, gr, thr, degree, order)
        except (IndexError, KeyError, ValueError, AttributeError, TypeError, ZeroDivisionError) as e:
            # the analysed code raised on symbolic inputs: a violation iff the real code also raises on concrete ones
            Xc = np.zeros((6, K))
            for j in range(K):
                Xc[:, j] = [7000.0 + 500 * j, 1200.0, -800.0, 0.9, 6.8, 2.5]
            d = {"t": 3600.0, "jd0": 2458000.5, "state": Xc, "k": 0.02, "bodies": list(bodies), "srp": srp, "gr": gr, "degree": degree, "order": order,
                 "model": "egm96.txt", **({"thrust": [1e-6, -2e-6, 3e-6, 0, 0, 0]} if thr else {})}
            rep.prove(f"{name}:raised {type(e).__name__}: {str(e)[:80]}", z3.BoolVal(False), [], inputs=lambda m, d=d: d, replay=replay_glue,
                      sample="the force model does not raise inside the bounds")
            return
        cut, log, X = run.cut, run.log, run.X
        if cut.unmatched:
            rep.note(f"{name}: unmatched norm/dot arguments: {cut.unmatched}")
        cons = p.constraints() + cut.facts()
        inputs = _glue_inputs(run)
        D = np.asarray(run.out, dtype=object)
        if D.shape != (6 * K,):
            rep.error(f"{name}:shape", f"derivative has shape {D.shape}")
            return
        # layout derived from the consumer: propagate() hands in initial_state.ravel() of a (6, K) array and reshapes the solution the same way
        D = D.reshape(6, K)
        epoch = run.jd0.t + run.t.t / 86400
        # ---- epoch seen by every provider ---------------------------------------------------------
        def jdt(o):  # the Julian-date term behind whatever object the code handed to a provider
            for _ in range(3):
                if isinstance(o, (SReal, int, float)):
                    return o
                o = getattr(o, "x", getattr(o, "jd", None))
            raise TypeError("provider received something that is not an epoch")

        seen = [("JulianDate", x) for x in log["jd"]]
        seen += [("julianDateToDatetime", jdt(jd)) for jd in log["dt"]] + [(f"{n}.getPosition", jdt(jd)) for n, jd in log["pos"]] + [("calendar_date", jdt(jd)) for jd in log["cal"]]
        seen += [("ReductionParams.build", jdt(dt)) for dt in log["red"]]
        if not log["jd"] or not log["red"]:
            rep.error(f"{name}:providers", "epoch providers were not called")
            return
        ge = z3.And(*[_real_term(x) == epoch for _n, x in seen])
        ve = refute(ge, cons, 30000)
        if ve.status == "unsat":
            rep._item(f"{name}:epoch", "prove", ve)
            rep.sample({"obligation": f"{rep.ob}:{name}:epoch", "verdict": "unsat", "what": "every provider (ephemerides, reduction, calendar) is evaluated at init_jd + t/86400"})
        else:
            em = rv(EPOCH_MARGIN)
            rep.prove(f"{name}:epoch", z3.And(*[z3.And(_real_term(x) - epoch <= em, epoch - _real_term(x) <= em) for _n, x in seen]), cons, inputs=inputs, replay=replay_glue,
                      sample=f"every provider is evaluated at init_jd + t/86400 (within {EPOCH_MARGIN} d)")
        if rep.status == "violation":
            return
        # ---- geopotential provider: evaluated at E^T r with Earth's constants and the configured field -----------------
        # a provider that was not consulted leaves its (free) output symbol only on the reference side
        called = {q: len(log[q]) for q in ("g", "viz", "thrust")}
        while len(log["g"]) < K:
            log["g"].append((None, reals(f"g{len(log['g'])}", 3)))
        while srp and len(log["viz"]) < K:
            log["viz"].append((None, real(f"nu{len(log['viz'])}")))
        while thr and len(log["thrust"]) < K:
            log["thrust"].append((None, reals(f"th{len(log['thrust'])}", 6)))
        for j in range(K):
            ref, E = _glue_reference(run, j)
            r, v = X[:3, j], X[3:, j]
            rep.prove(f"{name}:velocity[{j}]", eq_arrays(D[:3, j], v), cons, inputs=inputs, replay=replay_glue, sample="d r/dt = v, column-wise")
            if rep.status == "violation":
                return
            rho = cut.norm_of(f"r{j}").t
            scale = rv(float(Earth.mu)) / (rho * rho)
            pinvars = list(cut.N.values()) + list(cut.G.values()) + [run.k.t, run.t.t, run.jd0.t]
            visible = ([run.k.t >= rv(0.01)] if srp else []) + ([cut.norm_of(f"v{j}").t >= 1] if gr else [])
            for i in range(3):
                _decide(rep, f"{name}:acceleration[{j}][{i}]", D[3 + i, j].t, ref[i].t, cons, scale, inputs, replay_glue,
                        "dv/dt = -mu r/|r|^3 + E gradU(E^T r) + sum_b mu_b[(s-r)/|s-r|^3 - s/|s|^3] + [SRP] + [GR] + [thrust]", pinvars=pinvars, visible=visible)
                if rep.status == "violation":
                    return  # fail fast: one replayed counterexample per configuration is enough
            # ---- what the providers were asked (their outputs are free symbols above, so their arguments are checked here) ----
            if j >= called["g"] or (srp and j >= called["viz"]) or (thr and j >= called["thrust"]):
                rep.note(f"{name}: a provider was not consulted for column {j}; its argument checks are skipped")
                continue
            (a0, a_mu, a_R, a_c, a_s, a_deg, a_ord), _gv = log["g"][j]
            mdl = lambda tok: str(getattr(getattr(tok, "model", None), "value", getattr(tok, "model", None)))  # noqa: E731
            cfgok = (getattr(a_c, "kind", None) == "C" and getattr(a_s, "kind", None) == "S" and mdl(a_c) == run.cfg["model"] and mdl(a_s) == run.cfg["model"]
                     and a_deg == degree and a_ord == order and float(a_mu) == float(Earth.mu) and float(a_R) == float(Earth.radius))
            rep.prove(f"{name}:geopotential-config[{j}]", z3.BoolVal(bool(cfgok)), cons, inputs=inputs, replay=replay_glue,
                      sample="geopotential called with Earth.mu, Earth.radius, the configured model's coefficients, degree and order")
            _decide_bool(rep, f"{name}:ecef-argument[{j}]", eq_arrays(a0, E.T.dot(r)), cons, [], inputs, replay_glue,
                         "geopotential evaluated at E^T r, E = PN R3(-GAST(UT1)) W")
            if thr:
                _decide_bool(rep, f"{name}:thrust-argument[{j}]", eq_arrays(log["thrust"][j][0], np.concatenate((r, v))), cons, [], inputs, replay_glue,
                             "thrust callback sees the state of its own column")
            if srp:
                (va, vb), _nu = log["viz"][j]
                _decide_bool(rep, f"{name}:sun-fraction-arguments[{j}]", z3.And(eq_arrays(va, r), eq_arrays(vb, run.pos["sun"])), cons,
                             [run.k.t >= rv(0.01)], inputs, replay_glue,
                             "visible Sun fraction evaluated for (satellite position, Sun position)")
            if rep.status == "violation":
                return
        rep.reachable(f"{name}:reach", cons, timeout_ms=30000)


FLAG_SETS_QUICK = [(False, False, False), (True, False, False), (False, True, False), (False, False, True), (True, True, True)]
FLAG_SETS_ALL = list(itertools.product((False, True), repeat=3))


def o1_glue(bodysets, Ks, flagsets):
    def fn(rep):
        for K in Ks:
            for bodies in bodysets:
                for srp, gr, thr in flagsets:
                    _glue_config(rep, K, list(bodies), srp, gr, thr)
                    if rep.status == "violation":
                        return

    return fn


# ------------------------------------------------------------------------------------------------
# O2-O4: the perturbation terms one by one (finer diagnostics; also division safety)
# ------------------------------------------------------------------------------------------------
def replay_terms(d):
    from resonaate.dynamics import special_perturbations as SP
    from resonaate.physics import constants as const
    from resonaate.physics.bodies import Earth

    r, v, s = np.array(d["r"]), np.array(d["v"]), np.array(d["s"])
    out = {}
    bad = False
    dd = s - r
    if hasattr(SP, "_getThirdBodyAcceleration"):
        got = SP._getThirdBodyAcceleration(r, s)
        exp = dd / math.sqrt(dd @ dd) ** 3 - s / math.sqrt(s @ s) ** 3
        e = np.abs(got - exp).max() / (np.abs(exp).max() + 1e-300)
        out["third-body"] = e
        bad |= e > 1e-6  # the direct formula cancels ~ |r|/|s| digits in doubles
    if hasattr(SP, "_getGeneralRelativityAcceleration"):
        csq = (const.SPEED_OF_LIGHT / 1000) ** 2
        rn = math.sqrt(r @ r)
        exp = Earth.mu / (csq * rn ** 3) * ((4 * Earth.mu / rn - v @ v) * r + 4 * (r @ v) * v)
        e = np.abs(SP._getGeneralRelativityAcceleration(r, v) - exp).max() / np.abs(exp).max()
        out["general-relativity"] = e
        bad |= e > 1e-9
    k, nu = d.get("k", 0.02), d.get("nu", 1.0)
    o = SP.SpecialPerturbations.__new__(SP.SpecialPerturbations)
    o.sat_ratio = k
    with shadow(SP, calculateSunVizFraction=lambda a, b: nu):
        got = o._getSolarRadiationPressureAcceleration(r, s)
    exp = -const.SOLAR_PRESSURE * k * const.AU2KM ** 2 * dd / math.sqrt(dd @ dd) ** 3 * nu / 1000.0
    e = np.abs(got - exp).max() / (np.abs(exp).max() + 1e-300)
    out["srp"] = e
    bad |= e > 1e-9
    if "vcs" in d:
        got = SP.calcSatRatio(d["vcs"], d["mass"], d["refl"])
        exp = (1 + d["refl"]) * d["vcs"] / d["mass"]
        out["sat-ratio"] = abs(got - exp)
        bad |= abs(got - exp) > 1e-12 * max(1.0, abs(exp))
    return bool(bad), out


def o2_terms(rep):
    from resonaate.dynamics import special_perturbations as SP
    from resonaate.physics import constants as const
    from resonaate.physics.bodies import Earth

    R0 = float(Earth.radius)
    with single_path() as p:
        r, v, s = reals("r", 3), reals("v", 3), reals("s", 3)
        k, nu = real("k"), real("nu")
        cut = ScalarCut({"r": r, "v": v, "s": s}, SP.norm, SP.vdot, polarise=lambda a, b: "s" in (a, b))
        nr, nv, ns, nd = cut.norm_of("r"), cut.norm_of("v"), cut.norm_of("s"), cut.norm_of("s", "r")
        assume(nr.t >= rv(R0 + 200.0), nr.t <= rv(10 * R0), nv.t > 0, nv.t <= 12, ns.t >= rv(3.5e5), ns.t <= rv(1.7e9), k.t >= 0, k.t <= 1, nu.t >= 0, nu.t <= 1)

        def inputs(m):
            vec = realise(cut, m, mval, [("r", None), ("v", "r" if frozenset((0, 1)) in cut.N or frozenset((0, 1)) in cut.G else None), ("s", "r" if frozenset((0, 2)) in cut.N else None)])
            return {"r": vec["r"], "v": vec["v"], "s": vec["s"], "k": max(mfloat(m, k.t), 1e-3), "nu": max(mfloat(m, nu.t), 0.5)}

        dd = s - r
        n_dom = len(p.domain)
        tb = ga = None
        with shadow(SP, norm=cut.norm, vdot=cut.dot, calculateSunVizFraction=lambda a, b: nu):
            if hasattr(SP, "_getThirdBodyAcceleration"):
                tb = SP._getThirdBodyAcceleration(r, s)
            if hasattr(SP, "_getGeneralRelativityAcceleration"):
                ga = SP._getGeneralRelativityAcceleration(r, v)
            o = SP.SpecialPerturbations.__new__(SP.SpecialPerturbations)
            o.sat_ratio = k
            sa = o._getSolarRadiationPressureAcceleration(r, s)
        cons = p.constraints() + cut.facts()
        if tb is not None:
            ref = dd / (nd * nd * nd) - s / (ns * ns * ns)
            for i in range(3):
                _decide(rep, f"third-body[{i}]", tb[i].t, ref[i].t, cons, 1 / (ns.t * ns.t), inputs, replay_terms, "_getThirdBodyAcceleration(r, s) = (s-r)/|s-r|^3 - s/|s|^3",
                        margin=1e-5)
        else:
            rep.note("_getThirdBodyAcceleration not present (covered by the glue obligations)")
        if ga is not None:
            csq = (const.SPEED_OF_LIGHT / 1000) ** 2
            ref = Earth.mu / (csq * nr * nr * nr) * ((4 * Earth.mu / nr - cut.dot_named("v", "v")) * r + 4 * cut.dot_named("r", "v") * v)
            for i in range(3):
                _decide(rep, f"general-relativity[{i}]", ga[i].t, ref[i].t, cons, rv(float(Earth.mu) ** 2 / csq) / (nr.t * nr.t * nr.t), inputs, replay_terms,
                        "GR = mu/(c^2 r^3) [(4 mu/r - v^2) r + 4 (r.v) v]  (Montenbruck 3.146)", margin=1e-6)
        else:
            rep.note("_getGeneralRelativityAcceleration not present (covered by the glue obligations)")
        ref = -const.SOLAR_PRESSURE * k * const.AU2KM ** 2 * dd / (nd * nd * nd) * nu / 1000
        for i in range(3):
            _decide(rep, f"srp[{i}]", sa[i].t, ref[i].t, cons, rv(float(const.SOLAR_PRESSURE) / 1000), inputs, replay_terms,
                    "SRP = -P C_r(A/m) AU^2 (s-r)/|s-r|^3 * visible fraction / 1000", margin=1e-6, visible=[k.t >= rv(1e-3), nu.t >= rv(0.5), ns.t >= rv(1.4e8), ns.t <= rv(1.6e8)])
        if cut.unmatched:
            rep.note(f"unmatched: {cut.unmatched}")
        # no division by zero / NaN inside the bounds: every divisor met is non-zero
        cons = p.constraints() + cut.facts()
        for q, (cnd, hyp) in enumerate(p.domain_obligations()[n_dom:]):
            rep.prove(f"division-safe#{q}", cnd, hyp + cut.facts() + p.assumes, sample="divisors are non-zero for satellites outside the Earth, bodies farther away, |v| > 0")
        vcs, mass, refl = real("vcs"), real("mass"), real("refl")
        assume(mass.t > 0)
        sr = SP.calcSatRatio(vcs, mass, refl)

        def inputs2(m):
            return {"r": [7000.0, 0, 0], "v": [0, 7.5, 0], "s": [1.5e8, 1e7, 0], "vcs": mfloat(m, vcs.t), "mass": mfloat(m, mass.t), "refl": mfloat(m, refl.t)}

        rep.prove("sat-ratio", sr.t == (1 + refl.t) * vcs.t / mass.t, p.constraints(), inputs=inputs2, replay=replay_terms, sample="calcSatRatio = (1 + reflectivity) A / m")
        rep.reachable("reach", p.constraints() + cut.facts())


# ------------------------------------------------------------------------------------------------
# O5: Cunningham recursion == gradient of the closed-form potential
# ------------------------------------------------------------------------------------------------
PINS = [(2, 3, 6, 7), (-6, 2, 3, 7), (1, -4, 8, 9), (4, 4, -7, 9), (-2, -10, 11, 15)]


def replay_harmonics(d):
    from resonaate.physics.bodies.gravitational_potential import nonSphericalAcceleration

    pos = np.array(d["pos"], dtype=float)
    C, S = np.array(d["C"], dtype=float), np.array(d["S"], dtype=float)
    try:
        got = np.array(nonSphericalAcceleration(pos, d["mu"], d["R"], C, S, d["degree"], d["order"]), dtype=float)
    except Exception as e:  # noqa: BLE001
        return True, {"real code raised": f"{type(e).__name__}: {e}"}
    exp = np.array(ref_geopotential_acc([float(q) for q in pos], 1.0 / math.sqrt(pos @ pos), d["mu"], d["R"], C, S, d["degree"], d["order"]), dtype=float)
    sc = max(np.abs(exp).max(), np.abs(got).max(), 1e-300)
    e = np.abs(got - exp).max() / sc
    return e > 1e-9, {"relative_error": e, "got": got.tolist(), "reference": exp.tolist()}


def _harmonics(rep, degree, order, comps=(0, 1, 2), timeout_ms=120000):
    from resonaate.physics.bodies import gravitational_potential as GP

    name = f"({degree},{order})"
    with single_path(recip=True) as p:
        pos = reals("x", 3)
        N, mu, R = real("N"), real("mu"), real("R")
        s2 = pos[0] * pos[0] + pos[1] * pos[1] + pos[2] * pos[2]
        assume(N.t > 0, N.t * N.t == s2.t, R.t > 0)
        calls = []

        def norm(vv, *a, **k):
            vv = np.asarray(vv, dtype=object)
            sq = sum((q * q for q in vv), SReal(0))
            if a or k or vv.shape != (3,) or refute(sq.t == s2.t, [], 5000).status != "unsat":
                calls.append("real")
                return GP.norm(vv, *a, **k)
            calls.append("cut")
            return N

        C, S = reals("C", degree + 1, order + 1), reals("S", degree + 1, order + 1)
        try:
            with shadow(GP, norm=norm, zeros=sym_zeros, array=sym_array):
                acc = GP.nonSphericalAcceleration(pos, mu, R, C, S, degree, order)
        except (IndexError, KeyError, ValueError, AttributeError, TypeError, ZeroDivisionError) as e:
            # the analysed code raised on symbolic inputs: a violation iff the real code also raises on concrete ones
            d = {"pos": [3000.0, -4000.0, 5000.0], "mu": 398600.4415, "R": 6378.1363, "degree": degree, "order": order,
                 "C": (np.arange((degree + 1) * (order + 1)).reshape(degree + 1, order + 1) % 7 * 1e-6).tolist(),
                 "S": (np.arange((degree + 1) * (order + 1)).reshape(degree + 1, order + 1) % 5 * 1e-6).tolist()}
            rep.prove(f"{name}:raised {type(e).__name__}: {str(e)[:80]}", z3.BoolVal(False), [], inputs=lambda m, d=d: d, replay=replay_harmonics,
                      sample="nonSphericalAcceleration does not raise for order <= degree")
            return
        inv = 1 / N
        ref = ref_geopotential_acc(list(pos), inv, mu, R, C, S, degree, order)
        cons = p.constraints()
        if degree < 2:
            for i in comps:
                rep.prove(f"{name}:zero[{i}]", _real_term(acc[i]) == 0, cons, sample="no J2+ terms below degree 2")
            return
        lem = inv.t * inv.t * s2.t == 1
        if not rep.prove(f"{name}:lemma", lem, cons, sample="(1/|r|)^2 (x^2+y^2+z^2) = 1 from the norm contract"):
            return
        # relations the linear-arithmetic proof may use.  Reciprocals the code introduced (inv!k * B == 1, B a monomial in N and R, e.g.
        # R^2 or N^2) are first proved equal to products of the two atomic reciprocals 1/N, 1/R, so the proof does not depend on how the
        # code groups its divisions.
        contracts = [c for c in p.assumes if z3.is_eq(c) and str(c.children()[0]).startswith("inv!") and z3.is_rational_value(c.children()[1])]
        iR = 1 / R
        rules = [((inv * inv * pos[0] * pos[0]).t, lem), ((inv * N).t, inv.t * N.t == 1), ((iR * R).t, iR.t * R.t == 1), ((N * N).t, N.t * N.t == s2.t)]
        from symx.poly import Expander, NotPolynomial

        cons = p.constraints()
        for c in contracts:
            lhs = c.children()[0]
            ivar, B = lhs.children()[0], (z3.Product(*lhs.children()[1:]) if len(lhs.children()) > 2 else lhs.children()[1])
            if ivar.get_id() in (z3.simplify(inv.t).get_id(), z3.simplify(iR.t).get_id()):
                continue
            try:
                Bp = Expander().poly(B)
            except NotPolynomial:
                Bp = {}
            ok = False
            if len(Bp) == 1:
                (mono, c0), = Bp.items()
                if {vn for vn, _e in mono} <= {"N", "R"}:
                    prod = rv(1 / c0)
                    for vn, e in mono:
                        for _ in range(e):
                            prod = prod * (inv.t if vn == "N" else iR.t)
                    lm = ivar == prod
                    if refute(lm, cons, 10000).status == "unsat":
                        rules.append((ivar, lm))
                        ok = True
            if not ok:
                try:
                    prove_by_reduction([], [(lhs, c)])
                    rules.append((lhs, c))
                except Exception:  # noqa: BLE001  (divisor is not a monomial: not usable as a rewrite relation)
                    rep.note(f"{name}: reciprocal contract not used as a relation: {str(c)[:80]}")
        split = [str(q.t) for q in list(C.ravel()) + list(S.ravel())]

        def inputs(m):
            return {"pos": [mfloat(m, q.t) for q in pos], "mu": mfloat(m, mu.t), "R": mfloat(m, R.t), "degree": degree, "order": order,
                    "C": [[mfloat(m, q.t) for q in row] for row in C], "S": [[mfloat(m, q.t) for q in row] for row in S]}

        for i in comps:
            label = f"{name}:acc[{i}]"
            goal = _real_term(acc[i]) == _real_term(ref[i])
            v = prove_by_reduction([goal], rules, split=split, timeout_ms=timeout_ms)
            rep._item(label, "prove" if v.status == "unsat" else "attempt", v)
            if v.status == "unsat":
                rep.sample({"obligation": f"{rep.ob}:{label}", "verdict": "unsat", "what": "Cunningham acceleration = grad of closed-form potential, symbolic position and coefficients"})
                continue
            # not proved: look for a replayable counterexample, first on the full domain, then at pinned rational positions
            box = [mu.t == 1, R.t == 2, N.t >= 2, N.t <= 8] + [z3.And(q.t >= -1, q.t <= 1) for q in list(C.ravel()) + list(S.ravel())]
            tol = rv(1e-6)
            far = z3.Or(_real_term(acc[i]) - _real_term(ref[i]) > tol, _real_term(ref[i]) - _real_term(acc[i]) > tol)
            found = False
            tries = [("nlsat", [])] + [(f"pin{q}", [pos[0].t == a, pos[1].t == b, pos[2].t == c, N.t == n]) for q, (a, b, c, n) in enumerate(PINS)]
            for tname, pin in tries:
                vv = solve(cons + box + pin + [far], 20000 if pin else 40000)
                if vv.status == "sat":
                    rep.prove(f"{label}:{tname}", z3.Not(far), cons + box + pin, timeout_ms=40000, inputs=inputs, replay=replay_harmonics,
                              sample="Cunningham acceleration = grad of closed-form potential")
                    found = True
                    break
            if not found:
                rep.undecided(label, v.reason)
            if rep.status == "violation":
                return
        rep.note(f"{name}: norm calls {calls}")
        rep.reachable(f"{name}:reach", cons + [pos[0].t == 3, pos[1].t == 4, pos[2].t == 12], timeout_ms=20000)


def o5_harmonics(cases, comps=(0, 1, 2), timeout_ms=120000):
    def fn(rep):
        for dg, od in cases:
            _harmonics(rep, dg, od, comps, timeout_ms)
            if rep.status == "violation":
                return

    return fn


# ---- normalisation scale ---------------------------------------------------------------------------
FACT = z3.Function("factorial", z3.IntSort(), z3.RealSort())


def replay_scale(d):
    from resonaate.physics.bodies.gravitational_potential import _getGeopotentialCoefficientScale

    n, m = int(d["n"]), int(d["m"])
    got = float(_getGeopotentialCoefficientScale(n, m))
    exp = math.sqrt(Fraction(factorial(n - m) * (2 * n + 1) * (1 if m == 0 else 2), factorial(n + m)))
    return abs(got - exp) > 1e-12 * exp, {"scale": got, "documented": exp}


def o5s_scale(rep):
    from resonaate.physics.bodies import gravitational_potential as GP

    def fact(q):
        return SReal(FACT(q.t if isinstance(q, SInt) else z3.IntVal(int(q))))

    def run():
        n, m = integer("n"), integer("m")
        assume(m.t >= 0, n.t >= m.t, n.t <= 80)
        with shadow(GP, factorial=fact):
            return n, m, GP._getGeopotentialCoefficientScale(n, m)

    res = explore(run, max_paths=8)
    n, m = z3.Int("n"), z3.Int("m")
    nn = z3.ToReal(n)
    # factorial facts the oracle may use: positivity of the applications that occur, 0! = 1
    ax = [FACT(n - m) > 0, FACT(n + m) > 0, FACT(z3.IntVal(0)) == 1]
    tags = set()
    for r in res:
        if r.exc is not None:
            rep.error("exception", repr(r.exc))
            continue
        _n, _m, sc = r.out
        tag = _tag(r)
        tags.add(tag)
        cons = r.constraints + ax
        kk = z3.If(m == 0, z3.RealVal(1), z3.RealVal(2))
        # scale^2 * (n+m)! == (n-m)! * k * (2n+1), scale > 0   (Vallado 8-22 / Montenbruck 3.13)
        goal = z3.And(sc.t > 0, sc.t * sc.t * FACT(n + m) == FACT(n - m) * kk * (2 * nn + 1))
        rep.prove(f"scale[{tag}]", goal, cons, inputs=lambda mo: {"n": max(mval(mo, n), mval(mo, m)), "m": mval(mo, m)}, replay=replay_scale,
                  sample="un-normalisation scale = sqrt((n-m)! (2n+1) (2 - delta_0m) / (n+m)!) for symbolic n >= m")
        rep.feasible(f"path[{tag}]", cons)
    if len(tags) < 2:
        rep.error("reach", "zonal and non-zonal branches of the scale were not both reached")


def replay_loader(d):
    """Real loader on the real EGM-96 file against an independent parse of the same file."""
    from importlib import resources

    from resonaate.common.labels import GeopotentialModel
    from resonaate.physics.bodies.gravitational_potential import loadGeopotentialCoefficients

    raw = getattr(loadGeopotentialCoefficients, "__wrapped__", loadGeopotentialCoefficients)
    cos_t, sin_t = raw(GeopotentialModel.EGM96)
    exp_c, exp_s = np.zeros((181, 181)), np.zeros((181, 181))
    with resources.files("resonaate.physics.data.geopotential").joinpath("egm96.txt").open() as f:
        for line in f:
            q = line.split()
            n, m = int(q[0]), int(q[1])
            sc = math.sqrt(Fraction(factorial(n - m) * (2 * n + 1) * (1 if m == 0 else 2), factorial(n + m)))
            exp_c[n, m], exp_s[n, m] = float(q[2]) * sc, float(q[3]) * sc
    e = max(np.abs(cos_t - exp_c).max() / np.abs(exp_c).max(), np.abs(sin_t - exp_s).max() / np.abs(exp_c).max())
    return e > 1e-12, {"max_relative_error": e}


def o5c_loader(rep):
    """loadGeopotentialCoefficients: row (n, m, Cbar, Sbar) lands in cos[n, m] / sin[n, m] multiplied by the scale of (n, m); nothing else is written."""
    from resonaate.common.labels import GeopotentialModel
    from resonaate.physics.bodies import gravitational_potential as GP

    rows_nm = [(2, 0), (2, 1), (2, 2), (3, 1), (5, 3), (20, 0), (20, 17), (80, 80)]  # 80 = configuration limit; beyond n+m ~ 170 the scale underflows in doubles
    with single_path() as p:
        vals = {nm: (real(f"Cb_{nm[0]}_{nm[1]}"), real(f"Sb_{nm[0]}_{nm[1]}")) for nm in rows_nm}
        rows = [[str(n), str(m), vals[(n, m)][0], vals[(n, m)][1]] for n, m in rows_nm]
        with shadow(GP, reader=lambda f, **k: iter(rows), float=lambda q: q, zeros=lambda shape, **k: sym_zeros(shape)):
            raw = getattr(GP.loadGeopotentialCoefficients, "__wrapped__", GP.loadGeopotentialCoefficients)
            cos_t, sin_t = raw(GeopotentialModel.EGM96)
        cons = p.constraints()
        if np.shape(cos_t) != (181, 181) or np.shape(sin_t) != (181, 181):
            rep.error("shape", f"{np.shape(cos_t)}")
            return
        goals = []
        for (n, m), (cb, sb) in vals.items():
            sc = float(GP._getGeopotentialCoefficientScale(n, m))
            doc = Fraction(factorial(n - m) * (2 * n + 1) * (1 if m == 0 else 2), factorial(n + m))
            goals.append(z3.And(_real_term(cos_t[n, m]) == cb.t * rv(sc), _real_term(sin_t[n, m]) == sb.t * rv(sc),
                                rv(sc) * rv(sc) - rv(doc) <= rv(doc) * rv(1e-12), rv(doc) - rv(sc) * rv(sc) <= rv(doc) * rv(1e-12)))
        inputs = lambda m: {}  # noqa: E731
        rep.prove("rows-land-in-[n,m]-scaled", z3.And(*goals), cons, inputs=inputs, replay=replay_loader, sample="cos[n,m] = Cbar_nm * Pi_nm, sin[n,m] = Sbar_nm * Pi_nm")
        fills = (cos_t[0, 0], sin_t[0, 0])  # cells never written keep the fill object of the zero array
        nz = [t for arr, fill in zip((cos_t, sin_t), fills) for (i, j), t in np.ndenumerate(arr) if (i, j) not in vals and t is not fill]
        rep.prove("nothing-else-written", z3.And(_real_term(fills[0]) == 0, _real_term(fills[1]) == 0, *[_real_term(t) == 0 for t in nz]), cons, inputs=inputs,
                  replay=replay_loader, sample="all other cells stay zero")
        rep.reachable("reach", cons)


# ------------------------------------------------------------------------------------------------
# O6: ephemeris composition and Chebyshev evaluation
# ------------------------------------------------------------------------------------------------
def replay_ephem(d):
    from resonaate.physics.bodies import third_body as TB

    jd = d["jd"]
    seg = lambda n: TB.getSegmentPosition(jd, getattr(TB.TBK, n))  # noqa: E731
    exp = {"sun": seg("SS_BC_2_SUN_CENTER") - seg("SS_BC_2_EARTH_BC") - seg("EARTH_BC_2_EARTH_CENTER"),
           "moon": seg("EARTH_BC_2_MOON_CENTER") - seg("EARTH_BC_2_EARTH_CENTER"),
           "jupiter": seg("SS_BC_2_JUPITER_BC") - seg("SS_BC_2_EARTH_BC") - seg("EARTH_BC_2_EARTH_CENTER"),
           "saturn": seg("SS_BC_2_SATURN_BC") - seg("SS_BC_2_EARTH_BC") - seg("EARTH_BC_2_EARTH_CENTER"),
           "venus": seg("SS_BC_2_VENUS_BC") - seg("SS_BC_2_EARTH_BC") - seg("EARTH_BC_2_EARTH_CENTER")}
    cls = _body_classes()
    err = {b: float(np.abs(np.array(cls[b].getPosition(jd)) - exp[b]).max()) for b in exp}
    return max(err.values()) > 1e-3, err


def o6_ephem(rep):
    """geocentric position of a body = (SSB -> body) - (SSB -> Earth-Moon barycentre) - (EMB -> Earth); Moon = (EMB -> Moon) - (EMB -> Earth); one epoch."""
    from resonaate.physics.bodies import third_body as TB

    cls = _body_classes()
    T = TB.TBK
    want = {"sun": [(T.SS_BC_2_SUN_CENTER, 1), (T.SS_BC_2_EARTH_BC, -1), (T.EARTH_BC_2_EARTH_CENTER, -1)],
            "moon": [(T.EARTH_BC_2_MOON_CENTER, 1), (T.EARTH_BC_2_EARTH_CENTER, -1)],
            "jupiter": [(T.SS_BC_2_JUPITER_BC, 1), (T.SS_BC_2_EARTH_BC, -1), (T.EARTH_BC_2_EARTH_CENTER, -1)],
            "saturn": [(T.SS_BC_2_SATURN_BC, 1), (T.SS_BC_2_EARTH_BC, -1), (T.EARTH_BC_2_EARTH_CENTER, -1)],
            "venus": [(T.SS_BC_2_VENUS_BC, 1), (T.SS_BC_2_EARTH_BC, -1), (T.EARTH_BC_2_EARTH_CENTER, -1)]}
    SEGF = {(sg.value, i): z3.Function(f"seg{sg.value}_{i}", z3.RealSort(), z3.RealSort()) for sg in T for i in range(3)}
    with single_path() as p:
        jd = real("jd")

        def seg(j, sg):
            return np.array([SReal(SEGF[(sg.value, i)](_real_term(j))) for i in range(3)], dtype=object)

        inputs = lambda m: {"jd": min(max(mfloat(m, jd.t), 2451545.0), 2460000.0)}  # noqa: E731
        got = {}
        with shadow(TB, getSegmentPosition=seg):
            for b in want:
                got[b] = cls[b].getPosition(jd)
        for b, parts in want.items():  # (proved outside the shadow: replays run the un-stubbed code)
            ref = sum((sgn * seg(jd, sg) for sg, sgn in parts), np.array([SReal(0)] * 3, dtype=object))
            rep.prove(f"{b}", eq_arrays(got[b], ref), p.constraints(), inputs=inputs, replay=replay_ephem,
                      sample=f"{b}: geocentric position composed of the right kernel segments with the right signs at one epoch")
        rep.reachable("reach", p.constraints() + [jd.t == 2458000])


def replay_cheb(d):
    from resonaate.physics.bodies import third_body as TB

    jd0, L = d["jd0"], d["L"]
    co = np.array(d["coef"], dtype=float)
    jd = d["jd"]
    ep = list(TB.THIRD_BODY_EPHEMS)
    ep[0] = (jd0, L, co)
    try:
        with shadow(TB, THIRD_BODY_EPHEMS=tuple(ep)):
            got = np.array(TB.getSegmentPosition(jd, TB.TBK(0)), dtype=float)
            sc, idx = TB._scaleChebyshevInputs(jd, jd0, L)
    except Exception as e:  # noqa: BLE001
        return True, {"real code raised": f"{type(e).__name__}: {e}"}
    i = int(math.floor((jd - jd0) / L))
    tau = (jd - (jd0 + i * L + L / 2)) / (L / 2)
    Tk = [1.0, tau]
    for _ in range(co.shape[2]):
        Tk.append(2 * tau * Tk[-1] - Tk[-2])
    exp = np.array([sum(co[a, i, q] * Tk[q] for q in range(co.shape[2])) for a in range(3)])
    e = np.abs(got - exp).max() / max(1.0, np.abs(exp).max())
    e2 = abs(float(sc) - tau) + abs(int(idx) - i)
    return (e > 1e-9) or (e2 > 1e-9), {"position_error": e, "scaled_time/index_error": e2}


def o6b_cheb(rep):
    """_scaleChebyshevInputs / getSegmentPosition: sub-interval i = floor((jd - jd0)/L), tau = (jd - mid_i)/(L/2) in [-1, 1), position_a = sum_k coef[a, i, k] T_k(tau)."""
    from resonaate.physics.bodies import third_body as TB

    NI, NC = 3, 5
    layouts = sorted({(float(e[0]), float(e[1])) for e in TB.THIRD_BODY_EPHEMS if float(e[1]) < 1000})

    def arr(x, dtype=None, copy=None):
        if isinstance(x, np.ndarray) and x.dtype == object and x.ndim > 0:
            if dtype is int:
                return np.array([q.trunc_int() for q in x], dtype=object)
            return x.copy()
        if isinstance(x, (list, tuple)) and any(isinstance(q, SReal) for q in x):
            return np.array(list(x), dtype=object)
        if isinstance(x, SReal):
            return x.trunc_int() if dtype is int else x
        return np.array(x, dtype=dtype) if copy is None else np.array(x, dtype=dtype, copy=copy)

    for jd0, L in layouts:
        def run(jd0=jd0, L=L):
            co = reals("c", 3, NI, NC)
            jd = real("jd")
            assume(jd.t >= rv(jd0), jd.t < rv(jd0 + NI * L))
            ep = list(TB.THIRD_BODY_EPHEMS)
            ep[0] = (jd0, L, co)
            with shadow(TB, THIRD_BODY_EPHEMS=tuple(ep), array=arr):
                sc, idx = TB._scaleChebyshevInputs(jd, jd0, L)
                posn = TB.getSegmentPosition(jd, TB.TBK(0))
            return co, jd, sc, idx, posn

        res = explore(run, max_paths=16)
        seen = set()
        for r in res:
            if r.exc is not None:
                # the analysed code raised on a feasible path (e.g. picked a coefficient block outside the table): a violation iff the real code does too
                co_, jd_ = reals("c", 3, NI, NC), z3.Real("jd")
                rep.prove(f"no-exception[L={L:g}:{_tag(r)}] {type(r.exc).__name__}", z3.BoolVal(False), r.constraints + [z3.And(q.t >= -10, q.t <= 10) for q in co_.ravel()],
                          inputs=lambda m, co_=co_, jd_=jd_, jd0=jd0, L=L: {"jd0": jd0, "L": L, "jd": mfloat(m, jd_), "coef": [[[mfloat(m, q.t) for q in row] for row in pl] for pl in co_]},
                          replay=replay_cheb, sample="no exception for epochs inside the table")
                continue
            co, jd, sc, idx, posn = r.out
            tag = f"L={L:g}:{_tag(r)}"
            cons = r.constraints
            if rep.feasible(f"path[{tag}]", cons) is None:
                continue
            ii = z3.Int("ii")
            spec = [z3.ToReal(ii) * rv(L) <= jd.t - rv(jd0), jd.t - rv(jd0) < (z3.ToReal(ii) + 1) * rv(L)]
            tau = (jd.t - (rv(jd0) + z3.ToReal(ii) * rv(L) + rv(L) / 2)) / (rv(L) / 2)
            inputs = lambda m, co=co, jd=jd, jd0=jd0, L=L: {"jd0": jd0, "L": L, "jd": mfloat(m, jd.t),  # noqa: E731
                                                            "coef": [[[mfloat(m, q.t) for q in row] for row in pl] for pl in co]}
            idt = idx.t if isinstance(idx, SInt) else z3.IntVal(int(idx))
            rep.prove(f"scaling[{tag}]", z3.And(idt == ii, _real_term(sc) == tau, _real_term(sc) >= -1, _real_term(sc) < 1), cons + spec, inputs=inputs, replay=replay_cheb,
                      sample="sub-interval index = floor((jd-jd0)/L); scaled time = (jd - mid)/(L/2) in [-1,1)")
            # which sub-interval did this path pick (the path condition pins it)?
            mdl = solve(cons + spec, 10000).model
            if mdl is None:
                rep.undecided(f"cheb[{tag}]", "no model for the path")
                continue
            iv = mval(mdl, ii)
            seen.add(iv)
            rep.prove(f"index-forced[{tag}]", ii == iv, cons + spec, inputs=inputs, replay=replay_cheb, sample="the coefficient block used is the one of the sub-interval containing jd")
            tq = SReal(tau)
            Tk = [SReal(1), tq]
            for _ in range(NC):
                Tk.append(2 * tq * Tk[-1] - Tk[-2])
            box = [z3.And(q.t >= -10, q.t <= 10) for q in co.ravel()]
            for a in range(3):
                ref = sum((co[a, iv, q] * Tk[q] for q in range(NC)), SReal(0))
                _decide(rep, f"cheb[{tag}][{a}]", _real_term(posn[a]), ref.t, cons + spec + [ii == iv], rv(1), inputs, replay_cheb,
                        "position component a = sum_k coef[a, i, k] T_k(tau) (Chebyshev polynomials by their three-term recurrence)", margin=1e-3, visible=box)
        if rep.status == "violation":
            return
        if seen != set(range(NI)):
            rep.error(f"reach[L={L:g}]", f"sub-intervals reached: {sorted(seen)}")


# ------------------------------------------------------------------------------------------------
# O7: constants; O8: TwoBody
# ------------------------------------------------------------------------------------------------
def _factory_ok():
    from resonaate.dynamics import special_perturbations as SP

    cls = _body_classes()
    bad = []
    if set(SP.thirdBodyFactory(ALL_BODIES + ["SUN", "Moon"])) != set(cls.values()):
        bad.append("all names")
    for b in ALL_BODIES:
        if list(SP.thirdBodyFactory([b])) != [cls[b]]:
            bad.append(b)
    try:
        SP.thirdBodyFactory(["pluto"])
        bad.append("unknown body accepted")
    except ValueError:
        pass
    return bad


def replay_consts(d):
    cur = _consts()
    bad = {k: (cur[k], DOC_CONSTANTS[k][0]) for k in cur if abs(cur[k] - DOC_CONSTANTS[k][0]) > DOC_CONSTANTS[k][1] * abs(DOC_CONSTANTS[k][0])}
    fb = _factory_ok()
    if fb:
        bad["thirdBodyFactory"] = fb
    return bool(bad), bad


def o7_constants(rep):
    cur = _consts()
    for name, (doc, tol, src) in DOC_CONSTANTS.items():
        c = z3.Real("c_" + name.replace(".", "_"))
        rep.prove(name, z3.And(c - rv(doc) <= rv(tol) * rv(doc), rv(doc) - c <= rv(tol) * rv(doc)), [c == rv(cur[name])], inputs=lambda m, name=name: {"name": name},
                  replay=replay_consts, sample=f"{name} equals the documented value ({src}) within {tol:g}")
    rep.prove("thirdBodyFactory", z3.BoolVal(not _factory_ok()), [], inputs=lambda m: {}, replay=replay_consts,
              sample="thirdBodyFactory maps each configured name (any case) to its body and rejects unknown names")
    rep.reachable("reach", [z3.Real("c_Earth_mu") == rv(cur["Earth.mu"])])


def replay_twobody(d):
    from resonaate.dynamics.two_body import TwoBody
    from resonaate.physics.bodies import Earth

    X = np.array(d["state"], dtype=float)
    got = np.array(TwoBody()._differentialEquation(0.0, X.ravel().copy()), dtype=float).reshape(X.shape)
    worst = 0.0
    for j in range(X.shape[1]):
        r = X[:3, j]
        exp = -Earth.mu * r / math.sqrt(r @ r) ** 3
        worst = max(worst, np.abs(got[3:, j] - exp).max() / np.abs(exp).max(), np.abs(got[:3, j] - X[3:, j]).max())
    return worst > 1e-11, {"max_error": worst}


def o8_twobody(Ks):
    def fn(rep):
        from resonaate.dynamics import two_body as TBD
        from resonaate.physics.bodies import Earth

        R0 = float(Earth.radius)
        for K in Ks:
            with single_path() as p:
                X = reals("x", 6, K)
                vecs = {f"r{j}": X[:3, j] for j in range(K)}
                cut = ScalarCut(vecs, TBD.norm, None)
                for j in range(K):
                    assume(cut.norm_of(f"r{j}").t >= rv(R0 + 200.0), cut.norm_of(f"r{j}").t <= rv(10 * R0))
                with shadow(TBD, empty_like=lambda s, dtype=None: np.empty(s.shape, dtype=object), norm=cut.norm):
                    out = TBD.TwoBody()._differentialEquation(real("t"), X.ravel())
                D = np.asarray(out, dtype=object).reshape(6, K)
                cons = p.constraints() + cut.facts()

                def inputs(m, K=K, cut=cut):
                    vec = realise(cut, m, mval, [(f"r{j}", None) for j in range(K)])
                    Xc = np.zeros((6, K))
                    for j in range(K):
                        Xc[:3, j] = vec[f"r{j}"]
                        Xc[3:, j] = [1.0 + j, -2.0, 0.5]
                    return {"state": Xc}

                for j in range(K):
                    rho = cut.norm_of(f"r{j}")
                    rep.prove(f"K{K}:velocity[{j}]", eq_arrays(D[:3, j], X[3:, j]), cons, inputs=inputs, replay=replay_twobody, sample="two-body: dr/dt = v")
                    ref = -Earth.mu * X[:3, j] / (rho * rho * rho)
                    for i in range(3):
                        _decide(rep, f"K{K}:acceleration[{j}][{i}]", D[3 + i, j].t, ref[i].t, cons, rv(float(Earth.mu)) / (rho.t * rho.t), inputs, replay_twobody,
                                "two-body: dv/dt = -mu r/|r|^3")
                rep.reachable(f"K{K}:reach", cons)

    return fn


_GLUE_QUICK = {
    # name: (third-body sets, batch sizes, (srp, gr, thrust) combinations)
    "O1a": ([(), ("sun",)], (1, 2), FLAG_SETS_QUICK),
    "O1b": ([("moon",), ("sun", "moon")], (1, 2), FLAG_SETS_QUICK),
    "O1c": ([("jupiter",), ("saturn",), ("venus",)], (2,), FLAG_SETS_QUICK),
    "O1d": ([tuple(ALL_BODIES)], (1,), FLAG_SETS_QUICK),
    "O1e": ([tuple(ALL_BODIES)], (2,), [(True, True, True), (False, False, False)]),
}
N_CHUNKS = 8

REPLAYS = {"O2": replay_terms, "O5": replay_harmonics, "O5m": replay_harmonics, "O5n": replay_harmonics, "O5s": replay_scale, "O5c": replay_loader, "O6": replay_ephem,
           "O6b": replay_cheb, "O7": replay_consts, "O8": replay_twobody, "O8k3": replay_twobody, "O1k3": replay_glue}
REPLAYS.update({name: replay_glue for name in _GLUE_QUICK})
REPLAYS.update({f"O1t{q}": replay_glue for q in range(N_CHUNKS)})
REPLAYS.update({f"O5x{i}": replay_harmonics for i in range(3)})


def _all_subsets():
    out = []
    for n in range(len(ALL_BODIES) + 1):
        out += list(itertools.combinations(ALL_BODIES, n))
    return out


def _o9_sunfrac_edge(rep):
    from harness import c14

    c14.o5b_sunfrac_edge(rep)


def obligations(tier):
    obs = []
    for name, (sets, Ks, flags) in _GLUE_QUICK.items():
        obs.append(Ob(name, o1_glue(sets, Ks, flags), f"Cowell glue == reference, K in {Ks}, third bodies {sets}, {len(flags)} SRP/GR/thrust combinations", 900))
    obs += [
        Ob("O2", o2_terms, "third-body, relativity, SRP terms and calcSatRatio equal their direct formulas; divisions safe", 120),
        Ob("O5", o5_harmonics([(8, 8), (5, 2), (3, 0), (2, 1), (1, 1), (0, 0)]), "Cunningham recursion == gradient of the closed-form potential, symbolic position/coefficients", 600),
        Ob("O5s", o5s_scale, "geopotential un-normalisation scale for symbolic degree/order", 60),
        Ob("O5c", o5c_loader, "coefficient loader writes Cbar*scale into [n, m] and nothing else", 120),
        Ob("O6", o6_ephem, "geocentric body positions composed of the right kernel segments", 60),
        Ob("O6b", o6b_cheb, "Chebyshev sub-interval selection, time scaling and series evaluation", 240),
        Ob("O7", o7_constants, "physical constants equal their documented values; thirdBodyFactory maps names to bodies", 60),
        Ob("O8", o8_twobody((1, 2)), "TwoBody derivative == -mu r/|r|^3, batch layout", 60),
        Ob("O9", _o9_sunfrac_edge, "visible-Sun fraction (the SRP scale factor) continuous at the umbra edge (shared with C14-O5b)", 300),
    ]
    if tier == "thorough":
        subsets = _all_subsets()
        for q in range(N_CHUNKS):
            ch = subsets[q::N_CHUNKS]
            obs.append(Ob(f"O1t{q}", o1_glue(ch, (1,), FLAG_SETS_ALL), f"Cowell glue, all 8 SRP/GR/thrust combinations, K = 1, body sets {ch}", 900))
        obs.append(Ob("O1k3", o1_glue([("sun", "moon"), tuple(ALL_BODIES)], (3,), [(True, True, True), (False, False, False)]), "Cowell glue, K=3", 900))
        obs.append(Ob("O5m", o5_harmonics([(12, 12), (12, 7), (20, 0)], timeout_ms=400000), "harmonics (12,12), (12,7), (20,0)", 900))
        obs.append(Ob("O5n", o5_harmonics([(16, 9)], timeout_ms=600000), "harmonics (16,9)", 900))
        for i in range(3):
            obs.append(Ob(f"O5x{i}", o5_harmonics([(20, 20)], comps=(i,), timeout_ms=800000), f"harmonics degree/order 20, component {i}", 900))
        obs.append(Ob("O8k3", o8_twobody((3,)), "TwoBody, K=3", 120))
    return obs


ASSUMPTIONS.append("fields of ReductionParams the force model has no business with (rot_pnr, rot_rnp, rot_wt, lod: they belong to the whole-second calendar instant the reduction was built for) are free symbols: a derivative that depends on them cannot equal the reference; replays use an elapsed time with a fractional second")
