"""Engine helpers for the C12 harness (orbital elements).

* `explore_sliced`  - the re-execution explorer of symx.core with one extra step per branch query: a cheap pre-check on
  the slice of the path constraints that only mention the condition's own variables (unsat there => side infeasible).
* `Canon`           - solver-checked canonicalisation.  numpy/scipy primitives the analysed code calls (norm, vdot, cross,
  arccos, fabs, sqrt) are shadowed by wrappers that compute the same value as a term and then try to *prove* (SMT query
  under the current path constraints) that it equals one of a few terms named by the harness (|r| = rho, r.v = rho*vr,
  ...).  Only after `unsat` is the named term returned in place of the raw one.  Nothing is assumed: an unmatched value
  is passed through unchanged, a wrong candidate is simply never used.
* `simp`            - z3's own simplifier applied element-wise (sum-of-monomials form).
* `kepler_stub`     - contract for the Newton solvers of Kepler's equation.
"""
from __future__ import annotations

import time
from fractions import Fraction

import numpy as np
import z3

from .core import (PI_F, STATS, TWOPI_F, Path, PathAbort, PathResult, SBool, SInt, SReal, UnwindingFailure, _CUR, _real_term, cur, free_vars, refute,
                   rv, slice_for, solve)


# ----------------------------------------------------------------------------------------------------------------
import os

VERBOSE = bool(os.environ.get("C12_CANON_VERBOSE"))
_FV = {}
_FV_KEEP = []


def fv(t):
    """free variable names of a term, memoised per AST node (symx.core.free_vars re-walks and re-prints every time)"""
    i = t.get_id()
    r = _FV.get(i)
    if r is not None:
        return r
    seen, out, stack = set(), set(), [t]
    while stack:
        e = stack.pop()
        j = e.get_id()
        if j in seen:
            continue
        seen.add(j)
        sub = _FV.get(j)
        if sub is not None:
            out |= sub
            continue
        if z3.is_const(e):
            if e.decl().kind() == z3.Z3_OP_UNINTERPRETED:
                out.add(e.decl().name())
        else:
            stack.extend(e.children())
    r = frozenset(out)
    _FV[i] = r
    _FV_KEEP.append(t)
    return r


def slice_vars(V, constraints, free=()):
    """constraints all of whose variables are in V (variables whose name starts with a `free` prefix are always allowed)"""
    out = []
    for c in constraints:
        extra = fv(c) - V
        if not extra or (free and all(x.startswith(free) for x in extra)):
            out.append(c)
    return out


# ----------------------------------------------------------------------------------------------------------------
# exploration with sliced pre-check
# ----------------------------------------------------------------------------------------------------------------
class SlicedPath(Path):
    def _query(self, cond):
        # a condition that literally repeats an earlier decision of this path needs no solver
        neg = z3.simplify(z3.Not(cond))
        for c in self.pc:
            if c.eq(cond):
                return True, None
            if c.eq(neg) or z3.simplify(z3.Not(c)).eq(cond):
                return False, None
        V = fv(cond)
        cs = []
        for c in self.constraints():  # top-level conjunctions split: slicing can then keep the `r >= 0` half of a sqrt contract
            if z3.is_and(c):
                cs.extend(c.children())
            else:
                cs.append(c)
        sl = slice_vars(V, cs, ("turn!", "ident!"))
        if sl and len(sl) < len(cs):
            sol = z3.Solver()
            sol.set("timeout", min(2000, self.branch_timeout_ms))
            sol.add(*sl)
            sol.add(cond)
            t0 = time.time()
            r = sol.check()
            STATS.solver_s += time.time() - t0
            STATS.branch_queries += 1
            if str(r) == "unsat":
                return False, None
        # integer turn counters push z3 off its nonlinear-real procedure: a second (sound for unsat) try without the constraints that mention them
        if not any(x.startswith(("turn!", "ident!")) for x in V):
            noint = [c for c in cs if not any(x.startswith(("turn!", "ident!")) for x in fv(c))]
            if len(noint) < len(cs):
                sol = z3.Solver()
                sol.set("timeout", min(3000, self.branch_timeout_ms))
                sol.add(*noint)
                sol.add(cond)
                t0 = time.time()
                r = sol.check()
                STATS.solver_s += time.time() - t0
                STATS.branch_queries += 1
                if str(r) == "unsat":
                    return False, None
                if str(r) == "sat":
                    # a model of the real part; the turn counters are functions of it (floor), so the full set is satisfiable as well
                    return True, None
        return Path._query(self, cond)


def explore_sliced(fn, max_paths=256, max_depth=64, branch_timeout_ms=5000, catch=(Exception,), recip=False):
    """symx.core.explore with SlicedPath (same contract: every feasible path, UnwindingFailure when a bound cuts)."""
    results = []
    stack = [[]]
    while stack:
        prefix = stack.pop()
        if len(results) >= max_paths:
            raise UnwindingFailure(f"more than {max_paths} paths")
        p = SlicedPath(prefix, branch_timeout_ms)
        p.recip = recip
        _CUR[0] = p
        try:
            try:
                out = fn()
                res = PathResult(p, out=out)
            except PathAbort:
                res = None
            except catch as e:
                res = PathResult(p, exc=e)
        finally:
            _CUR[0] = None
            p.solver = None
        if len(p.decisions) > max_depth:
            raise UnwindingFailure(f"branch depth > {max_depth}")
        for alt in p.pending:
            stack.append(alt)
        if res is not None:
            results.append(res)
            STATS.paths += 1
    return results


# ----------------------------------------------------------------------------------------------------------------
def simp(x):
    """z3.simplify (sum-of-monomials) on a proxy scalar or every element of an array of proxies."""
    if isinstance(x, SReal):
        return SReal(z3.simplify(x.t, som=True))
    if isinstance(x, (int, float)):
        return x
    a = np.asarray(x, dtype=object)
    out = np.empty(a.shape, dtype=object)
    for i in np.ndindex(*a.shape):
        out[i] = SReal(z3.simplify(_real_term(a[i]), som=True))
    return out


def tag(r):
    return "".join("T" if d else "F" for d in r.path.decisions)


# ----------------------------------------------------------------------------------------------------------------
class Canon:
    """Solver-checked canonicalisation of the values of norm / vdot / cross / arccos / fabs / sqrt."""

    CACHE = {}

    def __init__(self, timeout_ms=8000):
        self.cands = []  # (name, term, nonneg)
        self.squares = []  # (name, term of the square)
        self.to = timeout_ms
        self.log = []
        self.lemmas = 0
        self.secs = 0.0
        self.pins = []  # optional: lists of constraints pinning the inputs to generic rational values (only used to rank candidates)
        self._wit = None
        self._wit_vars = set()
        self._wit_n = -1
        self.filtered = 0
        self._simp = {}
        self._vals = {}
        self._keep = []

    # --- vocabulary ------------------------------------------------------------------------------------------
    def add(self, name, t, nonneg=False):
        """the term is kept exactly as the harness built it (so that the harness can later name its sub-terms); matching uses the simplified form"""
        raw = _real_term(t)
        self.cands.append((name, raw, nonneg))
        self._simp[raw.get_id()] = z3.simplify(raw, som=True)
        return self

    def add_square(self, name, sq):
        """name a non-negative quantity through its square: sqrt(x) with x == sq (proved) becomes sqrt(sq) of the compact term"""
        self.squares.append((name, _real_term(sq)))
        return self

    def add_vec(self, name, v):
        for j, t in enumerate(v):
            self.add(f"{name}[{j}]", t)
        return self

    # --- candidate filter (heuristic only: decides which lemma is *attempted*, never what is believed) -------------------
    def _witness(self, need):
        """a model of the current path constraints at a generic point; recomputed when constraints with new variables arrived"""
        p = cur()
        n = len(p.pc) + len(p.assumes) + len(p.domain)
        if self._wit is not None and need <= self._wit_vars:
            return self._wit
        if n == self._wit_n and self._wit is None:
            return None
        self._wit_n = n
        self._wit = None
        cs = p.constraints()
        for pins in list(self.pins) + [[]]:
            v = solve(cs + list(pins), 2000)
            if v.status == "sat":
                self._wit = v.model
                self._wit_vars = {str(d) for d in v.model.decls()}
                break
        return self._wit

    def _val(self, m, t):
        """30-digit rational approximation of t in the witness (None when it cannot be evaluated)"""
        key = (id(m), t.get_id())
        if key in self._vals:
            return self._vals[key]
        try:
            v = m.eval(t, model_completion=True)
            if z3.is_rational_value(v):
                r = Fraction(v.numerator_as_long(), v.denominator_as_long())
            elif z3.is_algebraic_value(v):
                ap = v.approx(30)
                r = Fraction(ap.numerator_as_long(), ap.denominator_as_long())
            else:
                r = None
        except z3.Z3Exception:
            r = None
        self._vals[key] = r
        self._keep.append(t)
        return r

    def _maybe_equal(self, a, b):
        need = fv(a) | fv(b)
        m = self._witness(need)
        if m is None or not need <= self._wit_vars:
            return True
        va, vb = self._val(m, a), self._val(m, b)
        if va is None or vb is None:
            return True
        if abs(va - vb) > Fraction(1, 10 ** 20) * max(1, abs(va), abs(vb)):
            self.filtered += 1
            return False
        return True

    # --- lemma ------------------------------------------------------------------------------------------------
    def _prove(self, goal):
        hyps = cur().constraints()
        hy = slice_vars(fv(goal), hyps)
        key = (goal.sexpr(), len(hy), hash(tuple(c.get_id() for c in hy)))
        if key in Canon.CACHE:
            return Canon.CACHE[key]
        self.lemmas += 1
        t0 = time.time()
        v = refute(goal, hy, self.to)
        self.secs += time.time() - t0
        ok = v.status == "unsat"
        if VERBOSE:
            print(f"   [canon lemma {v.status} {v.secs:.2f}s hyps={len(hy)}] {str(goal)[:140]!r}", flush=True)
        Canon.CACHE[key] = ok
        return ok

    def _nonneg(self, c):
        return self._prove(c >= 0)

    def scalar(self, t, what=""):
        if not isinstance(t, SReal):
            return t
        ts = z3.simplify(t.t, som=True)
        if z3.is_rational_value(ts):
            return SReal(ts)
        for name, c, _ in self.cands:
            if ts.eq(self._simp[c.get_id()]) or t.t.eq(c):
                return SReal(c)
        for name, c, _ in self.cands:
            if self._maybe_equal(ts, c) and self._prove(ts == c):
                self.log.append((what, name))
                return SReal(c)
        self.log.append((what, None, str(ts)[:60]))
        return SReal(ts)

    def vec(self, x, what="vec"):
        a = np.asarray(x, dtype=object)
        out = np.empty(a.shape, dtype=object)
        for i in np.ndindex(*a.shape):
            out[i] = self.scalar(a[i], what) if isinstance(a[i], SReal) else a[i]
        return out

    # --- wrappers ----------------------------------------------------------------------------------------------
    def sqrt(self, sq, what="sqrt"):
        if not isinstance(sq, SReal):
            return np.sqrt(sq)
        sqs = z3.simplify(sq.t, som=True)
        for name, c, nonneg in self.cands:
            if nonneg and self._maybe_equal(sqs, c * c) and self._prove(sqs == c * c):
                self.log.append((what, name))
                return SReal(c)
        for name, q in self.squares:
            if self._maybe_equal(sqs, q) and self._prove(sqs == q):
                self.log.append((what, name))
                return SReal(q).sqrt()
        self.log.append((what, None, str(sqs)[:60]))
        return SReal(sqs).sqrt()

    def norm(self, x, *a, **k):
        """scipy.linalg.norm of a vector := sqrt(sum x_i^2) (contract), canonicalised."""
        x = np.asarray(x, dtype=object).ravel()
        x = [self.scalar(xi, "norm-arg") for xi in x]
        sq = sum((xi * xi for xi in x), SReal(0))
        if not isinstance(sq, SReal):
            return float(np.sqrt(float(sq)))
        return self.sqrt(sq, "norm")

    def vdot(self, a, b, *ar, **k):
        a = self.vec(np.asarray(a, dtype=object).ravel(), "vdot-arg")
        b = self.vec(np.asarray(b, dtype=object).ravel(), "vdot-arg")
        return self.scalar(np.dot(a, b), "vdot")

    def cross(self, a, b, *ar, **k):
        r = np.cross(np.asarray(a, dtype=object), np.asarray(b, dtype=object))
        return self.vec(r, "cross")

    def arccos(self, u):
        if not isinstance(u, SReal):
            return np.arccos(u)
        return self.scalar(u, "arccos-arg").arccos()

    def fabs(self, u):
        if not isinstance(u, SReal):
            return np.fabs(u)
        return self.scalar(u, "fabs-arg").fabs()

    def unmatched(self):
        return [l for l in self.log if l[1] is None]


# ----------------------------------------------------------------------------------------------------------------
def arctan_via_arctan2(x):
    """numpy.arctan(x) == numpy.arctan2(x, 1) (exact identity); the proxies implement arctan2."""
    if isinstance(x, SReal):
        a = x.arctan2(1.0)
        if isinstance(a, SReal):
            # trusted numeric enclosure (the contract of arctan2 only knows quadrants): for t >= 0, atan t <= pi/2 - 1/(1+t)
            # (atan t = pi/2 - atan(1/t) and atan y >= y/(1+y) for y >= 0); symmetric for t <= 0
            h = rv(PI_F / 2)
            # and atan t >= t/(1+t) for t >= 0
            cur().assume(z3.And(z3.Implies(x.t >= 0, z3.And(a.t >= x.t / (1 + x.t), a.t <= h - 1 / (1 + x.t))),
                                z3.Implies(x.t <= 0, z3.And(a.t <= x.t / (1 - x.t), a.t >= -h + 1 / (1 - x.t)))))
        return a
    return np.arctan(x)


class KeplerStub:
    """Contract for keplerSolveCOE / keplerSolveEQE (Newton iteration on a transcendental equation, not encoded):
    the returned angle is *a root* of the equation it was asked to solve.

      COE:  E - ecc*sin(E) = M            EQE:  F + h*cos(F) - k*sin(F) = lam

    Uniqueness of the root for ecc < 1 (the left-hand side is strictly increasing) is a trusted fact that the harness
    instantiates explicitly through `unique()` for a named pair of angles."""

    def __init__(self):
        self.calls = []
        self.memo = {}
        self.axioms = []  # (same question, same answer) pairs whose implication was assumed on the path

    def _key(self, kind, *args):
        return (kind,) + tuple(z3.simplify(_real_term(a), som=True).sexpr() for a in args)

    def coe(self, E_0, M, ecc, *a, **k):
        key = self._key("coe", M, ecc)  # the solver is a function: the same question gets the same answer
        if key in self.memo:
            self.calls.append(("coe", self.memo[key], M, ecc, E_0))
            return self.memo[key]
        p = cur()
        E = SReal(p.new("keplerE"))
        self.memo[key] = E
        s = E.sin()
        p.assume(E.t - _real_term(ecc) * s.t == _real_term(M))
        for kind, E2, M2, ecc2, _e0 in self.calls:
            if kind == "coe" and E2 is not E:
                same = z3.And(_real_term(M) == _real_term(M2), _real_term(ecc) == _real_term(ecc2))
                eq = z3.And(E.t == E2.t, E.cos().t == E2.cos().t, s.t == E2.sin().t)
                p.assume(z3.Implies(same, eq))
                self.axioms.append((same, eq))
        self.calls.append(("coe", E, M, ecc, E_0))
        return E

    def eqe(self, F_0, h, k, lam, *a, **kw):
        key = self._key("eqe", h, k, lam)
        if key in self.memo:
            self.calls.append(("eqe", self.memo[key], lam, h, k, F_0))
            return self.memo[key]
        p = cur()
        F = SReal(p.new("keplerF"))
        self.memo[key] = F
        c, s = F.cos(), F.sin()
        p.assume(F.t + _real_term(h) * c.t - _real_term(k) * s.t == _real_term(lam))
        for kind, F2, lam2, h2, k2, _f0 in self.calls:  # function axiom, instantiated against the earlier questions
            if kind == "eqe" and F2 is not F:
                same = z3.And(_real_term(h) == _real_term(h2), _real_term(k) == _real_term(k2), _real_term(lam) == _real_term(lam2))
                eq = z3.And(F.t == F2.t, c.t == F2.cos().t, s.t == F2.sin().t)
                p.assume(z3.Implies(same, eq))
                self.axioms.append((same, eq))
        self.calls.append(("eqe", F, lam, h, k, F_0))
        return F


def wrap2pi_term(x, turns=4):
    """x mod 2pi for x in [-2pi*turns, 2pi*turns) as an if-then-else term (specification side)."""
    tp = rv(TWOPI_F)
    t = x.t if isinstance(x, SReal) else x
    out = t
    for k in range(-turns, turns):
        out = z3.If(z3.And(t >= tp * k, t < tp * (k + 1)), t - tp * k, out)
    return out
