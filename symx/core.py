"""symx core: symbolic proxies over z3 + path exploration by re-execution.

The real functions of /repo are *executed* on these proxies (inside numpy
object arrays where the code uses numpy); every branch on a symbolic condition
forks the exploration; the terms returned are the encoding of the code as it
is in the working tree right now.

Number semantics implemented here: Real-ideal (SReal, z3 Real), exact integers
(SInt, z3 Int), booleans (SBool).  The bit-exact float semantics lives in
symx/fp.py.
"""
from __future__ import annotations

import math
import time
from fractions import Fraction

import numpy as np
import z3

PI_F = Fraction(math.pi)  # the code's own constant (a double), taken as pi
TWOPI_F = Fraction(2.0 * math.pi)


class PathAbort(BaseException):
    """Raised inside the analysed code to abandon the current path."""


class Unsupported(Exception):
    """The analysed code used something the engine cannot encode."""


# --------------------------------------------------------------------------
# statistics (per process)
# --------------------------------------------------------------------------
class Stats:
    def __init__(self):
        self.queries = 0
        self.solver_s = 0.0
        self.branch_queries = 0
        self.paths = 0
        self.unknown = 0

    def asdict(self):
        return dict(self.__dict__)


STATS = Stats()


# --------------------------------------------------------------------------
# path state
# --------------------------------------------------------------------------
class Path:
    """State of one execution: decisions, path condition, assumptions."""

    def __init__(self, prefix=(), branch_timeout_ms=5000):
        self.prefix = list(prefix)
        self.decisions = []  # list of bool
        self.forced = []  # parallel: True if the other side was infeasible
        self.pc = []  # z3 bools: branch conditions taken
        self.assumes = []  # z3 bools: contracts of stubs (sqrt, mod, ...)
        self.domain = []  # z3 bools: domain conditions (divisor != 0, sqrt arg >= 0)
        self.domain_at = []  # (len(pc), len(assumes)) when each domain condition was recorded
        self.pending = []  # alternative prefixes discovered on this path
        self.trig = {}  # z3 term id -> (cos, sin)
        self.fresh = 0
        self.branch_timeout_ms = branch_timeout_ms
        self.notes = []
        self.apps = {}  # kind -> [(result var, argument term(s))] of contract-modelled functions
        self.keep = []  # keeps z3 terms alive whose ids are used as keys
        self.solver = None
        self.recip = False  # polynomial mode for division (reciprocal variables)
        self.witness = None  # concolic witness: a model of the current constraints
        self._nsolver = 0

    # fresh names are deterministic per path position so that re-execution
    # with a longer prefix produces the same terms
    def new(self, kind, sort="real"):
        self.fresh += 1
        name = f"{kind}!{self.fresh}"
        if sort == "real":
            return z3.Real(name)
        if sort == "int":
            return z3.Int(name)
        return z3.Bool(name)

    def assume(self, c):
        self.assumes.append(_z(c))

    def add_domain(self, c):
        self.domain.append(c)
        self.domain_at.append((len(self.pc), len(self.assumes)))

    def domain_obligations(self):
        """(condition, hypotheses) pairs: each domain condition must follow from what was known when it arose."""
        out = []
        for k, c in enumerate(self.domain):
            npc, nas = self.domain_at[k]
            out.append((c, self.pc[:npc] + self.assumes[:nas] + self.domain[:k]))
        return out

    def constraints(self):
        return self.pc + self.assumes + self.domain

    def _sync(self):
        cs = self.constraints()
        new = cs[self._nsolver:]
        self._nsolver = len(cs)
        # is the concolic witness still a model of everything?
        if self.witness is not None and new:
            for c in new:
                try:
                    if not z3.is_true(self.witness.eval(c, model_completion=True)):
                        self.witness = None
                        break
                except z3.Z3Exception:
                    self.witness = None
                    break

    def _query(self, cond):
        """(feasible?, model or None)"""
        # a fresh solver per query: z3's incremental (push/pop) mode uses a much weaker
        # arithmetic pipeline (measured: 5 s timeouts vs 0.02 s on the same mixed int/real query)
        sol = z3.Solver()
        sol.set("timeout", self.branch_timeout_ms)
        sol.add(*self.constraints())
        sol.add(cond)
        t0 = time.time()
        r = sol.check()
        STATS.solver_s += time.time() - t0
        STATS.branch_queries += 1
        m = sol.model() if str(r) == "sat" else None
        if str(r) == "unknown":
            STATS.unknown += 1
        return str(r) != "unsat", m

    def branch(self, cond):
        """Decide a symbolic condition on this path; fork when both sides are feasible."""
        cond = z3.simplify(cond)
        if z3.is_true(cond):
            return True
        if z3.is_false(cond):
            return False
        idx = len(self.decisions)
        if idx < len(self.prefix):
            d = self.prefix[idx]
            self.decisions.append(d)
            self.pc.append(cond if d else z3.Not(cond))
            return d
        self._sync()
        ncond = z3.Not(cond)
        wside = None
        if self.witness is not None:
            try:
                v = self.witness.eval(cond, model_completion=True)
                wside = True if z3.is_true(v) else (False if z3.is_false(v) else None)
            except z3.Z3Exception:
                wside = None
        models = {}
        if wside is True:
            can_t = True
            models[True] = self.witness
            can_f, models[False] = self._query(ncond)
        elif wside is False:
            can_f = True
            models[False] = self.witness
            can_t, models[True] = self._query(cond)
        else:
            can_t, models[True] = self._query(cond)
            can_f, models[False] = self._query(ncond)
        if can_t and can_f:
            self.pending.append(self.decisions + [False])
            d = True
        elif can_t:
            d = True
        elif can_f:
            d = False
        else:
            raise PathAbort("infeasible path")
        self.witness = models.get(d)
        self.decisions.append(d)
        self.pc.append(cond if d else z3.Not(cond))
        return d


_CUR = [None]


def cur() -> Path:
    p = _CUR[0]
    if p is None:
        raise RuntimeError("no active symbolic path")
    return p


class PathResult:
    def __init__(self, path, out=None, exc=None):
        self.path = path
        self.out = out
        self.exc = exc

    @property
    def constraints(self):
        return self.path.constraints()

    def __repr__(self):
        return f"<PathResult d={self.path.decisions} exc={self.exc!r}>"


class UnwindingFailure(Exception):
    """Exploration was cut by a bound: nothing may be claimed."""


def explore(fn, max_paths=256, max_depth=64, branch_timeout_ms=5000, catch=(Exception,), recip=False):
    """Run fn() on every feasible path.  fn builds its own symbolic inputs
    (deterministic names), returns any value.  Returns list[PathResult]."""
    results = []
    stack = [[]]
    while stack:
        prefix = stack.pop()
        if len(results) >= max_paths:
            raise UnwindingFailure(f"more than {max_paths} paths")
        p = Path(prefix, branch_timeout_ms)
        p.recip = recip
        _CUR[0] = p
        try:
            try:
                out = fn()
                res = PathResult(p, out=out)
            except PathAbort:
                res = None
            except catch as e:  # the analysed code raised
                res = PathResult(p, exc=e)
        finally:
            _CUR[0] = None
            p.solver = None
        if len(p.decisions) > max_depth:
            raise UnwindingFailure(f"branch depth > {max_depth}")
        for alt in p.pending:
            stack.append(alt)
        if res is not None:
            results.append(res)
            STATS.paths += 1
    return results


class single_path:
    """Context manager: straight-line symbolic execution (branching is an error
    unless the condition simplifies to a constant or is forced)."""

    def __init__(self, branch_timeout_ms=5000, recip=False):
        self.p = Path((), branch_timeout_ms)
        self.p.recip = recip

    def __enter__(self):
        self.prev = _CUR[0]
        _CUR[0] = self.p
        return self.p

    def __exit__(self, *a):
        _CUR[0] = self.prev
        self.p.solver = None
        if a[0] is None and self.p.pending:
            raise UnwindingFailure("single_path: code forked on a symbolic condition")
        return False


class resume:
    """Continue symbolic execution on an existing path (to derive further terms
    such as cos/sin of an angle the code returned)."""

    def __init__(self, path):
        self.p = path

    def __enter__(self):
        self.prev = _CUR[0]
        _CUR[0] = self.p
        self.n_pending = len(self.p.pending)
        return self.p

    def __exit__(self, *a):
        _CUR[0] = self.prev
        self.p.solver = None
        if a[0] is None and len(self.p.pending) != self.n_pending:
            raise UnwindingFailure("resume: forked on a symbolic condition")
        return False


# --------------------------------------------------------------------------
# conversions
# --------------------------------------------------------------------------
def _frac(x):
    if isinstance(x, bool):
        return Fraction(int(x))
    if isinstance(x, (int, np.integer)):
        return Fraction(int(x))
    if isinstance(x, (float, np.floating)):
        if x != x or x in (math.inf, -math.inf):
            raise Unsupported(f"non-finite constant {x}")
        return Fraction(float(x))
    if isinstance(x, Fraction):
        return x
    raise TypeError(type(x))


def rv(x):
    """z3 Real value of a python number (exact)."""
    f = _frac(x)
    return z3.RealVal(f"{f.numerator}/{f.denominator}") if f.denominator != 1 else z3.RealVal(f.numerator)


def _z(x):
    if isinstance(x, (SReal, SInt, SBool)):
        return x.t
    if isinstance(x, (bool, np.bool_)):
        return z3.BoolVal(bool(x))
    if isinstance(x, z3.ExprRef):
        return x
    return rv(x)


def _real_term(x):
    """z3 Real term of x, or None if x is not a scalar this engine knows."""
    if isinstance(x, SReal):
        return x.t
    if isinstance(x, SInt):
        return z3.ToReal(x.t)
    if isinstance(x, SBool):
        return z3.If(x.t, z3.RealVal(1), z3.RealVal(0))
    if isinstance(x, (bool, np.bool_)):
        return z3.RealVal(int(x))
    if isinstance(x, (int, float, np.integer, np.floating, Fraction)):
        return rv(x)
    if isinstance(x, np.ndarray) and x.ndim == 0:
        return _real_term(x.item())
    return None


# --------------------------------------------------------------------------
# SBool
# --------------------------------------------------------------------------
class SBool:
    __slots__ = ("t",)

    def __init__(self, t):
        self.t = t

    def __bool__(self):
        return cur().branch(self.t)

    def _o(self, o):
        if isinstance(o, SBool):
            return o.t
        if isinstance(o, (bool, np.bool_)):
            return z3.BoolVal(bool(o))
        return None

    def __and__(self, o):
        t = self._o(o)
        return NotImplemented if t is None else SBool(z3.And(self.t, t))

    __rand__ = __and__

    def __or__(self, o):
        t = self._o(o)
        return NotImplemented if t is None else SBool(z3.Or(self.t, t))

    __ror__ = __or__

    def __xor__(self, o):
        t = self._o(o)
        return NotImplemented if t is None else SBool(z3.Xor(self.t, t))

    __rxor__ = __xor__

    def __invert__(self):
        return SBool(z3.Not(self.t))

    def logical_not(self):
        return SBool(z3.Not(self.t))

    def logical_and(self, o):
        return self & o

    def logical_or(self, o):
        return self | o

    def __eq__(self, o):
        t = self._o(o)
        return NotImplemented if t is None else SBool(self.t == t)

    def __ne__(self, o):
        t = self._o(o)
        return NotImplemented if t is None else SBool(self.t != t)

    def __hash__(self):
        return hash(self.t)

    # comparisons with numbers (True > 0.0 etc.): via the 0/1 value
    def __gt__(self, o):
        return self._num() > o

    def __ge__(self, o):
        return self._num() >= o

    def __lt__(self, o):
        return self._num() < o

    def __le__(self, o):
        return self._num() <= o

    # arithmetic on booleans (numpy sums masks)
    def _num(self):
        return SInt(z3.If(self.t, z3.IntVal(1), z3.IntVal(0)))

    def __add__(self, o):
        return self._num() + o

    __radd__ = __add__

    def __mul__(self, o):
        return self._num() * o

    __rmul__ = __mul__

    def __repr__(self):
        return f"SBool({self.t})"


def sbool(x):
    if isinstance(x, SBool):
        return x
    return SBool(z3.BoolVal(bool(x)))


# --------------------------------------------------------------------------
# SReal
# --------------------------------------------------------------------------
class SReal:
    """Real-ideal scalar: a z3 Real term.  Python floats met on the way are
    taken at their exact rational value."""

    __slots__ = ("t",)

    def __init__(self, t):
        self.t = t if isinstance(t, z3.ExprRef) else rv(t)

    # --- arithmetic -----------------------------------------------------
    def _bin(self, o, f, rev=False):
        if isinstance(o, np.ndarray) and o.ndim > 0:
            return NotImplemented
        t = _real_term(o)
        if t is None:
            return NotImplemented
        return SReal(f(t, self.t) if rev else f(self.t, t))

    def __add__(self, o):
        return self._bin(o, lambda a, b: a + b)

    def __radd__(self, o):
        return self._bin(o, lambda a, b: a + b, True)

    def __sub__(self, o):
        return self._bin(o, lambda a, b: a - b)

    def __rsub__(self, o):
        return self._bin(o, lambda a, b: a - b, True)

    def __mul__(self, o):
        return self._bin(o, lambda a, b: a * b)

    def __rmul__(self, o):
        return self._bin(o, lambda a, b: a * b, True)

    @staticmethod
    def _div(a, b):
        b_s = z3.simplify(b)
        if z3.is_rational_value(b_s):
            if b_s.numerator_as_long() == 0:
                raise ZeroDivisionError("symbolic division by literal zero")
            return a / b_s
        p = cur()
        p.add_domain(b != 0)
        if p.recip:
            # polynomial mode: a/b := a * ib with the contract ib * b = 1 (one reciprocal variable per divisor term)
            key = ("recip", b_s.get_id())
            if key not in p.trig:
                ib = p.new("inv")
                p.assume(ib * b == 1)
                p.trig[key] = ib
                p.keep.append(b_s)
            return a * p.trig[key]
        return a / b

    def __truediv__(self, o):
        return self._bin(o, SReal._div)

    def __rtruediv__(self, o):
        return self._bin(o, SReal._div, True)

    def __neg__(self):
        return SReal(-self.t)

    def __pos__(self):
        return self

    def __abs__(self):
        return SReal(z3.If(self.t >= 0, self.t, -self.t))

    fabs = __abs__
    absolute = __abs__

    def __pow__(self, e):
        if isinstance(e, (SReal, SInt)):
            es = z3.simplify(_real_term(e))
            if not z3.is_rational_value(es):
                raise Unsupported("symbolic exponent")
            e = Fraction(es.numerator_as_long(), es.denominator_as_long())
        f = _frac(e)
        if f.denominator == 1:
            n = int(f)
            if n == 0:
                return SReal(1)
            r = self
            for _ in range(abs(n) - 1):
                r = r * self
            return r if n > 0 else 1 / r
        if f.denominator == 2:
            s = self.sqrt()
            return s ** int(f.numerator)
        raise Unsupported(f"power {e}")

    def __rpow__(self, b):
        raise Unsupported("symbolic exponent")

    def square(self):
        return self * self

    def reciprocal(self):
        return 1 / self

    def conjugate(self):
        return self

    def sqrt(self):
        s = z3.simplify(self.t)
        if z3.is_rational_value(s):
            f = Fraction(s.numerator_as_long(), s.denominator_as_long())
            if f >= 0:
                n, d = math.isqrt(f.numerator), math.isqrt(f.denominator)
                if n * n == f.numerator and d * d == f.denominator:
                    return SReal(Fraction(n, d))
        p = cur()
        key = ("sqrt", s.get_id())
        p.keep.append(s)
        if key in p.trig:
            return SReal(p.trig[key][0])
        r = p.new("sqrt")
        p.add_domain(self.t >= 0)
        p.assume(z3.And(r >= 0, r * r == self.t))
        p.trig[key] = (r, s)
        p.apps.setdefault("sqrt", []).append((r, self.t))
        return SReal(r)

    # --- comparisons ----------------------------------------------------
    def _cmp(self, o, f):
        if isinstance(o, np.ndarray) and o.ndim > 0:
            return NotImplemented
        t = _real_term(o)
        if t is None:
            return NotImplemented
        return SBool(f(self.t, t))

    def __lt__(self, o):
        return self._cmp(o, lambda a, b: a < b)

    def __le__(self, o):
        return self._cmp(o, lambda a, b: a <= b)

    def __gt__(self, o):
        return self._cmp(o, lambda a, b: a > b)

    def __ge__(self, o):
        return self._cmp(o, lambda a, b: a >= b)

    def __eq__(self, o):
        return self._cmp(o, lambda a, b: a == b)

    def __ne__(self, o):
        return self._cmp(o, lambda a, b: a != b)

    def __hash__(self):
        return hash(self.t)

    def __bool__(self):
        return cur().branch(self.t != 0)

    # --- rounding-ish ------------------------------------------------------
    def floor(self):
        return SReal(z3.ToReal(z3.ToInt(self.t)))

    def __floor__(self):
        return SInt(z3.ToInt(self.t))

    def _nearest_even(self):
        """round-half-to-even to an integer (what builtin round(x) and numpy.rint/round do), as an integer term"""
        h = self.t + z3.RealVal(1) / 2
        f = z3.ToInt(h)
        return z3.If(z3.And(z3.ToReal(f) == h, f % 2 != 0), f - 1, f)

    def __round__(self, ndigits=None):
        if ndigits is None:
            return SInt(self._nearest_even())
        if not isinstance(ndigits, int):
            raise Unsupported("round() with a symbolic number of digits")
        sc = z3.RealVal(10) ** ndigits if ndigits >= 0 else z3.RealVal(1) / (10 ** (-ndigits))
        return SReal(z3.ToReal(SReal(self.t * sc)._nearest_even()) / sc)

    def ceil(self):
        return SReal(-z3.ToReal(z3.ToInt(-self.t)))

    def trunc_int(self):
        t = self.t
        return SInt(z3.If(t >= 0, z3.ToInt(t), -z3.ToInt(-t)))

    def sign(self):
        return SReal(z3.If(self.t > 0, z3.RealVal(1), z3.If(self.t < 0, z3.RealVal(-1), z3.RealVal(0))))

    def _modk(self, m, floored):
        """self mod m for a literal positive modulus.

        Contract: floored remainder r = x - m*k, k integer, 0 <= r < m.  Because the floored
        remainder is m-periodic, whole multiples m*j (j an integer-valued term) are stripped from
        the argument first and applications with the same stripped argument share (r, k): the
        remainder of a + m*j is *the same term* as the remainder of a.  The truncated remainder
        (numpy.fmod) is expressed through the floored one: r if x >= 0 or r == 0 else r - m."""
        mt = z3.simplify(_real_term(m))
        if not z3.is_rational_value(mt) or mt.numerator_as_long() <= 0:
            raise Unsupported("modulus must be a positive literal")
        mf = Fraction(mt.numerator_as_long(), mt.denominator_as_long())
        p = cur()
        atoms, const = _lin(z3.simplify(self.t))
        whole = z3.IntVal(0)
        base = rv(const)
        for _i, (term, c) in sorted(atoms.items()):
            q = c / mf
            if q.denominator == 1 and z3.is_app(term) and term.decl().kind() == z3.Z3_OP_TO_REAL:
                whole = whole + int(q) * term.children()[0]
            else:
                base = base + rv(c) * term
        base = z3.simplify(base)
        key = ("mod", base.get_id(), str(mf))
        p.keep.append(base)
        if key in p.trig:
            r, k0 = p.trig[key]
        else:
            k0 = p.new("turn", "int")
            r = p.new("rem")
            p.assume(z3.And(r == base - mt * z3.ToReal(k0), r >= 0, r < mt))
            p.trig[key] = (r, k0)
            if mf == TWOPI_F:
                p.trig[("alias", r.get_id())] = base
                p.keep.append(r)
        k = z3.simplify(k0 + whole)
        p.apps.setdefault("mod", []).append((r, k, self.t, mt))
        if floored:
            return SReal(r)
        return SReal(z3.If(z3.Or(self.t >= 0, r == 0), r, r - mt))

    def __mod__(self, m):
        if isinstance(m, np.ndarray) and m.ndim > 0:
            return NotImplemented
        return self._modk(m, True)

    def remainder(self, m):
        return self._modk(m, True)

    def fmod(self, m):
        return self._modk(m, False)

    # --- trigonometry (angle algebra) -------------------------------------
    def cos(self):
        return SReal(trig(self.t)[0])

    def sin(self):
        return SReal(trig(self.t)[1])

    def tan(self):
        c, s = trig(self.t)
        return SReal(s) / SReal(c)

    def arccos(self):
        p = cur()
        a = p.new("acos")
        u = self.t
        p.add_domain(z3.And(u >= -1, u <= 1))
        s = (1 - self * self).sqrt()
        p.assume(z3.And(a >= 0, a <= rv(PI_F)))
        # the end points are pinned so that range reasoning is exact there
        p.assume(z3.Implies(u == 1, a == 0))
        p.assume(z3.Implies(u == -1, a == rv(PI_F)))
        p.assume(z3.Implies(a == 0, u == 1))
        p.assume(z3.Implies(a == rv(PI_F), u == -1))
        p.assume(z3.Implies(u == 0, a == rv(PI_F / 2)))
        p.assume((u > 0) == (a < rv(PI_F / 2)))
        p.trig[("atom", a.get_id())] = (u, s.t)
        p.keep.append(a)
        # strictly decreasing (hence functional): instantiated against every earlier application on this path
        for a2, u2 in p.apps.setdefault("arccos", []):
            p.assume(z3.And((u < u2) == (a > a2), (u == u2) == (a == a2)))
        p.apps["arccos"].append((a, u))
        return SReal(a)

    def arcsin(self):
        p = cur()
        a = p.new("asin")
        u = self.t
        p.add_domain(z3.And(u >= -1, u <= 1))
        c = (1 - self * self).sqrt()
        h = rv(PI_F / 2)
        p.assume(z3.And(a >= -h, a <= h))
        p.assume((u == 1) == (a == h))
        p.assume((u == -1) == (a == -h))
        p.assume((u == 0) == (a == 0))
        p.assume((u > 0) == (a > 0))
        p.trig[("atom", a.get_id())] = (c.t, u)
        p.keep.append(a)
        for a2, u2 in p.apps.setdefault("arcsin", []):
            p.assume(z3.And((u < u2) == (a < a2), (u == u2) == (a == a2)))
        p.apps["arcsin"].append((a, u))
        return SReal(a)

    def arctan2(self, x):
        """self = y."""
        y = self
        xt = _real_term(x)
        if xt is None:
            return NotImplemented
        x = SReal(xt)
        p = cur()
        if (x == 0) & (y == 0):
            return SReal(0)
        r = (x * x + y * y).sqrt()
        a = p.new("atan2")
        pi = rv(PI_F)
        h = rv(PI_F / 2)
        p.assume(z3.And(a > -pi, a <= pi))
        p.assume(r.t > 0)
        c = x.t / r.t
        s = y.t / r.t
        # quadrant facts (exact)
        p.assume((y.t > 0) == z3.And(a > 0, a < pi))
        p.assume((y.t < 0) == z3.And(a < 0))
        p.assume(z3.Implies(y.t == 0, z3.If(x.t > 0, a == 0, a == pi)))
        p.assume((x.t > 0) == z3.And(a > -h, a < h))
        p.assume((x.t == 0) == z3.Or(a == h, a == -h))
        p.trig[("atom", a.get_id())] = (c, s)
        p.keep.append(a)
        for a2, (c2, s2) in p.apps.setdefault("arctan2", []):
            p.assume(z3.Implies(z3.And(c == c2, s == s2), a == a2))
        p.apps["arctan2"].append((a, (c, s)))
        return SReal(a)

    def rint(self):
        # round half to even
        t = self.t
        f = z3.ToInt(t)
        fr = t - z3.ToReal(f)
        even = (f % 2) == 0
        return SReal(z3.ToReal(z3.If(fr < rv(Fraction(1, 2)), f, z3.If(fr > rv(Fraction(1, 2)), f + 1, z3.If(even, f, f + 1)))))

    def isnan(self):
        return False

    def isfinite(self):
        return True

    def __repr__(self):
        return f"SReal({self.t})"

    # forbid silent concretisation
    def __float__(self):
        raise Unsupported("float() of a symbolic value (shadow `float` in the analysed module)")

    def __int__(self):
        raise Unsupported("int() of a symbolic value (shadow `int` in the analysed module)")

    def __index__(self):
        raise Unsupported("symbolic value used as an index")


def _lin(t):
    """Decompose a z3 real term into ({atom_id: (atom, Fraction)}, const Fraction)
    as far as it is linear with rational coefficients; other sub-terms are atoms."""
    t = z3.simplify(t, som=True) if False else t
    atoms = {}
    const = [Fraction(0)]

    def add(term, coef):
        if z3.is_rational_value(term):
            const[0] += coef * Fraction(term.numerator_as_long(), term.denominator_as_long())
            return
        if z3.is_int_value(term):
            const[0] += coef * term.as_long()
            return
        k = term.decl().kind() if z3.is_app(term) else None
        if k == z3.Z3_OP_ADD:
            for c in term.children():
                add(c, coef)
            return
        if k == z3.Z3_OP_SUB:
            ch = term.children()
            add(ch[0], coef)
            for c in ch[1:]:
                add(c, -coef)
            return
        if k == z3.Z3_OP_UMINUS:
            add(term.children()[0], -coef)
            return
        if k == z3.Z3_OP_MUL:
            ch = term.children()
            num = Fraction(1)
            rest = []
            for c in ch:
                cs = c
                if z3.is_rational_value(cs):
                    num *= Fraction(cs.numerator_as_long(), cs.denominator_as_long())
                elif z3.is_int_value(cs):
                    num *= cs.as_long()
                else:
                    rest.append(c)
            if len(rest) == 0:
                const[0] += coef * num
                return
            if len(rest) == 1:
                add(rest[0], coef * num)
                return
        if k == z3.Z3_OP_DIV:
            a, b = term.children()
            if z3.is_rational_value(b):
                add(a, coef / Fraction(b.numerator_as_long(), b.denominator_as_long()))
                return
        i = term.get_id()
        if i in atoms:
            atoms[i] = (term, atoms[i][1] + coef)
        else:
            atoms[i] = (term, coef)

    add(t, Fraction(1))
    return {i: v for i, v in atoms.items() if v[1] != 0}, const[0]


def _atom_trig(p, term):
    """(cos, sin) of an atomic angle term."""
    i = term.get_id()
    p.keep.append(term)
    if z3.is_app(term) and term.decl().kind() == z3.Z3_OP_ITE:
        cnd, a, b = term.children()
        (ca, sa), (cb, sb) = trig(a), trig(b)
        return z3.If(cnd, ca, cb), z3.If(cnd, sa, sb)
    if ("alias", i) in p.trig:
        return trig(p.trig[("alias", i)])
    if ("atom", i) in p.trig:
        return p.trig[("atom", i)]
    c = p.new("cos")
    s = p.new("sin")
    p.assume(c * c + s * s == 1)
    p.trig[("atom", i)] = (c, s)
    p.notes.append(("angle", str(term), str(c), str(s)))
    return c, s


def declare_angle(a, c=None, s=None):
    """Register the (cos, sin) pair of an angle variable; returns (c, s) as z3 terms."""
    p = cur()
    t = a.t if isinstance(a, SReal) else a
    if c is None:
        return _atom_trig(p, t)
    ct = c.t if isinstance(c, SReal) else c
    st = s.t if isinstance(s, SReal) else s
    p.trig[("atom", t.get_id())] = (ct, st)
    return ct, st


def identify(a, b):
    """Trusted fact about real angles, instantiated for the pair (a, b):
    equal cosine and sine  =>  a - b is a whole number of turns."""
    p = cur()
    a = a.t if isinstance(a, SReal) else _real_term(a)
    b = b.t if isinstance(b, SReal) else _real_term(b)
    ca, sa = trig(a)
    cb, sb = trig(b)
    k = p.new("ident", "int")
    p.assume(z3.Implies(z3.And(ca == cb, sa == sb), a - b == rv(TWOPI_F) * z3.ToReal(k)))
    return (ca, sa), (cb, sb)


def identify_lemma(a, b):
    """Two-stage use of the same trusted fact: returns (premise, conclusion).  The harness first
    *proves* the premise (equal cos and sin, a ring identity) and then uses the conclusion
    (a - b is a whole number of turns) as a lemma for the linear part."""
    p = cur()
    a = a.t if isinstance(a, SReal) else _real_term(a)
    b = b.t if isinstance(b, SReal) else _real_term(b)
    ca, sa = trig(a)
    cb, sb = trig(b)
    k = p.new("ident", "int")
    return z3.And(ca == cb, sa == sb), a - b == rv(TWOPI_F) * z3.ToReal(k)


def trig(t):
    """(cos t, sin t) as z3 terms, by the addition formulas over the linear
    structure of t: integer multiples of atoms plus a multiple of pi/2."""
    p = cur()
    ts = z3.simplify(t)
    key = ("trig", ts.get_id())
    p.keep.append(ts)
    if key in p.trig:
        return p.trig[key]
    if z3.is_app(ts) and ts.decl().kind() == z3.Z3_OP_ITE:
        cnd, a, b = ts.children()
        (ca, sa), (cb, sb) = trig(a), trig(b)
        res = (z3.If(cnd, ca, cb), z3.If(cnd, sa, sb))
        p.trig[key] = res
        return res
    atoms, const = _lin(ts)
    # whole turns: 2*pi*j with j an integer-valued term do not change (cos, sin)
    for i, (term, k) in list(atoms.items()):
        if z3.is_app(term) and term.decl().kind() == z3.Z3_OP_TO_REAL and (k / TWOPI_F).denominator == 1:
            del atoms[i]
    q = const / (PI_F / 2)
    ok = q.denominator == 1 and all(v[1].denominator == 1 and abs(v[1]) <= 8 for v in atoms.values())
    if not ok:
        if not atoms:
            raise Unsupported(f"trig of the constant {float(const)} (not a multiple of pi/2)")
        res = _atom_trig(p, ts)
        p.trig[key] = res
        return res
    c, s = z3.RealVal(1), z3.RealVal(0)

    def addang(c, s, c2, s2):
        return z3.simplify(c * c2 - s * s2), z3.simplify(s * c2 + c * s2)

    for _i, (term, k) in sorted(atoms.items()):
        ca, sa = _atom_trig(p, term)
        k = int(k)
        if k < 0:
            sa = -sa
            k = -k
        for _ in range(k):
            c, s = addang(c, s, ca, sa)
    n = int(q) % 4
    cq, sq = [(1, 0), (0, 1), (-1, 0), (0, -1)][n]
    c, s = addang(c, s, z3.RealVal(cq), z3.RealVal(sq))
    p.trig[key] = (c, s)
    return c, s


# --------------------------------------------------------------------------
# SInt
# --------------------------------------------------------------------------
class SInt:
    __slots__ = ("t",)

    def __init__(self, t):
        self.t = t if isinstance(t, z3.ExprRef) else z3.IntVal(int(t))

    @staticmethod
    def _it(o):
        if isinstance(o, SInt):
            return o.t
        if isinstance(o, (bool, np.bool_)):
            return z3.IntVal(int(o))
        if isinstance(o, (int, np.integer)):
            return z3.IntVal(int(o))
        if isinstance(o, SBool):
            return z3.If(o.t, z3.IntVal(1), z3.IntVal(0))
        return None

    def _bin(self, o, f, rev=False):
        if isinstance(o, np.ndarray) and o.ndim > 0:
            return NotImplemented
        t = self._it(o)
        if t is not None:
            return SInt(f(t, self.t) if rev else f(self.t, t))
        rt = _real_term(o)
        if rt is None:
            return NotImplemented
        me = z3.ToReal(self.t)
        return SReal(f(rt, me) if rev else f(me, rt))

    def __add__(self, o):
        return self._bin(o, lambda a, b: a + b)

    def __radd__(self, o):
        return self._bin(o, lambda a, b: a + b, True)

    def __sub__(self, o):
        return self._bin(o, lambda a, b: a - b)

    def __rsub__(self, o):
        return self._bin(o, lambda a, b: a - b, True)

    def __mul__(self, o):
        return self._bin(o, lambda a, b: a * b)

    def __rmul__(self, o):
        return self._bin(o, lambda a, b: a * b, True)

    def __truediv__(self, o):
        return SReal(z3.ToReal(self.t)) / o

    def __rtruediv__(self, o):
        return o / SReal(z3.ToReal(self.t)) if not isinstance(o, (int, float)) else SReal(o) / SReal(z3.ToReal(self.t))

    def __floordiv__(self, o):
        t = self._it(o)
        if t is None:
            return NotImplemented
        ts = z3.simplify(t)
        if z3.is_int_value(ts) and ts.as_long() > 0:
            return SInt(self.t / ts)  # z3 int division is floor for positive divisor
        cur().add_domain(t != 0)
        q = self.t / t
        adj = z3.If(z3.And(t < 0, self.t % t != 0), q - 1, q)  # Euclidean -> floor
        return SInt(adj)

    def __mod__(self, o):
        t = self._it(o)
        if t is None:
            return NotImplemented
        ts = z3.simplify(t)
        if z3.is_int_value(ts) and ts.as_long() > 0:
            return SInt(self.t % ts)
        cur().add_domain(t != 0)
        r = self.t % t
        return SInt(z3.If(z3.And(t < 0, r != 0), r + t, r))

    def __neg__(self):
        return SInt(-self.t)

    def __pos__(self):
        return self

    def __abs__(self):
        return SInt(z3.If(self.t >= 0, self.t, -self.t))

    def __pow__(self, e):
        if isinstance(e, (int, np.integer)) and e >= 0:
            r = SInt(1)
            for _ in range(int(e)):
                r = r * self
            return r
        return SReal(z3.ToReal(self.t)) ** e

    def _cmp(self, o, f):
        if isinstance(o, np.ndarray) and o.ndim > 0:
            return NotImplemented
        t = self._it(o)
        if t is not None:
            return SBool(f(self.t, t))
        rt = _real_term(o)
        if rt is None:
            return NotImplemented
        return SBool(f(z3.ToReal(self.t), rt))

    def __lt__(self, o):
        return self._cmp(o, lambda a, b: a < b)

    def __le__(self, o):
        return self._cmp(o, lambda a, b: a <= b)

    def __gt__(self, o):
        return self._cmp(o, lambda a, b: a > b)

    def __ge__(self, o):
        return self._cmp(o, lambda a, b: a >= b)

    def __eq__(self, o):
        return self._cmp(o, lambda a, b: a == b)

    def __ne__(self, o):
        return self._cmp(o, lambda a, b: a != b)

    def __hash__(self):
        return hash(self.t)

    def __bool__(self):
        return cur().branch(self.t != 0)

    def __index__(self):
        return self.concretize()

    def __int__(self):
        return self.concretize()

    def concretize(self, lo=None, hi=None):
        """Fork over the feasible concrete values of this integer (bounded)."""
        s = z3.simplify(self.t)
        if z3.is_int_value(s):
            return s.as_long()
        p = cur()
        # enumerate by repeated branching on == model value
        for _ in range(64):
            sol = z3.Solver()
            sol.set("timeout", p.branch_timeout_ms)
            sol.add(*p.constraints())
            rs = str(sol.check())
            if rs == "unknown":
                raise UnwindingFailure("concretize: solver gave no verdict")
            if rs != "sat":
                raise PathAbort("concretize: no model")
            v = sol.model().eval(self.t, model_completion=True).as_long()
            if p.branch(self.t == v):
                return v
        raise UnwindingFailure("concretize: more than 64 values")

    def sqrt(self):
        return SReal(z3.ToReal(self.t)).sqrt()

    def __repr__(self):
        return f"SInt({self.t})"


# --------------------------------------------------------------------------
# helpers to build inputs
# --------------------------------------------------------------------------
def assume(*conds):
    """Precondition of the harness, active from here on (prunes infeasible branches early)."""
    p = cur()
    for c in conds:
        p.assume(c.t if isinstance(c, SBool) else c)


def real(name):
    return SReal(z3.Real(name))


def integer(name):
    return SInt(z3.Int(name))


def boolean(name):
    return SBool(z3.Bool(name))


def reals(prefix, *shape):
    a = np.empty(shape, dtype=object)
    for idx in np.ndindex(*shape):
        a[idx] = SReal(z3.Real(prefix + "_" + "_".join(map(str, idx))))
    return a


def bools(prefix, *shape):
    a = np.empty(shape, dtype=object)
    for idx in np.ndindex(*shape):
        a[idx] = SBool(z3.Bool(prefix + "_" + "_".join(map(str, idx))))
    return a


def const_array(x):
    """Object array of exact SReal constants from a numeric array."""
    x = np.asarray(x)
    a = np.empty(x.shape, dtype=object)
    for idx in np.ndindex(*x.shape):
        a[idx] = SReal(x[idx])
    return a


def terms(arr):
    """Flat list of z3 terms of an array/scalar of proxies or numbers."""
    if isinstance(arr, (SReal, SInt, SBool)):
        return [arr.t if not isinstance(arr, SInt) else z3.ToReal(arr.t)]
    a = np.asarray(arr, dtype=object)
    out = []
    for x in a.ravel():
        t = _real_term(x)
        if t is None:
            raise TypeError(f"not a scalar: {x!r}")
        out.append(t)
    return out


def eq_arrays(a, b):
    """z3 conjunction: arrays a and b are element-wise equal (shapes must match)."""
    sa, sb = np.shape(a), np.shape(b)
    if sa != sb:
        raise ValueError(f"shape mismatch {sa} vs {sb}")
    return z3.And(*[x == y for x, y in zip(terms(a), terms(b))]) if terms(a) else z3.BoolVal(True)


def close_arrays(a, b, tol):
    sa, sb = np.shape(a), np.shape(b)
    if sa != sb:
        raise ValueError(f"shape mismatch {sa} vs {sb}")
    tl = rv(tol)
    return z3.And(*[z3.And(x - y <= tl, y - x <= tl) for x, y in zip(terms(a), terms(b))])


# --------------------------------------------------------------------------
# model extraction
# --------------------------------------------------------------------------
def mval(model, t):
    """Python value (Fraction / bool / int) of a term in a model."""
    if isinstance(t, (SReal, SInt, SBool)):
        t = t.t
    v = model.eval(t, model_completion=True)
    if z3.is_true(v):
        return True
    if z3.is_false(v):
        return False
    if z3.is_int_value(v):
        return v.as_long()
    if z3.is_rational_value(v):
        return Fraction(v.numerator_as_long(), v.denominator_as_long())
    if z3.is_algebraic_value(v):
        a = v.approx(30)
        return Fraction(a.numerator_as_long(), a.denominator_as_long())
    raise Unsupported(f"cannot evaluate {t} -> {v}")


def mfloat(model, t):
    v = mval(model, t)
    return float(v) if not isinstance(v, bool) else v


def marray(model, arr):
    a = np.asarray(arr, dtype=object)
    out = np.empty(a.shape, dtype=float)
    for idx in np.ndindex(*a.shape):
        out[idx] = float(mval(model, _real_term(a[idx])))
    return out


# --------------------------------------------------------------------------
# solving
# --------------------------------------------------------------------------
class Verdict:
    def __init__(self, status, model=None, secs=0.0, reason=""):
        self.status = status  # 'unsat' | 'sat' | 'unknown'
        self.model = model
        self.secs = secs
        self.reason = reason

    def __repr__(self):
        return f"<{self.status} {self.secs:.2f}s {self.reason}>"


def solve(constraints, timeout_ms=30000, tactic=None):
    """One SMT query.  Returns Verdict."""
    if tactic:
        s = z3.Tactic(tactic).solver()
    else:
        s = z3.Solver()
    s.set("timeout", int(timeout_ms))
    for c in constraints:
        s.add(c)
    t0 = time.time()
    try:
        r = s.check()
    except z3.Z3Exception as e:
        STATS.queries += 1
        STATS.solver_s += time.time() - t0
        return Verdict("unknown", None, time.time() - t0, f"z3 error {e}")
    dt = time.time() - t0
    STATS.queries += 1
    STATS.solver_s += dt
    rs = str(r)
    if rs == "sat":
        return Verdict("sat", s.model(), dt)
    if rs == "unsat":
        return Verdict("unsat", None, dt)
    STATS.unknown += 1
    return Verdict("unknown", None, dt, s.reason_unknown())


def free_vars(t):
    seen, out, stack = set(), set(), [t]
    while stack:
        e = stack.pop()
        i = e.get_id()
        if i in seen:
            continue
        seen.add(i)
        if z3.is_const(e) and e.decl().kind() == z3.Z3_OP_UNINTERPRETED:
            out.add(str(e))
        else:
            stack.extend(e.children())
    return out


def slice_for(goal, constraints):
    """Constraint slicing: keep only the constraints all of whose variables occur in the goal.
    Dropping constraints is sound for proving (unsat stays valid); a sat answer from a sliced
    query is only a candidate."""
    V = free_vars(goal)
    return [c for c in constraints if free_vars(c) <= V]


def refute(goal, constraints, timeout_ms=30000, tactic=None):
    """Is there a value satisfying constraints and violating goal?"""
    return solve(list(constraints) + [z3.Not(goal)], timeout_ms, tactic)
