"""C07 - tasking decisions are feasible and optimal in the sense each policy documents."""
from __future__ import annotations

import itertools

import numpy as np
import z3

from symx.core import SBool, SInt, SReal, assume, bools, cur, explore, integer, mfloat, mval, real, reals, rv
from symx.runner import Ob
from symx.stubs import shadow, sym_zeros

ID = "C07"
TECHNIQUE = ("the real decision policies (greedy, Munkres, random, all-visible), Decision.calculate, Reward.normalizeMetrics and the reward formulas are "
             "executed on symbolic reward entries (z3 Real) and symbolic visibility bits (z3 Bool); numpy's argmax/where/any/nonzero fork the exploration; "
             "for each path and each matrix shape z3 proves feasibility/optimality (unsat) or returns a reward/visibility matrix replayed on the real code")
FLOAT_SEMANTICS = "exact real arithmetic on the reward entries (only comparisons and sums matter)"
ENCODED = [
    "resonaate.tasking.decisions.decision_base:Decision.calculate",
    "resonaate.tasking.decisions.decisions:MyopicNaiveGreedyDecision._calculate", "resonaate.tasking.decisions.decisions:MunkresDecision._calculate",
    "resonaate.tasking.decisions.decisions:RandomDecision._calculate", "resonaate.tasking.decisions.decisions:AllVisibleDecision._calculate",
    "resonaate.tasking.rewards.reward_base:Reward.normalizeMetrics", "resonaate.tasking.rewards.rewards:CostConstrainedReward.calculate",
    "resonaate.tasking.rewards.rewards:SimpleSummationReward.calculate", "resonaate.tasking.rewards.rewards:CombinedReward.calculate",
    "resonaate.tasking.engine.centralized_engine:CentralizedTaskingEngine.calculateRewards",
    "resonaate.tasking.engine.centralized_engine:CentralizedTaskingEngine.generateTasking",
]
BOUNDS = {"shapes": "all (targets x sensors) shapes 1..3 x 1..3 (quick), up to 4x3 / 3x4 (thorough; random policy up to 4x2 / 2x4: its choice forks multiply the paths)",
          "rewards": "arbitrary reals incl. negative, zero and tied values", "metrics": "2x2 (summation) or 1x2 (cost-constrained, combined) target-sensor grid, all metric planes, delta in (0,1)"}
OUTSIDE = ["scipy's Hungarian algorithm itself (contract stub)", "shapes above 4x3 / 3x4 (4x4 has 65536 visibility patterns, one path each: beyond the path budget)", "metric values (Fisher information, Lyapunov exponents ...)"]
ASSUMPTIONS = ["scipy.optimize.linear_sum_assignment(R, maximize) -> a complete assignment (min(T,S) pairs, distinct rows/columns) that is optimal for the requested "
               "sense; which optimal one is returned on ties is chosen by the solver",
               "Generator.choice(idx, 1) -> a solver-chosen element of idx", "relabelling is claimed for tie-free columns (greedy) / unique optimum (Munkres): first-index tie-breaking is inherent"]
LEVEL_TEXT = ("Bounded symbolic verification over all reward/visibility matrices of each small shape: feasibility (decision within visibility, one target per sensor, "
              "one sensor per target), optimality and relabelling are proved for every real-valued matrix, ties and negative rewards included; exhaustive over shapes within the bound.")
LEVEL_NOTE = "Shapes bounded; Hungarian solver replaced by its optimality contract; Random generator replaced by an arbitrary choice."


def _tb(x):
    if isinstance(x, SBool):
        return x.t
    return z3.BoolVal(bool(x))


def _tr(x):
    if isinstance(x, SReal):
        return x.t
    if isinstance(x, SInt):
        return z3.ToReal(x.t)
    return rv(x)


def _dec_terms(D):
    return [[_tb(D[i, j]) for j in range(D.shape[1])] for i in range(D.shape[0])]


def _count(bs):
    return z3.Sum([z3.If(b, 1, 0) for b in bs]) if bs else z3.IntVal(0)


# --------------------------------------------------------------------------------
# stubs
# --------------------------------------------------------------------------------
def lsa_stub(cost, maximize=False):
    """Contract of scipy.optimize.linear_sum_assignment: an optimal complete assignment."""
    C = np.asarray(cost, dtype=object)
    T, S = C.shape
    k = min(T, S)
    cands = []
    if T <= S:
        for cols in itertools.permutations(range(S), k):
            cands.append((tuple(range(T)), cols))
    else:
        for rows in itertools.permutations(range(T), k):
            # scipy returns rows sorted
            pairs = sorted(zip(rows, range(S)))
            cands.append((tuple(p[0] for p in pairs), tuple(p[1] for p in pairs)))
    tot = [sum((C[r, c] for r, c in zip(rows, cols)), SReal(0)) for rows, cols in cands]
    # solver-chosen optimal candidate: fork over "candidate i is optimal"
    p = cur()
    for i, (rows, cols) in enumerate(cands):
        best = z3.And(*[(_tr(tot[i]) >= _tr(t)) if maximize else (_tr(tot[i]) <= _tr(t)) for t in tot])
        if i == len(cands) - 1 or p.branch(best):
            if i == len(cands) - 1:
                p.assume(best)
            return np.array(rows), np.array(cols)
    raise AssertionError


class ChoiceStub:
    def choice(self, a, size=None):
        a = np.asarray(a)
        k = integer(f"choice_{cur().fresh}")
        cur().fresh += 1
        assume(k.t >= 0, k.t < len(a))
        i = k.concretize()
        return np.array([a[i]])


# --------------------------------------------------------------------------------
# replays
# --------------------------------------------------------------------------------
def _mk(policy):
    from resonaate.tasking.decisions import decisions as D

    return {"greedy": D.MyopicNaiveGreedyDecision, "munkres": D.MunkresDecision, "allvisible": D.AllVisibleDecision}[policy]()


def _real_engine(dec, T, S):
    """A real CentralizedTaskingEngine (real constructor; database connection and executors are not needed for generateTasking) for T targets and S sensors."""
    from resonaate.tasking.engine import centralized_engine as CE
    from resonaate.tasking.engine import engine_base as EB

    class _None:
        def __init__(self, *a, **k):
            pass

    with shadow(EB, getDBConnection=lambda: _None()), shadow(CE, TaskingRewardExecutor=_None, TaskExecutionExecutor=_None):
        return CE.CentralizedTaskingEngine(1, [200 + j for j in range(S)], [100 + i for i in range(T)], _mk_reward("sum", _metrics("sum"), 0.5), dec, None, True)


def _via_engine(dec, R, V):
    """The decision as the engine takes it: the real generateTasking() on an engine whose reward / visibility matrices are R, V."""
    eng = _real_engine(dec, *np.shape(R))
    eng.reward_matrix, eng.visibility_matrix = R, V
    eng.generateTasking()
    return eng.decision_matrix


def replay_decision(d):
    R, V = np.array(d["R"], dtype=float), np.array(d["V"], dtype=bool)
    pol = d["policy"]
    if pol == "random":
        from resonaate.tasking.decisions.decisions import RandomDecision

        dec = RandomDecision(seed=d.get("seed", 1))
    else:
        dec = _mk(pol)
    out = _via_engine(dec, R.copy(), V.copy()) if d.get("via") == "engine" else dec.calculate(R, V)
    if np.shape(out) != R.shape:
        return True, {"decision shape": list(np.shape(out))}
    T, S = R.shape
    bad = []
    if (out & ~V).any():
        bad.append("tasked an invisible pair")
    if pol in ("greedy", "munkres", "random") and (out.sum(axis=0) > 1).any():
        bad.append("sensor tasked to more than one target")
    if pol == "random" and ((out.sum(axis=0) == 0) & V.any(axis=0)).any():
        bad.append("random policy: a sensor with a visible target is not tasked")
    if pol == "munkres" and (out.sum(axis=1) > 1).any():
        bad.append("target tasked to more than one sensor")
    if pol == "allvisible" and (out != V).any():
        bad.append("all-visible differs from visibility")
    if pol == "greedy":
        for j in range(S):
            i = int(np.argmax(R[:, j]))
            want = V[:, j] & (np.arange(T) == i)
            # the sensor's tasked target must have the column maximum
            for ii in range(T):
                if out[ii, j] and R[ii, j] < R[:, j].max():
                    bad.append(f"sensor {j} not given its highest-reward target")
            if V[i, j] and not out[:, j].any() and (R[:, j] == R[:, j].max()).sum() == 1:
                bad.append(f"sensor {j}: best target visible but not tasked")
    if pol == "munkres" and d.get("via") == "engine":
        from resonaate.tasking.decisions.decisions import MunkresDecision

        if (out != (MunkresDecision()._calculate(R, V) & V)).any():
            bad.append("engine decision differs from the assignment masked by visibility")
    if pol == "munkres":
        k = min(T, S)
        best = max(sum(R[r, c] for r, c in zip(rows, cols)) for rows in itertools.permutations(range(T), k) for cols in itertools.combinations(range(S), k))
        from scipy.optimize import linear_sum_assignment

        # pre-mask choice as the real implementation computes it
        from resonaate.tasking.decisions.decisions import MunkresDecision

        pre = MunkresDecision()._calculate(R, V)
        tot = R[pre].sum()
        if pre.sum() != k or (pre.sum(axis=0) > 1).any() or (pre.sum(axis=1) > 1).any():
            bad.append("pre-mask choice is not a complete one-to-one assignment")
        if tot < best - 1e-9 * max(1, abs(best)):
            bad.append(f"assignment total {tot} below optimum {best}")
    return bool(bad), {"decision": out.astype(int).tolist(), "problems": bad}


# --------------------------------------------------------------------------------
# obligations
# --------------------------------------------------------------------------------
def _inputs(T, S, policy, via="policy"):
    def f(m):
        return {"policy": policy, "via": via, "R": [[mfloat(m, z3.Real(f"R_{i}_{j}")) for j in range(S)] for i in range(T)],
                "V": [[bool(mval(m, z3.Bool(f"V_{i}_{j}"))) for j in range(S)] for i in range(T)]}

    return f


def o_policy(rep, policy, T, S, pin=None, via="policy"):
    """pin: a visibility pattern of the first row fixed for this obligation (the 2^S patterns are shared out over 2^S obligations).
    via = "engine": the decision is taken from the real CentralizedTaskingEngine.generateTasking() (decision_matrix) instead of the policy object."""
    from resonaate.tasking.decisions import decisions as D

    def run():
        R, V = reals("R", T, S), bools("V", T, S)
        if pin is not None:
            from symx.core import assume
            assume(*[(V[0, j].t if b else z3.Not(V[0, j].t)) for j, b in enumerate(pin)])
        if policy == "greedy":
            dec = D.MyopicNaiveGreedyDecision()
        elif policy == "munkres":
            dec = D.MunkresDecision()
        elif policy == "allvisible":
            dec = D.AllVisibleDecision()
        else:
            dec = D.RandomDecision(seed=1)
            dec._seed = ChoiceStub()
        with shadow(D, linear_sum_assignment=lsa_stub):
            pre = dec._calculate(R, V) if policy == "munkres" else None
            out = dec.calculate(R, V) if via == "policy" else _via_engine(dec, R, V)
        return R, V, out, pre

    res = explore(run, max_paths=9000, max_depth=200)
    rep.note(f"{policy} {T}x{S}: paths={len(res)}")
    inputs = _inputs(T, S, policy, via)
    n = 0
    for r in res:
        if r.exc is not None:
            rep.error("exception", f"{policy} {T}x{S}: {r.exc!r}")
            continue
        R, V, out, pre = r.out
        if np.shape(out) != (T, S):
            rep.error("shape", f"decision shape {np.shape(out)}")
            continue
        Dt = _dec_terms(out)
        Vt = [[_tb(V[i, j]) for j in range(S)] for i in range(T)]
        Rt = [[_tr(R[i, j]) for j in range(S)] for i in range(T)]
        goals = [z3.And(*[z3.Implies(Dt[i][j], Vt[i][j]) for i in range(T) for j in range(S)])]
        if policy in ("greedy", "munkres", "random"):
            goals.append(z3.And(*[_count([Dt[i][j] for i in range(T)]) <= 1 for j in range(S)]))
        if policy == "munkres":
            goals.append(z3.And(*[_count([Dt[i][j] for j in range(S)]) <= 1 for i in range(T)]))
            Pt = _dec_terms(pre)
            k = min(T, S)
            goals.append(_count([Pt[i][j] for i in range(T) for j in range(S)]) == k)
            goals.append(z3.And(*[_count([Pt[i][j] for i in range(T)]) <= 1 for j in range(S)] + [_count([Pt[i][j] for j in range(S)]) <= 1 for i in range(T)]))
            tot = z3.Sum([z3.If(Pt[i][j], Rt[i][j], 0) for i in range(T) for j in range(S)])
            for rows in itertools.permutations(range(T), k):
                for cols in itertools.combinations(range(S), k):
                    goals.append(tot >= z3.Sum([Rt[a][b] for a, b in zip(rows, cols)]))
            # decision == pre-mask choice AND visibility
            goals.append(z3.And(*[Dt[i][j] == z3.And(Pt[i][j], Vt[i][j]) for i in range(T) for j in range(S)]))
        if policy == "allvisible":
            goals.append(z3.And(*[Dt[i][j] == Vt[i][j] for i in range(T) for j in range(S)]))
        if policy == "greedy":
            for j in range(S):
                for i in range(T):
                    # a tasked target has the column maximum; the (first) maximum is tasked iff visible
                    goals.append(z3.Implies(Dt[i][j], z3.And(*[Rt[i][j] >= Rt[a][j] for a in range(T)])))
                strict = [z3.And(*[Rt[i][j] > Rt[a][j] for a in range(T) if a != i]) for i in range(T)]
                for i in range(T):
                    goals.append(z3.Implies(z3.And(strict[i], Vt[i][j]), Dt[i][j]))
        if policy == "random":
            for j in range(S):
                goals.append(z3.Implies(z3.Or(*[Vt[i][j] for i in range(T)]), _count([Dt[i][j] for i in range(T)]) == 1))
        n += 1
        rep.prove(f"{policy}[{T}x{S}]#{n}", z3.And(*goals), r.constraints, inputs=inputs, replay=replay_decision if (policy != "random" or via == "engine") else None,
                  sample=f"{policy} {T}x{S}: decision within visibility, per-sensor/target uniqueness, optimality clauses")
    if n == 0:
        rep.error("reach", "no path")


def o_relabel(rep, policy, T, S):
    """Permuting targets (rows) / sensors (columns) permutes the decision (tie-free / unique optimum)."""
    from resonaate.tasking.decisions import decisions as D

    perms_r = [p for p in itertools.permutations(range(T)) if p != tuple(range(T))][:2]
    perms_c = [p for p in itertools.permutations(range(S)) if p != tuple(range(S))][:2]
    cases = [(pr, tuple(range(S))) for pr in perms_r] + [(tuple(range(T)), pc) for pc in perms_c]
    for pr, pc in cases:
        def run(pr=pr, pc=pc):
            R, V = reals("R", T, S), bools("V", T, S)
            # tie-free: all entries of a column distinct (greedy); all assignment totals distinct (munkres)
            if policy == "greedy":
                for j in range(S):
                    for a, b in itertools.combinations(range(T), 2):
                        assume(R[a, j].t != R[b, j].t)
            else:
                k = min(T, S)
                tots = []
                for rows in itertools.permutations(range(T), k):
                    for cols in itertools.combinations(range(S), k):
                        tots.append(z3.Sum([R[a, b].t for a, b in zip(rows, cols)]))
                for a, b in itertools.combinations(range(len(tots)), 2):
                    assume(tots[a] != tots[b])
            dec = D.MyopicNaiveGreedyDecision() if policy == "greedy" else D.MunkresDecision()
            R2 = R[np.array(pr)][:, np.array(pc)]
            V2 = V[np.array(pr)][:, np.array(pc)]
            with shadow(D, linear_sum_assignment=lsa_stub):
                o1 = dec.calculate(R, V)
                o2 = dec.calculate(R2, V2)
            return o1, o2

        res = explore(run, max_paths=9000, max_depth=200)
        n = 0
        for r in res:
            if r.exc is not None:
                rep.error("exception", repr(r.exc))
                continue
            o1, o2 = r.out
            goal = z3.And(*[_tb(o2[i, j]) == _tb(o1[pr[i], pc[j]]) for i in range(T) for j in range(S)])
            n += 1
            rep.prove(f"relabel-{policy}[{T}x{S}]rows{pr}cols{pc}#{n}", goal, r.constraints, sample=f"{policy}: relabelling rows {pr} / columns {pc} relabels the decision")
        if n == 0:
            rep.error("reach", "no path")


# --------------------------------------------------------------------------------
def replay_reward(d):
    from resonaate.tasking.rewards import rewards as RW

    mets = _metrics(d["kind"])
    M = np.array(d["M"], dtype=float)
    rw = _mk_reward(d["kind"], mets, d["delta"])
    N = rw.normalizeMetrics(M.copy())
    bad = []
    for k in range(M.shape[2]):
        mx = M[..., k].max()
        if mx > 0 and N[..., k].max() > 1 + 1e-12:
            bad.append(f"plane {k} not normalised")
        if mx <= 0 and (N[..., k] != M[..., k]).any():
            bad.append(f"plane {k} changed although its maximum is not positive")
    out = rw.calculate(N)
    exp = _reward_formula(d["kind"], N, d["delta"])
    if np.abs(np.asarray(out, dtype=float).reshape(exp.shape) - exp).max() > 1e-9:
        bad.append("reward differs from documented formula")
    return bool(bad), {"problems": bad}


def _metrics(kind):
    from resonaate.tasking.metrics import metric_base as MB

    def mk(base):
        return type("M_" + base.__name__, (base,), {"calculate": lambda self, e, s: 0.0})()

    order = {"cost": [MB.StabilityMetric, MB.InformationMetric, MB.SensorMetric], "sum": [MB.InformationMetric, MB.SensorMetric],
             "combined": [MB.StabilityMetric, MB.InformationMetric, MB.SensorMetric, MB.TargetMetric]}[kind]
    return [mk(b) for b in order]


def _mk_reward(kind, mets, delta):
    from resonaate.tasking.rewards import rewards as RW

    if kind == "cost":
        return RW.CostConstrainedReward(mets, delta=delta)
    if kind == "sum":
        return RW.SimpleSummationReward(mets)
    return RW.CombinedReward(mets, delta=delta)


def _reward_formula(kind, N, delta):
    if kind == "sum":
        return N.sum(axis=2)
    r = delta * (np.sign(N[..., 0]) + N[..., 1]) - (1 - delta) * N[..., 2]
    if kind == "combined":
        r = r + N[..., 3]
    return r


def o_rewards(rep, kind, T=2, S=2):
    K = {"cost": 3, "sum": 2, "combined": 4}[kind]

    def run():
        M = reals("M", T, S, K)
        delta = real("delta")
        assume(delta.t > 0, delta.t < 1)
        rw = _mk_reward(kind, _metrics(kind), delta)
        M0 = M.copy()
        N = rw.normalizeMetrics(M)
        N0 = N.copy()
        out = rw.calculate(N)
        return M0, N0, out, delta

    res = explore(run, max_paths=6000, max_depth=400)
    rep.note(f"{kind}: paths={len(res)}")

    def inputs(m):
        return {"kind": kind, "delta": mfloat(m, z3.Real("delta")), "M": [[[mfloat(m, z3.Real(f"M_{i}_{j}_{k}")) for k in range(K)] for j in range(S)] for i in range(T)]}

    n = 0
    for r in res:
        if r.exc is not None:
            rep.error("exception", repr(r.exc))
            continue
        M0, N0, out, delta = r.out
        goals = []
        for k in range(K):
            ents = [_tr(M0[i, j, k]) for i in range(T) for j in range(S)]
            nents = [_tr(N0[i, j, k]) for i in range(T) for j in range(S)]
            haspos = z3.Or(*[e > 0 for e in ents])
            goals.append(z3.Implies(haspos, z3.And(z3.And(*[e <= 1 for e in nents]), z3.Or(*[e == 1 for e in nents]))))
            goals.append(z3.Implies(z3.Not(haspos), z3.And(*[a == b for a, b in zip(ents, nents)])))
            # ordering inside a plane is preserved
        o = np.asarray(out, dtype=object).reshape(T, S)
        for i in range(T):
            for j in range(S):
                nv = [_tr(N0[i, j, k]) for k in range(K)]
                if kind == "sum":
                    exp = z3.Sum(nv)
                else:
                    sg = z3.If(nv[0] > 0, z3.RealVal(1), z3.If(nv[0] < 0, z3.RealVal(-1), z3.RealVal(0)))
                    exp = delta.t * (sg + nv[1]) - (1 - delta.t) * nv[2]
                    if kind == "combined":
                        exp = exp + nv[3]
                goals.append(_tr(o[i, j]) == exp)
        n += 1
        rep.prove(f"reward-{kind}#{n}", z3.And(*goals), r.constraints, inputs=inputs, replay=replay_reward,
                  sample=f"{kind}: metric planes normalised to max 1 when positive, untouched otherwise; reward = documented formula")
    if n == 0:
        rep.error("reach", "no path")


REPLAYS = {}


def obligations(tier):
    obs = []
    shapes = [(t, s) for t in (1, 2, 3) for s in (1, 2, 3)]
    big = [(4, 2), (2, 4), (4, 3), (3, 4)] if tier == "thorough" else []  # 4x4 has 2^16 visibility patterns = paths: beyond the path budget
    for pol in ("greedy", "allvisible", "random", "munkres"):
        extra = big if pol in ("greedy", "allvisible") else ([(4, 2), (2, 4)] if pol == "random" and tier == "thorough" else ([(3, 4), (4, 3)] if tier == "thorough" else []))
        for (T, S) in shapes + extra:
            if T * S >= 9 and pol in ("random", "allvisible", "munkres"):
                # many paths: one obligation per visibility pattern of the first row (together: all matrices)
                import itertools

                for pat in itertools.product((False, True), repeat=S):
                    name = f"{pol}-{T}x{S}-row0-" + "".join("1" if b else "0" for b in pat)
                    obs.append(Ob(name, (lambda a: lambda rep: o_policy(rep, *a))((pol, T, S, pat)), f"{pol} policy on all {T}x{S} matrices whose first visibility row is {pat}", 900))
                    REPLAYS[name] = replay_decision
                continue
            name = f"{pol}-{T}x{S}"
            obs.append(Ob(name, (lambda a: lambda rep: o_policy(rep, *a))((pol, T, S)), f"{pol} policy on all {T}x{S} matrices", 900))
            REPLAYS[name] = replay_decision
    for pol in ("greedy", "allvisible", "random", "munkres"):
        for (T, S) in ((1, 1), (2, 2), (1, 2), (2, 1)) + (((3, 2), (2, 3)) if tier == "thorough" else ()):
            name = f"engine-{pol}-{T}x{S}"
            obs.append(Ob(name, (lambda a: lambda rep: o_policy(rep, *a, via="engine"))((pol, T, S)),
                          f"the decision matrix the real CentralizedTaskingEngine.generateTasking() stores, {pol} policy, all {T}x{S} reward/visibility matrices", 900))
            REPLAYS[name] = replay_decision
    for pol, T, S in (("greedy", 3, 2), ("greedy", 2, 3), ("munkres", 2, 2), ("munkres", 3, 2)) + ((("munkres", 3, 3), ("greedy", 3, 3)) if tier == "thorough" else ()):
        obs.append(Ob(f"relabel-{pol}-{T}x{S}", (lambda a: lambda rep: o_relabel(rep, *a))((pol, T, S)), "relabelling targets/sensors relabels the decision", 900))
    for kind in ("sum", "cost", "combined"):
        name = f"reward-{kind}"
        obs.append(Ob(name, (lambda k: lambda rep: o_rewards(rep, k, *((2, 2) if k == "sum" else (1, 2))))(kind), f"normalizeMetrics + {kind} reward formula", 900))
        REPLAYS[name] = replay_reward
    return obs


BOUNDS["engine path"] = "engine-* obligations: the decision matrix stored by the real CentralizedTaskingEngine.generateTasking (real engine constructor) for all reward/visibility matrices of shapes 1x1, 1x2, 2x1, 2x2 (thorough 3x2, 2x3), all four policies"
