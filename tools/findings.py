#!/venv/bin/python
"""Regenerates section 11 of DESIGN.md (defects found and repaired) from known_findings.json and /repo's log.
Run tools/findings.py, tools/seedtable.py, tools/asbuilt.py in this order (each rewrites its own section at the end of DESIGN.md)."""
import json, re, subprocess
k = json.load(open('/verif/known_findings.json'))
log = subprocess.check_output(["git", "-C", "/repo", "log", "--format=%h %s"]).decode().splitlines()
subj = {l.split()[0]: " ".join(l.split()[1:]) for l in log}
order = [l.split()[0] for l in log]
rows = []
for f in k['fixed']:
    m = re.match(r"fixed: property=(C\d+) (\w+) (.*)", f)
    p, h, txt = m.groups()
    rows.append((h, p, subj.get(h, "?"), txt))
rows.sort(key=lambda r: -order.index(r[0]) if r[0] in order else 0)
out = ["", "---", "", "## 11. Genuine defects found and repaired", "",
       f"{len(rows)} entries. Every entry below was a violation of a listed property on the then-current tree, shown with a concrete input against the real",
       "code (almost always as a `VIOLATION` of a check with its replay; the three marked *direct call* were demonstrated by calling the real",
       "function, because the effect is double rounding or lies in a region the obligations only covered after the repair). Each repair is one",
       "unguarded `fix:` commit in /repo (full test-suite run on a scratch worktree before committing: only the baseline non-passing items), and",
       "is recorded in `known_findings.json` as `fixed:` (which suppresses nothing). `findings` in that file is empty: nothing is left",
       "recorded-but-unrepaired.", "",
       "| commit | property | what failed (input / call site) |", "|---|---|---|"]
for h, p, s, txt in rows:
    out.append(f"| `{h}` {s.replace('fix: ', '')} | {p} | {txt.replace('|', '/')} |")
out += ["",
        "Observations that are *not* counted as violations of a listed property (no alarm is raised for them): `TwoBody` ignores finite",
        "thrust (a finite burn is inert under two-body truth dynamics); two finite thrusts that touch (end == start) lose the second one and two",
        "impulses of one agent at the identical instant are applied once (scipy reports only the first of two simultaneous terminal events);",
        "the hyperbolic branch of `lambertBattin` has `sqrt(s / -2.0 * sma)` (precedence slip; outside C20's bound orbits); `ECIStateConfig`",
        "rejects most ground sites (|r| > Earth radius), so a `SensorAdditionEvent` for them raises; `elevation_range` is documented as order",
        "independent but `isVisible` treats it as [low, high]; `Optical.isVisible` passes the norm of the 6-d state difference as range to the",
        "visual-magnitude model (1e-4 mag); `_applyEvents` uses column 0's state for every column of a batch (state-dependent events in",
        "batches); `solveKeplerProblemUniversal` leaves `chi` unbound for alpha exactly +-1e-6; `tests/integration/...::testDetectScheduledFiniteBurn[True]`",
        "is randomly seeded and fails about once in 40 runs on the original tree as well.", ""]
s = open('/verif/DESIGN.md').read()
mark = "\n---\n\n## 11. Genuine defects"
if mark in s:
    s = s[:s.index(mark)]
open('/verif/DESIGN.md', 'w').write(s + "\n".join(out))
print(len(rows))
