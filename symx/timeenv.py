"""Runs the repository's time code (stardate, conversions, clock, scenario stepping) on symbolic doubles.

`JulianDate` and `ScenarioTime` subclass `float`; a proxy cannot be a float, so the *real
method bodies* of both classes are re-based onto SFloat (types.new_class with the real
class's __dict__), and the names `JulianDate, ScenarioTime, float, int, round, floor,
remainder, around, datetime, timedelta` are shadowed in the modules that use them for the
duration of a run.  __repr__/__str__ of the two classes (they format through julianDateToDatetime and are only
used in log messages) are not carried over.  Nothing in /repo is edited.
"""
from __future__ import annotations

import contextlib
import importlib
import types

from . import fp
from .dtmodel import DatetimeModule, SDateTime, STimeDelta
from .stubs import shadow

_SKIP = {"__repr__", "__str__", "__dict__", "__weakref__", "__module__", "__doc__", "__qualname__", "__firstlineno__", "__static_attributes__"}


def rebase(real_cls, base=fp.SFloat):
    body = {k: v for k, v in real_cls.__dict__.items() if k not in _SKIP}

    def fill(ns):
        ns.update(body)
        ns["__slots__"] = ()
        ns["__module__"] = real_cls.__module__

    return types.new_class(real_cls.__name__, (base,), exec_body=fill)


@contextlib.contextmanager
def time_env(extra_modules=()):
    """Shadow the time-related names; yields a namespace with the re-based classes."""
    SD = importlib.import_module("resonaate.physics.time.stardate")
    CV = importlib.import_module("resonaate.physics.time.conversions")
    JD = rebase(SD.JulianDate)
    ST = rebase(SD.ScenarioTime)
    ns = types.SimpleNamespace(JulianDate=JD, ScenarioTime=ST, stardate=SD, conversions=CV, datetime=SDateTime, timedelta=STimeDelta)
    common = {"JulianDate": JD, "ScenarioTime": ST}
    with contextlib.ExitStack() as st:
        st.enter_context(shadow(SD, float=fp.fp_float, int=fp.fp_int, round=fp.fp_round, floor=fp.fp_floor, remainder=fp.fp_remainder,
                                datetime=SDateTime, timedelta=STimeDelta, **common))
        st.enter_context(shadow(CV, float=fp.fp_float, int=fp.fp_int, floor=fp.fp_floor, remainder=fp.fp_remainder, datetime=DatetimeModule,
                                JulianDate=JD, julianDateToDatetime=SD.julianDateToDatetime))
        for name, kw in extra_modules:
            mod = importlib.import_module(name)
            names = dict(kw)
            for k in ("JulianDate", "ScenarioTime"):
                if k in mod.__dict__:
                    names.setdefault(k, common[k])
            if "datetime" in mod.__dict__ and "datetime" not in names:
                names["datetime"] = SDateTime if isinstance(mod.__dict__["datetime"], type) else DatetimeModule
            if "timedelta" in mod.__dict__:
                names.setdefault("timedelta", STimeDelta)
            st.enter_context(shadow(mod, **names))
        yield ns
