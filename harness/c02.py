"""C02 - reported observations satisfy all sensor constraints; misses state a true reason.

The subject is the *pipeline* (collectObservations -> canSlew -> attemptObservation -> inFieldOfView -> isVisible chain,
asyncExecuteTasking's loop body, predictObservation, Measurement.calculateMeasurement / Observation.fromMeasurement).
The geometry primitives (range, azimuth, elevation, line of sight, FoV membership, solar flux, visual magnitude, ...)
are solver variables handed to the real code by module-global shadowing; the oracle is an independent conjunction over
the same primitives written from the documented constraint semantics.
"""
from __future__ import annotations

import datetime as _dt
import math
import types

import numpy as np
import z3

from symx.core import PI_F, TWOPI_F, SBool, SInt, SReal, Unsupported, Verdict, _real_term, assume, cur, explore, free_vars, mfloat, mval, real, refute, rv, solve
from symx.ext_c02 import Gram, lin_getitem, lin_ufunc
from symx.runner import Ob
from symx.stubs import shadow

ID = "C02"
TECHNIQUE = ("the real Sensor.collectObservations/attemptObservation/canSlew/deltaBoresight/isVisible, Radar/AdvRadar/Optical.isVisible, "
             "Radar.maximumRangeTo, asyncExecuteTasking (loop body, ray.get = identity), predictObservation, Measurement.calculateMeasurement and "
             "Observation.fromMeasurement are executed on real Optical/Radar/AdvRadar objects whose parameters (masks, range limits, slew rate, "
             "limiting magnitude, radar range factor, prior boresight, time last tasked) are z3 variables; every geometry primitive "
             "(slant-range vector, range, azimuth, elevation, line of sight, FoV membership, slew angle, solar flux, visual magnitude, galactic "
             "exclusion, Sun cone, Earth limb, site darkness, radar cross-section root) is a z3 variable per (sensor, target) handed in by "
             "module-global shadowing; all paths are explored by re-execution; per path z3 proves that the returned Observation / "
             "MissedObservation objects, boresight and time_last_tasked agree with an independent conjunction over the same primitives "
             "(unsat = for every value of the primitives and parameters); counterexamples are replayed on the float code.  vismag-* obligations: the "
             "limiting-magnitude step of Optical.isVisible is not a primitive there - the real calculatePhaseAngle -> subtendedAngle and "
             "apparentVisualMagnitude run on symbolic Sun / target / sensor position vectors and the oracle decides the constraint from those "
             "positions alone (cosine of the angle at the target between the directions to the Sun and to the sensor against the limit's).  los-* / "
             "sun-* obligations: the line-of-sight step of Sensor.isVisible resp. the Sun-exclusion step of Optical.isVisible is not a primitive there - the "
             "real lineOfSight resp. the real direction arithmetic of Optical.isVisible and checkSpaceSensorLightingConditions run on symbolic sensor / "
             "target / Sun positions (formal vectors with a Gram cut: dot products and norms of linear combinations of the positions are polynomials "
             "in the entries of their Gram matrix, which are the solver variables) and the oracle decides the constraint from the positions alone "
             "(closest point of the segment sensor-target to the geocentre against the Earth's radius; angle between the line of sight and the Sun "
             "direction against 15 degrees)")
FLOAT_SEMANTICS = ("exact real arithmetic over the primitives (comparisons of primitives with limits; two products: slew_rate*(t - t_last), rcs^(1/4)*aux); "
                   "vismag-*: exact real arithmetic over the position vectors with sqrt / arccos / phase-function / log10 contracts; los-* / sun-*: exact real "
                   "arithmetic over the Gram entries of the positions with sqrt / arccos contracts; the oracle there has a tolerance band (1 km^2 on the squared "
                   "closest-approach distance, 1e-9 on the cosine of the Sun angle) inside which either answer of the code is accepted")
ENCODED = [
    "resonaate.sensors.sensor_base:Sensor.collectObservations",
    "resonaate.sensors.sensor_base:Sensor.attemptObservation",
    "resonaate.sensors.sensor_base:Sensor.isVisible",
    "resonaate.sensors.sensor_base:Sensor.canSlew",
    "resonaate.sensors.sensor_base:Sensor.deltaBoresight",
    "resonaate.sensors.radar:Radar.isVisible",
    "resonaate.sensors.radar:Radar.maximumRangeTo",
    "resonaate.sensors.advanced_radar:AdvRadar",
    "resonaate.sensors.optical:Optical.isVisible",
    "resonaate.physics.sensor_utils:lineOfSight",
    "resonaate.physics.sensor_utils:checkSpaceSensorLightingConditions",
    "resonaate.physics.sensor_utils:calculatePhaseAngle",
    "resonaate.physics.maths:subtendedAngle",
    "resonaate.physics.sensor_utils:apparentVisualMagnitude",
    "resonaate.parallel.tasking_execution:asyncExecuteTasking._function",
    "resonaate.tasking.predictions:predictObservation",
    "resonaate.physics.measurements:Measurement.calculateMeasurement",
    "resonaate.physics.measurements:Azimuth.calculate",
    "resonaate.physics.measurements:Elevation.calculate",
    "resonaate.physics.measurements:Range.calculate",
    "resonaate.physics.measurements:RangeRate.calculate",
    "resonaate.physics.measurements:getRange",
    "resonaate.physics.measurements:getRangeRate",
    "resonaate.data.observation:Observation.fromMeasurement",
    "resonaate.data.observation:Observation.__init__",
    "resonaate.data.observation:MissedObservation.__init__",
]
BOUNDS = {
    "sensor kinds": "Optical, Radar, AdvRadar; ground-facility and spacecraft hosts",
    "targets": "1 primary + 1 background target (quick); thorough: 1 primary + 2 background targets for radar/advanced radar with symbolic masks and for "
               "optical with full-sky masks (optical with symbolic masks: 1 background); asyncExecuteTasking: 1 tasked sensor + 1 background (quick), "
               "additionally 2 tasked sensors + 1 background with full-sky masks (thorough)",
    "parameters": "any az mask in [0,2pi]^2 (wrapping or not), el mask -pi/2 <= el0 <= el1 <= pi/2, 0 <= minimum_range <= maximum_range (thorough: also "
                  "None), slew rate >= 0, any t_last <= t_now, any limiting magnitude, radar range factor >= 0, any prior boresight",
    "primitives": "any range > 0, azimuth in [0,2pi), elevation in [-pi/2,pi/2], slew angle in [0,pi], any truth values / reals for the others",
    "vismag-* (limiting magnitude on real geometry)": "optical, ground and space hosts, full-sky masks, no minimum range; any Sun / target / sensor positions with "
                                                     "Sun != target != sensor and phase angle < pi; any area > 0 and reflectivity > 0; relative velocity of "
                                                     "target and sensor zero; range primitive and length of the slant-range vector of the reference target = distance of the positions; any limiting magnitude that the reference target reaches at some phase angle in "
                                                     "(0, pi) (given as ulim = cosine of that phase angle, -1 < ulim < 1); the limit is parametrised against one "
                                                     "target per scene: the primary (collect, 0 background), the single background target (collect, primary's "
                                                     "magnitude a free variable) or the estimate (predict); quick: 3 of the 6 host/scene combinations",
    "los-* (line of sight on real geometry)": "space radar / space optical (thorough: also ground optical, ground advanced radar), full-sky masks, no minimum range; any "
                                              "sensor and target positions (collect: primary + 1 background target, both decided on their positions; predict: the "
                                              "estimate) at or beyond the Earth's reference radius from the geocentre, sensor != target; all other primitives free",
    "sun-* (Sun exclusion on real geometry)": "space optical, full-sky masks, no minimum range; any Sun / target / sensor positions with Sun != target != sensor != Sun; "
                                              "one target per scene decided on the positions: the primary (collect, 0 background), the estimate (predict), thorough: "
                                              "the single background target; all other primitives free; cone angle: the documented default pi/12",
    "epochs": "O5 measurement epoch: four concrete instants (incl. non-zero seconds); everything else does not depend on the epoch value",
}
OUTSIDE = [
    "the numeric values of the primitives (range/az/el/LoS/FoV/flux/vismag/galactic/lighting/limb are C14/C04's subject; here they are free variables) - except "
    "the limiting magnitude in vismag-*, the line of sight in los-* and the Sun cone of space sensors in sun-*, which are decided on the positions",
    "los-* / sun-*: the other primitives of the same target (range, azimuth, elevation, FoV membership, flux, ...) stay free variables that are not tied to the "
    "positions; answers of the code inside the oracle's tolerance band (closest approach within 1 km^2 of the squared Earth radius, cosine of the Sun angle within 1e-9 of "
    "cos 15 deg: < vs <= at the threshold is not distinguished); sensor or target inside the Earth's reference sphere (ground sites at high latitude on the "
    "ellipsoid: lineOfSight assumes a spherical Earth); a Sun cone angle other than the default; the parallax between the Sun direction seen from the target "
    "(code) and from the sensor (docstring): an answer that is right under either reading is accepted",
    "noise statistics ('within the sensor's stated noise' is distributional): the noise draw is pinned to zero (collect) or left arbitrary and "
    "required not to enter (noise-off paths)",
    "sensor time-bias events (host.sensor_time_bias_event_queue is empty): _applyTimeBias is not executed",
    "completeness for background targets (a visible background target in the FoV is not required to be reported)",
    "the rows written to the observations / missed_observations tables (C09)",
    "el_mask given in decreasing order (the config calls it order independent, Sensor.isVisible treats it as [low, high]); assumed el0 <= el1",
    "Optical.isVisible hands apparentVisualMagnitude the norm of the 6-d state difference as range (position+velocity); numeric effect ~1e-4 mag, not checked "
    "(vismag-* assume zero relative velocity, where the two coincide)",
    "vismag-*: the numeric form of the phase function and of the magnitude formula: the proof uses only that the magnitude of a given target at a given range grows "
    "strictly with the phase angle (contracts below); a change that shifts or rescales the magnitude (wrong constant, offset on the limit) is seen by "
    "collect-/predict-optical-* through the free magnitude variable, here it can end in a candidate that does not reproduce (reported as harness error, never as "
    "a pass); limits brighter than the reference target at phase angle 0; phase angle exactly pi (log10 of 0)",
    "more than 2 background targets / more than 2 tasked sensors per job",
]
ASSUMPTIONS = [
    "getSlantRangeVector (sensor_base, predictions, measurements) -> one symbolic 6-vector per (sensor, target); the call's arguments (which sensor "
    "state, which target state, which epoch) are recorded and checked",
    "getRange/getAzimuth/getElevation/getRangeRate of that vector -> one variable each in their documented ranges (O5 keeps the real getRange/getRangeRate)",
    "lineOfSight, FieldOfView.inFieldOfView (stub FieldOfView subclass keyed by (pointing, target)), subtendedAngle (slew angle, 0 when both "
    "arguments are the same direction), calculateIncidentSolarFlux, calculatePhaseAngle, lambertianPhaseFunction, apparentVisualMagnitude, "
    "checkGalacticExclusionZone, checkSpaceSensorLightingConditions, checkSpaceSensorEarthLimbObscuration, checkGroundSensorLightingConditions, "
    "Sun.getPosition, scipy norm (sensor_base, optical) -> free variables per (sensor, target) / per sensor; the epoch Sun.getPosition is asked for is recorded "
    "and must be the host's Julian date",
    "vismag-* scenes, reference target only: calculatePhaseAngle / subtendedAngle / apparentVisualMagnitude / scipy norm are NOT stubbed; numpy arccos -> engine "
    "contract (angle in [0, pi] with the given cosine, strictly decreasing, functional); scipy norm -> non-negative root of the sum of squares; "
    "maths.safeArccos -> arccos (they differ only beyond +-1, which a normalised dot product does not reach in exact arithmetic); "
    "lambertianPhaseFunction -> G(phi): functional, strictly decreasing on [0, pi], > 0 below pi, 0 at pi (true of 2((pi-phi)cos(phi)+sin(phi))/(3 pi^2): derivative "
    "-2(pi-phi)sin(phi)/(3 pi^2)); numpy log10 (sensor_utils) -> functional, strictly increasing; domain conditions met on the way are assumed (divisors != 0, "
    "log10 argument > 0, arccos argument in [-1, 1])",
    "vismag-* limit: detectable_vismag := m_sun - 2.5 log10(A rho G(arccos(ulim)) / R^2) of the reference target (harness's own formula, R = distance of the position "
    "vectors); oracle in the proof: (Sun - target).(sensor - target) / (|Sun - target| |sensor - target|) >= ulim; oracle in the replay: the explicit Lambertian-sphere "
    "magnitude at the phase angle computed from the positions, compared with the limit; the replay runs the unstubbed chain",
    "vismag-* solver use: the geometric conjuncts are asked in a portfolio (z3 default, nlsat alone, with the recorded domain facts dropped, reversed order; any unsat "
    "is conclusive, sat only from the complete set); one query per conjunct of a goal, constraints cut to the conjunct's cone of influence (constraints sharing no variable, transitively, with "
    "the goal are dropped: they are over other variables and satisfiable on a feasible path); counterexample search only: a candidate is first looked for with the "
    "reference target at the origin, the sensor on the x axis and the Sun in the x-y plane, and is replayed like any other",
    "los-* / sun-* scenes: lineOfSight (los-*, every target of the scene) / checkSpaceSensorLightingConditions (sun-*, reference target) are NOT stubbed.  The "
    "positions are formal vectors over base vectors (los: the sensor and target positions themselves; sun: R = target, D = Sun - target, B = target - sensor, i.e. "
    "Sun = R + D, sensor = R - B - a re-parametrisation of three free positions); differences, scalings, divisions by a scalar and the slice [:3] done by the code "
    "are followed on the expansion; numpy dot / scipy norm in sensor_utils and scipy norm in optical applied to 3-vectors with an expansion -> the bilinear form in "
    "the Gram variables G_x_y resp. its non-negative root (engine sqrt contract; norm**2 -> the form itself); Gram variables constrained by: diagonal > 0, "
    "Cauchy-Schwarz per pair, 3x3 determinant >= 0 (exactly the Gram matrices of vectors in R^3; a model is turned into coordinates by an eigen-decomposition); "
    "an operation that is not followed falls through to the coordinate terms and ties the Gram variables to the coordinates; a scalar built from coordinates outside "
    "dot / norm and then used as a coefficient is not tied (can only produce a candidate that does not reproduce = harness error, never a pass)",
    "los-* preconditions: |sensor|^2, |target|^2 >= Earth.radius^2, |target - sensor|^2 > 0; Earth.radius is the repository's constant (also in the oracle); "
    "domain conditions met on the way (divisors != 0, arccos argument in [-1, 1]) are assumed",
    "sun-* arccos: engine contract (angle in [0, pi] with the given cosine, strictly decreasing, functional) pinned on a 5 degree grid and at pi/12: for a grid angle g, "
    "u >= cos(g) + 1e-12 => arccos(u) < g and u <= cos(g) - 1e-12 => arccos(u) > g (cos(g) in double arithmetic, error < 1e-15)",
    "los-* / sun-* oracle: line of sight <=> a + 2 l (c - a) + l^2 (a + b - 2c) >= R^2 with a = |sensor|^2, b = |target|^2, c = sensor.target, l = clamp((a - c) / (a + b - 2c), "
    "0, 1) (projection of the geocentre onto the segment, parametrised from the sensor; the code parametrises from the target); Sun exclusion <=> cosine of the angle "
    "between target - sensor and Sun - target (or Sun - sensor) <= cos(pi/12); replay: the same on float coordinates, real lineOfSight / "
    "checkSpaceSensorLightingConditions un-stubbed",
    "los-* / sun-* solver use: one query per conjunct of a goal; first with the constraints over the goal's variables only, then with the cone of influence without the "
    "3x3 determinant fact, then with the full cone (dropping hypotheses only weakens them: any unsat is conclusive; sat is only taken from the full cone)",
    "calculateRadarCrossSection -> q^4 with q >= 0 a variable and (q^4)**0.25 = q (non-negative fourth root)",
    "norm(pointing[:3]) = n > 0 with n^2 = |pointing[:3]|^2 (used only by the boresight obligation)",
    "numpy.random (measurements) -> zero draw in collectObservations runs, arbitrary symbolic draw in the noise-off runs",
    "ray.get -> identity",
    "host: plain object with eci_state, time, julian_date_epoch, datetime_epoch, simulation_id, agent_type, empty sensor_time_bias_event_queue",
    "replay: level 1 uses the real getRange/getAzimuth/getElevation/subtendedAngle on constructed vectors, level 2 answers them with the model's values; "
    "all other primitives are answered with the model's values at the same shadow points",
]
LEVEL_TEXT = ("Bounded symbolic verification of the observation pipeline: for every sensor kind and host kind, every path through the real "
              "collectObservations / asyncExecuteTasking / predictObservation code is executed with all geometry primitives and sensor parameters "
              "as solver variables, and z3 proves per path that every reported observation satisfies every constraint, that the primary target "
              "gets exactly one of {observation, miss}, that a miss names a constraint that fails, that background targets never produce misses, "
              "and that boresight / time_last_tasked move iff the slew test passes.  Right level because the claim is control/data flow over "
              "many constraint combinations (a few hundred paths per sensor kind), which sampling geometries cannot cover.")
LEVEL_NOTE = ("Primitives are free variables (their geometry is C14/C04) except the limiting-magnitude step in the vismag-* obligations (phase angle from the "
              "positions; phase function / log10 by monotonicity contracts), the line-of-sight step in los-* and the Sun-cone step in sun-* (real code on formal "
              "position vectors, Gram cut); up to 2 background targets / 2 sensors; noise statistics, time bias events, "
              "database rows outside; replay answers most primitives with model values at the shadow points.")

FINDING_BG_NOSLEW = "C02-background-without-slew"

PI = rv(PI_F)
TWOPI = rv(TWOPI_F)
HALFPI = rv(PI_F / 2)

TGT_TAGS = ("T0", "T1", "T2", "E")
JD_DT = _dt.datetime(2021, 3, 30, 16, 0, 1)


# ----------------------------------------------------------------------------------------------------------------------
# generic logic helpers: the oracle is written once and evaluated on z3 terms (proof) or python values (replay)
# ----------------------------------------------------------------------------------------------------------------------
def _isz(x):
    return isinstance(x, z3.ExprRef)


def _zb(x):
    return x if _isz(x) else z3.BoolVal(bool(x))


def AND(*xs):
    if any(_isz(x) for x in xs):
        return z3.And(*[_zb(x) for x in xs]) if xs else z3.BoolVal(True)
    return all(bool(x) for x in xs)


def OR(*xs):
    if any(_isz(x) for x in xs):
        return z3.Or(*[_zb(x) for x in xs]) if xs else z3.BoolVal(False)
    return any(bool(x) for x in xs)


def NOT(x):
    return z3.Not(x) if _isz(x) else (not bool(x))


def IMPL(a, b):
    return OR(NOT(a), b)


def IFF(a, b):
    if _isz(a) or _isz(b):
        return _zb(a) == _zb(b)
    return bool(a) == bool(b)


def _raw(x):
    """z3 term / python value of a proxy or number."""
    if isinstance(x, (SReal, SBool)):
        return x.t
    if isinstance(x, SInt):
        return z3.ToReal(x.t)
    if isinstance(x, (np.floating, np.integer)):
        return x.item()
    if isinstance(x, np.ndarray) and x.ndim == 0:
        return _raw(x.item())
    return x


def EQ(a, b, tol=1e-9):
    a, b = _raw(a), _raw(b)
    if a is None or b is None:
        return a is b
    if _isz(a) or _isz(b):
        return (a if _isz(a) else rv(a)) == (b if _isz(b) else rv(b))
    return abs(float(a) - float(b)) <= tol * max(1.0, abs(float(b)))


# ----------------------------------------------------------------------------------------------------------------------
# tagged values: every vector / scalar handed to the real code remembers which sensor / target it belongs to
# ----------------------------------------------------------------------------------------------------------------------
class TVec(np.ndarray):
    """ndarray (object dtype of proxies, or floats) with a set of tags that survives slicing and arithmetic.

    `lin` (los-* / sun-* scenes): expansion of the position part over the scene's base vectors (symx.ext_c02), followed through linear
    operations and `[:3]`; None = not followed."""

    def __new__(cls, items, tags=()):
        items = list(items)
        sym = any(isinstance(x, (SReal, SInt, SBool)) for x in items)
        a = np.empty(len(items), dtype=object if sym else float)
        for i, x in enumerate(items):
            a[i] = x
        o = a.view(cls)
        o.tags = frozenset(tags)
        return o

    def __array_finalize__(self, obj):
        self.tags = getattr(obj, "tags", frozenset())
        self.lin = None

    def __getitem__(self, key):
        out = super().__getitem__(key)
        if isinstance(out, TVec):
            out.lin = lin_getitem(self, key, out)
        return out

    def __array_ufunc__(self, ufunc, method, *inputs, out=None, **kw):
        lin = lin_ufunc(ufunc, method, inputs) if out is None else None
        tags = set()
        args = []
        for i in inputs:
            if isinstance(i, TVec):
                tags |= i.tags
                args.append(i.view(np.ndarray))
            else:
                tags |= getattr(i, "tags", frozenset())
                args.append(i)
        if out is not None:
            kw["out"] = tuple(o.view(np.ndarray) if isinstance(o, TVec) else o for o in out)
        res = getattr(ufunc, method)(*args, **kw)
        if isinstance(res, np.ndarray) and res.ndim > 0:
            res = res.view(TVec)
            res.tags = frozenset(tags)
            res.lin = lin
        return res


class TReal(SReal):
    __slots__ = ("tags",)

    def __init__(self, t, tags=()):
        super().__init__(t)
        self.tags = frozenset(tags)


class TFloat(float):
    def __new__(cls, v, tags=()):
        o = super().__new__(cls, v)
        o.tags = frozenset(tags)
        return o


class Root4(TReal):
    """q^4 whose fourth root is q (contract for x**0.25 of the radar cross-section)."""
    __slots__ = ("q",)

    def __init__(self, q, tags=()):
        super().__init__(q * q * q * q, tags)
        self.q = q

    def __pow__(self, e):
        if isinstance(e, (int, float)) and float(e) == 0.25:
            return SReal(self.q)
        return SReal(self.t) ** e


def _tags(*args):
    out = set()
    for a in args:
        out |= getattr(a, "tags", frozenset())
    return out


def _one(tags, pool, what):
    hit = sorted(t for t in tags if t in pool or (pool == "H" and t.startswith("H")))
    if len(hit) != 1:
        raise Unsupported(f"cannot identify the {what} of a primitive call from its arguments (tags {sorted(tags)})")
    return hit[0]


def _norm_name(n, tags):
    return f"nrm{n}{'s' if 'sez' in tags else ''}_" + "_".join(sorted(t for t in tags if t != "sez"))


def _tgt(tags):
    return _one(tags, TGT_TAGS, "target")


def _host(tags):
    return _one(tags, "H", "sensor")


# ----------------------------------------------------------------------------------------------------------------------
# the world: provider of all primitives, symbolic (z3 variables) or concrete (values of a counterexample)
# ----------------------------------------------------------------------------------------------------------------------
class World:
    def __init__(self, values=None, realgeo=False, noise="zero", vischain=False):
        self.values = values  # None -> symbolic
        self.vischain = vischain  # limiting-magnitude chain on real geometry (phase angle from the position vectors)
        self.vmref = None  # vischain scenes: the target whose magnitude is computed from the positions (all others: free variables)
        self.margins = []  # (lhs, rhs, scale) of the oracle's own comparisons that a robust counterexample keeps apart
        self.magnitudes = []  # (term, lo, hi): ranges in which a robust counterexample keeps squared lengths (comfortable in doubles)
        # los-* / sun-* scenes (set by Scene.arm_chain): which chain runs un-stubbed, the Gram cut of the formal position vectors, the
        # coordinate terms of its base vectors, the tags of the targets whose positions are formal
        self.chain, self.gram, self.base_coords, self.formal = None, None, None, frozenset()
        try:
            self.path = cur() if values is None else None
        except RuntimeError:
            self.path = None
        self.realgeo = realgeo  # replay level 1: real getRange/getAzimuth/getElevation/subtendedAngle on constructed vectors
        self.noise = noise
        self.names = {}  # name -> sort
        self.vecs = {}
        self.sez_calls = []
        self.sun_jds = []  # every epoch the Sun position was asked for
        self.randn_calls = 0
        self.pre = []  # z3 preconditions on primitives (symbolic mode)

    @property
    def sym(self):
        return self.values is None

    # -- values ----------------------------------------------------------------------------------------
    def real(self, name, tags=(), lo=None, hi=None, lo_strict=False, hi_strict=False):
        first = name not in self.names
        self.names[name] = "real"
        if self.sym:
            v = z3.Real(name)
            if first:
                cs = []
                if lo is not None:
                    cs.append(v > lo if lo_strict else v >= lo)
                if hi is not None:
                    cs.append(v < hi if hi_strict else v <= hi)
                if cs:
                    self.pre += cs
                    assume(*cs)
            return TReal(v, tags)
        return TFloat(self.values.get(name, 0.0), tags)

    def boolean(self, name):
        self.names[name] = "bool"
        if self.sym:
            return SBool(z3.Bool(name))
        return bool(self.values.get(name, False))

    def vec(self, name, n, tags):
        if name in self.vecs:
            return self.vecs[name]
        if self.sym:
            v = TVec([SReal(z3.Real(f"{name}_{i}")) for i in range(n)], tags)
        else:
            v = TVec([float(self.values.get(f"{name}_{i}", 0.0)) for i in range(n)], tags)
        self.vecs[name] = v
        return v

    def declare(self, h, t, sp):
        """Register the oracle-relevant primitives of (sensor h, target t) with their documented ranges, whether or not the code asks for them."""
        self.real(f"rng_{h}_{t}", lo=0, lo_strict=True)
        self.real(f"az_{h}_{t}", lo=0, hi=TWOPI, hi_strict=True)
        self.real(f"el_{h}_{t}", lo=-HALFPI, hi=HALFPI)
        self.real(f"rr_{h}_{t}")
        self.boolean(f"los_{h}_{t}")
        if t != "E":
            self.boolean(f"infov_{h}_E_{t}")
        if sp.optical:
            self.real(f"flux_{t}")
            self.real(f"vismag_{h}_{t}")
            self.boolean(f"gal_{h}_{t}")
            if sp.space:
                self.boolean(f"spl_{h}_{t}")
                self.boolean(f"limb_{h}_{t}")
            else:
                self.boolean(f"dark_{h}")
        else:
            self.real(f"q_{h}_{t}", lo=0)

    def P(self, name):
        """Raw primitive (z3 term / python value) by name, for the oracle."""
        if self.sym:
            return z3.Bool(name) if name.split("_")[0] in BOOL_PRIMS else z3.Real(name)
        d = False if name.split("_")[0] in BOOL_PRIMS else 0.0
        return self.values.get(name, d)

    # -- frames ----------------------------------------------------------------------------------------
    def getSlantRangeVector(self, sensor_eci, tgt_eci, utc=None):
        ta, tb = _tags(sensor_eci), _tags(tgt_eci)
        if "sez" in ta | tb:
            raise Unsupported("getSlantRangeVector called with an SEZ vector")
        swapped = not any(x.startswith("H") for x in ta)
        if swapped:  # (target, sensor) instead of (sensor, target): a different vector with its own primitives
            ta, tb = tb, ta
        h, t = _host(ta), _tgt(tb)
        sfx = "_swapped" if swapped else ""
        self.sez_calls.append((h + sfx, t, utc, np.shape(sensor_eci)[0], np.shape(tgt_eci)[0]))
        name = f"sez_{h}_{t}{sfx}"
        tags = {"sez", h, t} | ({"swapped"} if swapped else set())
        if name in self.vecs:
            return self.vecs[name]
        if self.sym or not self.realgeo:
            return self.vec(name, 6, tags)
        az, el, rng = (float(self.values.get(f"{p}_{h}_{t}{sfx}", d)) for p, d in (("az", 0.0), ("el", 0.0), ("rng", 1.0)))
        v = TVec([-math.cos(el) * math.cos(az) * rng, math.cos(el) * math.sin(az) * rng, math.sin(el) * rng, 0.0, 0.0, 0.0], tags)
        self.vecs[name] = v
        return v

    def _ht(self, v):
        tg = _tags(v)
        if "sez" not in tg:
            raise Unsupported("range/azimuth/elevation asked of something that is not a slant-range vector")
        return _host(tg), _tgt(tg) + ("_swapped" if "swapped" in tg else "")

    def getRange(self, v):
        h, t = self._ht(v)
        return self.real(f"rng_{h}_{t}", {h, t}, lo=0, lo_strict=True)

    def getAzimuth(self, v):
        h, t = self._ht(v)
        return self.real(f"az_{h}_{t}", {h, t}, lo=0, hi=TWOPI, hi_strict=True)

    def getElevation(self, v):
        h, t = self._ht(v)
        return self.real(f"el_{h}_{t}", {h, t}, lo=-HALFPI, hi=HALFPI)

    def getRangeRate(self, v):
        h, t = self._ht(v)
        return self.real(f"rr_{h}_{t}", {h, t})

    def norm(self, v, *a, **k):
        tg = _tags(v)
        return self.real(_norm_name(np.shape(v)[0], tg), tg, lo=0, lo_strict=True)

    # -- visibility primitives ------------------------------------------------------------------------
    def lineOfSight(self, a, b):
        tg = _tags(a, b)
        return self.boolean(f"los_{_host(tg)}_{_tgt(tg)}")

    def subtendedAngle(self, a, b, safe=False):
        ta, tb = _tags(a), _tags(b)
        if ta == tb:  # a direction against itself (boresight already moved there)
            return 0.0
        tg = ta | tb
        h = _host(tg)
        if "bore" not in tg:
            raise Unsupported(f"slew angle asked between unexpected vectors {sorted(tg)}")
        return self.real(f"delta_{h}_{_tgt(tg)}", {h}, lo=0, hi=PI)

    def sunPosition(self, jd):
        self.sun_jd = jd
        self.sun_jds.append(jd)
        return self.vec("sun", 3, {"S"})

    def calculateIncidentSolarFlux(self, vcs, tgt_pos, sun_pos):
        if "S" not in _tags(sun_pos):
            raise Unsupported("solar flux asked without the Sun position")
        return self.real(f"flux_{_tgt(_tags(vcs, tgt_pos))}")

    def calculatePhaseAngle(self, emitter, reflector, observer):
        tg = _tags(emitter, reflector, observer)
        return self.real(f"phase_{_host(tg)}_{_tgt(tg)}", {_host(tg), _tgt(tg)})

    def lambertianPhaseFunction(self, phi):
        tg = _tags(phi)
        return self.real(f"phasefn_{_host(tg)}_{_tgt(tg)}", {_host(tg), _tgt(tg)})

    def apparentVisualMagnitude(self, vcs, refl, phase_fn, rso_range):
        tg = _tags(vcs, refl, phase_fn, rso_range)
        return self.real(f"vismag_{_host(tg)}_{_tgt(tg)}")

    def checkGalacticExclusionZone(self, boresight, *a, **k):
        tg = _tags(boresight)
        return self.boolean(f"gal_{_host(tg)}_{_tgt(tg)}")

    def checkSpaceSensorLightingConditions(self, boresight, sun_unit, *a, **k):
        tg = _tags(boresight, sun_unit)
        if "S" not in tg:
            raise Unsupported("space lighting asked without the Sun direction")
        return self.boolean(f"spl_{_host(tg)}_{_tgt(tg)}")

    def checkSpaceSensorEarthLimbObscuration(self, sensor_eci, target_sez):
        tg = _tags(sensor_eci, target_sez)
        return self.boolean(f"limb_{_host(tg)}_{_tgt(tg)}")

    def checkGroundSensorLightingConditions(self, sensor_pos, sun_unit, *a, **k):
        tg = _tags(sensor_pos, sun_unit)
        if "S" not in tg:
            raise Unsupported("ground lighting asked without the Sun direction")
        return self.boolean(f"dark_{_host(tg)}")

    def calculateRadarCrossSection(self, vcs, wavelength):
        tg = _tags(vcs, wavelength)
        h, t = _host(tg), _tgt(tg)
        if self.sym:
            q = self.real(f"q_{h}_{t}", lo=0)
            return Root4(q.t, {h, t})
        return float(self.values.get(f"q_{h}_{t}", 0.0)) ** 4

    # -- limiting-magnitude chain on real geometry (vischain scenes) -------------------------------------
    def norm_true(self, v, *a, **k):
        """scipy norm -> non-negative root of the sum of squares (sqrt contract of the engine)."""
        acc = SReal(0)
        for x in np.asarray(v, dtype=object).ravel():
            acc = acc + x * x
        return acc.sqrt()

    def lambert(self, phi):
        """lambertianPhaseFunction -> G(phi): a function of phi, strictly decreasing on [0, pi], positive below pi, zero at pi."""
        p = cur()
        a = _real_term(phi)
        if a is None:
            raise Unsupported("phase function asked of something that is not a scalar")
        g = p.new("lambert")
        p.add_domain(z3.And(a >= 0, a <= PI))
        p.assume(z3.And(g >= 0, (a < PI) == (g > 0)))
        for g2, a2 in p.apps.setdefault("lambert", []):
            p.assume(z3.And((a < a2) == (g > g2), (a == a2) == (g == g2)))
        p.apps["lambert"].append((g, a))
        return SReal(g)

    def log10(self, x):
        """numpy log10 -> a strictly increasing function on the positive reals."""
        p = cur()
        t = _real_term(x)
        if t is None:
            raise Unsupported("log10 of something that is not a scalar")
        l = p.new("log10")
        p.add_domain(t > 0)
        for l2, t2 in p.apps.setdefault("log10", []):
            p.assume(z3.And((t < t2) == (l < l2), (t == t2) == (l == l2)))
        p.apps["log10"].append((l, t))
        return SReal(l)

    # -- Gram cut of formal position vectors (los-* / sun-* scenes) -------------------------------------------
    def fall_through(self, what):
        """An operation on formal vectors that is not followed: from here on the cut variables are tied to the coordinates."""
        g = self.gram
        g.fallthroughs.append(what)
        if not g.linked:
            g.linked = True
            assume(*g.link(self.base_coords))

    def gdot(self, genuine):
        def dot_(a, b, *args, **kw):
            la, lb = getattr(a, "lin", None), getattr(b, "lin", None)
            if la is not None and lb is not None and np.shape(a) == (3,) and np.shape(b) == (3,) and not args and not kw:
                return self.gram.dot(la, lb)
            self.fall_through("dot")
            return genuine(a, b, *args, **kw)

        return dot_

    def gnorm(self, otherwise, fall=False):
        def norm_(a, *args, **kw):
            la = getattr(a, "lin", None)
            if la is not None and np.shape(a) == (3,) and not args and not kw:
                return self.gram.norm(la)
            if fall:
                self.fall_through("norm")
            return otherwise(a, *args, **kw)

        return norm_

    def pin_arccos(self):
        """sun-* scenes: the arccos contract of the engine fixes no values between 0, pi/2 and pi; the Sun cone is compared with an angle
        constant, so the contract is pinned on a 5 degree grid and at the documented cone angle: for a grid angle g with cosine in
        (lo, hi):  u >= hi => arccos(u) < g,  u <= lo => arccos(u) > g  (arccos strictly decreasing; lo/hi = double cosine -+ 1e-12)."""
        if not (self.sym and self.chain == "sun"):
            return
        apps = cur().apps.get("arccos", [])
        for g in [SUN_CONE] + [PI_F * k / 36 for k in range(1, 36)]:
            c = math.cos(g)
            lo, hi, gz = rv(c - 1e-12), rv(c + 1e-12), rv(g)
            for a, u in apps:
                assume(z3.Implies(u >= hi, a < gz), z3.Implies(u <= lo, a > gz))

    # -- noise -------------------------------------------------------------------------------------------
    def randn(self, *shape):
        self.randn_calls += 1
        n = int(shape[0]) if shape else 1
        if self.noise == "zero":
            return np.zeros(n)
        if self.sym:
            return np.array([SReal(z3.Real(f"w_{self.randn_calls}_{i}")) for i in range(n)], dtype=object)
        return np.array([float(self.values.get(f"w_{self.randn_calls}_{i}", 1.0)) for i in range(n)])


BOOL_PRIMS = {"los", "infov", "gal", "spl", "limb", "dark"}


def _fov_stub(W):
    from resonaate.sensors.field_of_view import FieldOfView

    class PrimitiveFoV(FieldOfView):
        """FoV membership as a primitive per (pointing, target)."""

        def inFieldOfView(self, pointing_sez, background_sez):
            tp, tb = _tags(pointing_sez), _tags(background_sez)
            if "sez" not in tp or "sez" not in tb:
                raise Unsupported("inFieldOfView called with something that is not a slant-range vector")
            return W.boolean(f"infov_{_host(tp | tb)}_{_tgt(tp)}_{_tgt(tb)}")

    return PrimitiveFoV()


class _Shadows:
    """All module-global replacements, installed for the duration of one run of the real code."""

    def __init__(self, W, with_async=False):
        from resonaate.physics import measurements as MS
        from resonaate.sensors import optical as OP
        from resonaate.sensors import radar as RD
        from resonaate.sensors import sensor_base as SB
        from resonaate.tasking import predictions as PR

        class SunStub:
            getPosition = staticmethod(W.sunPosition)

        class RandomStub:
            randn = staticmethod(W.randn)

        from resonaate.physics import sensor_utils as SU

        geo = {} if (not W.sym and W.realgeo) else {"getRange": W.getRange, "getAzimuth": W.getAzimuth, "getElevation": W.getElevation}
        slew = {} if (not W.sym and W.realgeo) else {"subtendedAngle": W.subtendedAngle}
        sbn = {"norm": W.norm} if W.sym else {}
        formal = lambda *vs: all(getattr(v, "lin", None) is not None for v in vs)  # noqa: E731
        los = W.lineOfSight
        if W.chain == "los":
            # the real lineOfSight runs for the targets whose positions are formal (symbolic runs: its dot / norm by the Gram cut)
            real_los = SB.lineOfSight
            los = lambda a, b: real_los(a, b) if formal(a, b) else W.lineOfSight(a, b)  # noqa: E731
        spl = W.checkSpaceSensorLightingConditions
        if W.chain == "sun":
            real_spl = OP.checkSpaceSensorLightingConditions
            spl = lambda bore, sun_unit, *a, **k: real_spl(bore, sun_unit, *a, **k) if formal(bore, sun_unit) else W.checkSpaceSensorLightingConditions(bore, sun_unit, *a, **k)  # noqa: E731
        self.ctx = [
            shadow(SB, getSlantRangeVector=W.getSlantRangeVector, lineOfSight=los, **geo, **slew, **sbn),
            shadow(PR, getSlantRangeVector=W.getSlantRangeVector),
            shadow(MS, getSlantRangeVector=W.getSlantRangeVector, random=RandomStub, getRangeRate=W.getRangeRate, **geo),
            shadow(RD, calculateRadarCrossSection=W.calculateRadarCrossSection, **({"getRange": geo["getRange"]} if geo else {})),
            shadow(OP, Sun=SunStub, calculateIncidentSolarFlux=W.calculateIncidentSolarFlux,
                   checkGalacticExclusionZone=W.checkGalacticExclusionZone, checkSpaceSensorLightingConditions=spl,
                   checkSpaceSensorEarthLimbObscuration=W.checkSpaceSensorEarthLimbObscuration,
                   checkGroundSensorLightingConditions=W.checkGroundSensorLightingConditions, **self._magnitude_chain(W)),
        ]
        if W.chain and W.sym:
            self.ctx.append(shadow(SU, dot=W.gdot(SU.dot), norm=W.gnorm(SU.norm, fall=True)))
        if W.vischain and W.sym:
            from resonaate.physics import maths as MA

            self.ctx.append(shadow(SU, log10=W.log10))
            # the guarded arccos differs from arccos only for arguments beyond +-1, which exact arithmetic never produces for a normalised
            # dot product (Cauchy-Schwarz); nlsat does not refute that side of the guard in time
            self.ctx.append(shadow(MA, safeArccos=lambda x: np.arccos(x)))
        if with_async:
            from resonaate.parallel import tasking_execution as TE

            class RayStub:
                @staticmethod
                def get(x):
                    return x

            self.ctx.append(shadow(TE, ray=RayStub))

    @staticmethod
    def _magnitude_chain(W):
        """Names of resonaate.sensors.optical that make up the limiting-magnitude step."""
        free = dict(calculatePhaseAngle=W.calculatePhaseAngle, lambertianPhaseFunction=W.lambertianPhaseFunction,
                    apparentVisualMagnitude=W.apparentVisualMagnitude, **({"norm": W.gnorm(W.norm) if W.chain else W.norm} if W.sym else {}))
        if not W.vischain:  # the apparent magnitude is one free variable per (sensor, target)
            return free
        # vischain scenes: for the reference target the real calculatePhaseAngle -> subtendedAngle and apparentVisualMagnitude run on the
        # positions (symbolic runs: phase function and log10 by contract; replay: all real); other targets keep the free variables
        from resonaate.sensors import optical as OP

        genuine = {n: getattr(OP, n) for n in ("calculatePhaseAngle", "lambertianPhaseFunction", "apparentVisualMagnitude", "norm")}
        ref = lambda *args: W.vmref is not None and W.vmref in _tags(*args)  # noqa: E731

        def phase_angle(emitter, reflector, observer):
            return genuine["calculatePhaseAngle"](emitter, reflector, observer) if ref(emitter, reflector, observer) else free["calculatePhaseAngle"](emitter, reflector, observer)

        def phase_function(phi):
            if _tags(phi):  # a free phase-angle variable of another target
                return free["lambertianPhaseFunction"](phi)
            return W.lambert(phi) if W.sym else genuine["lambertianPhaseFunction"](phi)

        def magnitude(vcs, refl, phase_fn, rso_range):
            f = genuine if ref(vcs, refl) else free
            return f["apparentVisualMagnitude"](vcs, refl, phase_fn, rso_range)

        def norm_(v, *a, **k):
            if not W.sym:
                return genuine["norm"](v, *a, **k)
            return W.norm_true(v) if ref(v) else W.norm(v, *a, **k)

        return dict(calculatePhaseAngle=phase_angle, lambertianPhaseFunction=phase_function, apparentVisualMagnitude=magnitude, norm=norm_)

    def __enter__(self):
        for c in self.ctx:
            c.__enter__()
        return self

    def __exit__(self, *a):
        for c in reversed(self.ctx):
            c.__exit__(*a)
        return False


# ----------------------------------------------------------------------------------------------------------------------
# scene: real sensor objects on stub hosts, stub targets
# ----------------------------------------------------------------------------------------------------------------------
class Spec:
    """One sensor of the scene (what kind, which parameters are None / reduced)."""

    def __init__(self, kind, space, rmin=True, rmax=True, calc_bg=True, reduced=False, vischain=False, chain=None, chain_ref="primary"):
        self.kind, self.space, self.rmin, self.rmax, self.calc_bg, self.reduced = kind, space, rmin, rmax, calc_bg, reduced
        # chain: "los" = the real lineOfSight runs on formal sensor / target positions (all targets of the scene); "sun" = the real
        # checkSpaceSensorLightingConditions runs on the formal Sun / target / sensor positions of one target (chain_ref: "primary" or
        # "background"; predictObservation: the estimate); the oracle decides those constraints from the positions
        self.chain, self.chain_ref = chain, chain_ref
        # optical: limiting magnitude decided on the real Sun/target/sensor geometry; "primary" / "background" = which target of a
        # collectObservations scene the limit is parametrised against (predictObservation: the estimate)
        self.vischain = vischain

    @property
    def optical(self):
        return self.kind == "optical"

    def asdict(self):
        return dict(self.__dict__)


class HostStub:
    pass


class TargetStub:
    pass


def _julian():
    from resonaate.physics.time.stardate import datetimeToJulianDate

    return datetimeToJulianDate(JD_DT)


def _mk_sensor(kind, fov, calc_bg):
    from resonaate.sensors.advanced_radar import AdvRadar
    from resonaate.sensors.optical import Optical
    from resonaate.sensors.radar import Radar

    common = dict(az_mask=np.array([0.0, 359.0]), el_mask=np.array([0.0, 90.0]), diameter=10.0, efficiency=0.9, slew_rate=1.0, field_of_view=fov,
                  background_observations=calc_bg, minimum_range=0.0, maximum_range=1.0e6)
    if kind == "optical":
        return Optical(r_matrix=np.diag([1e-8, 1e-8]), detectable_vismag=25.0, **common)
    cls = Radar if kind == "radar" else AdvRadar
    return cls(r_matrix=np.diag([1e-8, 1e-8, 1e-6, 1e-8]), tx_power=1e6, tx_frequency=1e9, min_detectable_power=1e-14, **common)


class Scene:
    def __init__(self, W, specs, nbg, primary_id=11):
        from resonaate.common.labels import PlatformLabel

        self.W, self.specs, self.nbg = W, specs, nbg
        W.chain = specs[0].chain
        if W.chain and len(specs) != 1:
            raise ValueError("los / sun chains: one sensor per scene")
        jd = _julian()
        self.jd = jd
        self.tnow = W.real("tnow")
        self.hosts, self.sensors, self.par = [], [], []
        for k, sp in enumerate(specs):
            h = f"H{k}"
            host = HostStub()
            host.tag, host.simulation_id = h, 100 + k
            host.agent_type = PlatformLabel.SPACECRAFT if sp.space else PlatformLabel.GROUND_FACILITY
            host.eci_state = W.vec(f"eci_{h}", 6, {h})
            host.julian_date_epoch, host.datetime_epoch = jd, JD_DT
            host.time = self.tnow
            host.sensor_time_bias_event_queue = []
            s = _mk_sensor(sp.kind, _fov_stub(W), sp.calc_bg)
            s.host = host
            host.sensors = s
            p = {"h": h}
            if sp.reduced:
                p["az0"], p["az1"], p["el0"], p["el1"] = 0.0, 2 * math.pi, -math.pi / 2, math.pi / 2
                if W.sym:
                    p["az1"], p["el0"], p["el1"] = TWOPI, -HALFPI, HALFPI
            else:
                p["az0"], p["az1"] = _raw(W.real(f"az0_{h}", lo=0, hi=TWOPI)), _raw(W.real(f"az1_{h}", lo=0, hi=TWOPI))
                p["el0"], p["el1"] = _raw(W.real(f"el0_{h}", lo=-HALFPI, hi=HALFPI)), _raw(W.real(f"el1_{h}", lo=-HALFPI, hi=HALFPI))
                if W.sym:
                    W.pre.append(p["el0"] <= p["el1"])
                    assume(p["el0"] <= p["el1"])
            p["rmin"] = _raw(W.real(f"rmin_{h}", lo=0)) if (sp.rmin and not sp.reduced) else None
            p["rmax"] = _raw(W.real(f"rmax_{h}", lo=0)) if sp.rmax else None
            if W.sym and p["rmin"] is not None and p["rmax"] is not None:
                W.pre.append(p["rmin"] <= p["rmax"])
                assume(p["rmin"] <= p["rmax"])
            p["rate"] = _raw(W.real(f"rate_{h}", lo=0))
            p["tlast"] = _raw(W.real(f"tlast_{h}"))
            if W.sym:
                W.pre.append(p["tlast"] <= self.tnow.t)
                assume(p["tlast"] <= self.tnow.t)
            wrap = (lambda x: SReal(x) if _isz(x) else x)
            s.az_mask = TVec([wrap(p["az0"]), wrap(p["az1"])])
            s.el_mask = TVec([wrap(p["el0"]), wrap(p["el1"])])
            s.minimum_range = None if p["rmin"] is None else wrap(p["rmin"])
            s.maximum_range = None if p["rmax"] is None else wrap(p["rmax"])
            s.slew_rate = wrap(p["rate"])
            s.time_last_tasked = wrap(p["tlast"])
            s.boresight = W.vec(f"bore_{h}", 3, {"bore", h})
            p["bore"] = s.boresight
            if sp.optical and sp.vischain:
                # the limiting magnitude is given as the magnitude the reference target would have at the phase angle arccos(ulim)
                # (a re-parametrisation of the input: for given area, reflectivity and range the two are in one-to-one correspondence)
                p["ulim"] = _raw(W.real(f"ulim_{h}", lo=-1, hi=1, lo_strict=True, hi_strict=True))
                p["vmlim"] = p["vmref"] = None  # set by arm_limits()
            elif sp.optical:
                p["vmlim"] = _raw(W.real(f"vmlim_{h}"))
                s.detectable_vismag = wrap(p["vmlim"])
            else:
                p["aux"] = _raw(W.real(f"aux_{h}", lo=0))
                s.max_range_aux = wrap(p["aux"])
                s.wavelength = TReal(rv(s.wavelength), {h}) if W.sym else TFloat(s.wavelength, {h})
            self.hosts.append(host)
            self.sensors.append(s)
            self.par.append(p)
        self.targets = []
        for j in range(1 + nbg):
            t = TargetStub()
            t.tag, t.simulation_id = f"T{j}", primary_id + j
            t.eci_state = W.vec(f"eci_T{j}", 6, {t.tag})
            t.visual_cross_section = W.real(f"vcs_T{j}", {t.tag}, lo=0, lo_strict=True)
            t.reflectivity = W.real(f"refl_T{j}", {t.tag}, lo=0)
            self.targets.append(t)
        self.primary, self.background = self.targets[0], self.targets[1:]
        est = TargetStub()
        est.tag, est.simulation_id = "E", primary_id
        est.eci_state = W.vec("eci_E", 6, {"E"})
        est.visual_cross_section = W.real("vcs_E", {"E"}, lo=0, lo_strict=True)
        est.reflectivity = W.real("refl_E", {"E"}, lo=0)
        self.estimate = est
        for sp, p in zip(specs, self.par):
            W.real(f"delta_{p['h']}_E", lo=0, hi=PI)
            for t in [x.tag for x in self.targets] + ["E"]:
                W.declare(p["h"], t, sp)
        self.tag_of_id = {t.simulation_id: t.tag for t in self.targets}
        self.k_of_sid = {h.simulation_id: k for k, h in enumerate(self.hosts)}
        if W.sym and W.vischain:
            for sp, host in zip(specs, self.hosts):
                if not sp.vischain:
                    continue
                for t in self.targets + [est]:
                    cs = [_raw(t.reflectivity) > 0] + [_raw(t.eci_state[i]) == _raw(host.eci_state[i]) for i in (3, 4, 5)]
                    W.pre += cs
                    assume(*cs)

    def arm_chain(self, mode):
        """los-* / sun-* scenes: give the position vectors their expansions over the base vectors of the scene and state the Gram facts.
          los: base vectors = the positions themselves (sensor, targets; predictObservation: sensor, estimate), all relative to the
               geocentre; precondition: nobody inside the reference sphere, sensor != target
          sun: one reference target; base vectors R (its position), D (target -> Sun), B (sensor -> target), i.e. Sun = R + D,
               sensor = R - B - a re-parametrisation of three free positions that makes the two directions the Sun cone is about base
               vectors; nothing but the Gram facts is assumed"""
        W = self.W
        if not W.chain:
            return
        host, h = self.hosts[0], self.hosts[0].tag
        if W.chain == "los":
            tg = [self.estimate] if mode == "predict" else list(self.targets)
            names = [h] + [t.tag for t in tg]
            W.gram = Gram(names)
            host.eci_state.lin = {h: 1}
            for t in tg:
                t.eci_state.lin = {t.tag: 1}
            W.formal = frozenset(t.tag for t in tg)
            if W.sym:
                W.base_coords = {n: [z3.Real(f"eci_{n}_{i}") for i in range(3)] for n in names}
                g, r2 = W.gram.var, rv(_earth_radius() ** 2)
                pre = [g(n, n) >= r2 for n in names] + [g(h, h) + g(t.tag, t.tag) - 2 * g(h, t.tag) > 0 for t in tg]
        else:
            ref = self.estimate if mode == "predict" else (self.targets[1] if self.specs[0].chain_ref == "background" else self.targets[0])
            W.gram = Gram(["R", "D", "B"])
            sun = W.vec("sun", 3, {"S"})
            ref.eci_state.lin, host.eci_state.lin, sun.lin = {"R": 1}, {"R": 1, "B": -1}, {"R": 1, "D": 1}
            W.formal = frozenset([ref.tag])
            if W.sym:
                R = [z3.Real(f"eci_{ref.tag}_{i}") for i in range(3)]
                W.base_coords = {"R": R, "D": [z3.Real(f"sun_{i}") - R[i] for i in range(3)], "B": [R[i] - z3.Real(f"eci_{h}_{i}") for i in range(3)]}
                pre = []
        for n in W.gram.var_names():
            W.names[n] = "real"
        if W.sym:
            pairwise, det = W.gram.facts()
            pre = pairwise + det + pre
            W.heavy = det  # kept alive here: dropped (by term id) from the first proof attempt of each goal
            W.pre += pre
            assume(*pre)

    def realise(self, mode, vals):
        """Coordinates (values of eci_*_i / sun_i) with the Gram matrix of a model, written into vals."""
        W = self.W
        if W.gram is None or W.gram.linked:  # linked: the model's own coordinates are consistent with the cut variables
            return
        vecs = W.gram.realise(vals)
        h = self.hosts[0].tag
        put = lambda name, v: vals.update({f"{name}_{i}": float(v[i]) for i in range(3)})  # noqa: E731
        if W.chain == "los":
            for n, v in vecs.items():
                put(f"eci_{n}", v)
        else:
            (ref,) = W.formal
            put(f"eci_{ref}", vecs["R"]), put("sun", vecs["R"] + vecs["D"]), put(f"eci_{h}", vecs["R"] - vecs["B"])

    def arm_limits(self, mode):
        """vischain sensors: detectable_vismag := magnitude of the reference target (primary truth / estimate) at phase angle arccos(ulim),
        by the harness's own Lambertian-sphere formula.  Symbolic runs: inside the shadows (arccos / phase function / log10 contracts)."""
        W = self.W
        for sp, p, s, host in zip(self.specs, self.par, self.sensors, self.hosts):
            if not (sp.optical and sp.vischain):
                continue
            ref = "E" if mode == "predict" else ("T1" if sp.vischain == "background" else "T0")
            tgt = self.estimate if ref == "E" else self.targets[int(ref[1:])]
            d = [tgt.eci_state[i] - host.eci_state[i] for i in range(3)]
            if W.sym:
                # the reference target's slant-range vector is the position difference in another frame: same length, and the range primitive
                # is that length (a chain that takes the range from there must see the same number)
                d2 = sum((_raw(x) * _raw(x) for x in d), rv(0))
                rp = z3.Real(f"rng_{host.tag}_{ref}")
                link = [rp * rp == d2, sum((z3.Real(f"sez_{host.tag}_{ref}_{i}") * z3.Real(f"sez_{host.tag}_{ref}_{i}") for i in range(3)), rv(0)) == d2]
                W.pre += link
                assume(*link)
                rng = W.norm_true(d)
                lim = lambert_sphere_magnitude(tgt.visual_cross_section, tgt.reflectivity, W.lambert(SReal(p["ulim"]).arccos()), rng, W.log10)
            else:
                rng = math.sqrt(sum(float(x) ** 2 for x in d))
                lim = lambert_sphere_magnitude(float(tgt.visual_cross_section), float(tgt.reflectivity), lambert_phase_function(math.acos(p["ulim"])), rng, math.log10)
            s.detectable_vismag = lim
            p["vmlim"], p["vmref"] = _raw(lim), ref
            W.vmref = ref


# ----------------------------------------------------------------------------------------------------------------------
# the oracle: documented constraint semantics over the primitives
# ----------------------------------------------------------------------------------------------------------------------
SUN_MAGNITUDE = -26.74  # apparent visual magnitude of the Sun


def lambert_phase_function(phi):
    """Diffuse (Lambertian) sphere, fraction of the incident light reflected towards an observer at phase angle phi."""
    return 2.0 * ((math.pi - phi) * math.cos(phi) + math.sin(phi)) / (3.0 * math.pi ** 2)


def lambert_sphere_magnitude(area_m2, reflectivity, phase_fn, range_km, log10):
    """m = m_sun - 2.5 log10(A rho F / R^2), area in km^2."""
    return SUN_MAGNITUDE - 2.5 * log10(area_m2 * 1e-6 * reflectivity * phase_fn / (range_km * range_km))


def magnitude_within_limit(W, p, t):
    """Limiting-magnitude constraint by the Sun / target / sensor positions alone.

    Replay (floats): phase angle at the target between the directions to the Sun and to the sensor, Lambertian-sphere magnitude at the true
    range, compared with the limit.  Proof (z3 terms): the magnitude of a given target at a given range grows strictly with the phase angle,
    so 'not fainter than the magnitude at phase angle arccos(ulim)' is cos(phase angle) >= ulim, i.e. d1.d2 / (|d1| |d2|) >= ulim."""
    h = p["h"]
    if p.get("vmref") is None:
        raise Unsupported(f"limiting magnitude of {h} is not parametrised in this scene")
    if p["vmref"] != t:  # another target of the scene: its magnitude is the free variable the code was given for it
        return W.P(f"vismag_{h}_{t}") <= p["vmlim"]
    sun, tp, hp = W.vec("sun", 3, {"S"}), W.vecs[f"eci_{t}"], W.vecs[f"eci_{h}"]
    d1 = [sun[i] - tp[i] for i in range(3)]
    d2 = [hp[i] - tp[i] for i in range(3)]
    if W.sym:
        # cosine of the angle at the target, written with numpy's vdot and scipy's norm so that - when the code under test forms the same
        # quotient - the solver meets one term instead of two equal ones (it then needs no non-linear reasoning at all)
        from scipy.linalg import norm as scipy_norm

        v1, v2 = np.array(d1, dtype=object), np.array(d2, dtype=object)
        u = np.vdot(v1, v2) / (scipy_norm(v1) * scipy_norm(v2))
        W.margins.append((_raw(u), p["ulim"], rv(1)))
        return _raw(u >= SReal(p["ulim"]))
    n1, n2 = (math.sqrt(sum(float(x) ** 2 for x in d)) for d in (d1, d2))
    if n1 == 0 or n2 == 0:
        return False
    phi = math.acos(max(-1.0, min(1.0, sum(float(a) * float(b) for a, b in zip(d1, d2)) / (n1 * n2))))
    k = float(W.P(f"vcs_{t}")) * 1e-6 * float(W.P(f"refl_{t}")) * lambert_phase_function(phi) / (n2 * n2)
    return k > 0 and SUN_MAGNITUDE - 2.5 * math.log10(k) <= p["vmlim"]


SUN_CONE = math.pi / 12  # documented Sun-exclusion half-angle of space-based optical sensors (15 degrees)
SUN_COS_TOL = 1e-9  # band of the Sun-cone oracle, on the cosine
LOS_TOL_KM2 = 1.0  # band of the line-of-sight oracle, on the squared distance (km^2; 1 km^2 at the surface = 8 cm)


def _earth_radius():
    from resonaate.physics.bodies import Earth

    return float(Earth.radius)


class Band:
    """A constraint decided with a tolerance band: `lo` = holds under the lenient reading (demanded of reported observations),
    `hi` = holds under the strict reading (its negation is demanded when a miss names the constraint as failing)."""

    def __init__(self, lo, hi):
        self.lo, self.hi = lo, hi


def LO(x):
    return x.lo if isinstance(x, Band) else x


def HI(x):
    return x.hi if isinstance(x, Band) else x


def segment_clear_of_earth(W, h, t):
    """Unobstructed line of sight by the positions alone: the point of the segment sensor -> target closest to the geocentre (orthogonal
    projection of the geocentre onto the line, clamped to the segment) is not inside the sphere of the Earth's radius."""
    r2, m = _earth_radius() ** 2, LOS_TOL_KM2
    if W.sym:
        lh, lt = W.vecs[f"eci_{h}"].lin, W.vecs[f"eci_{t}"].lin
        a, b, c = (_raw(W.gram.dot(x, y)) for x, y in ((lh, lh), (lt, lt), (lh, lt)))
        den = a + b - 2 * c  # |target - sensor|^2
        ts = (a - c) / den
        lam = z3.If(ts < 0, rv(0), z3.If(ts > 1, rv(1), ts))
        dmin2 = a + 2 * lam * (c - a) + lam * lam * den
        W.margins.append((dmin2, rv(r2), rv(r2)))
        W.magnitudes += [(a, rv(r2), rv(1e11)), (b, rv(r2), rv(1e11)), (den, rv(1), rv(1e11))]
        return Band(dmin2 >= rv(r2 - m), dmin2 >= rv(r2 + m))
    ph, pt = (np.array([float(x) for x in W.vecs[f"eci_{n}"][:3]]) for n in (h, t))
    d = pt - ph
    lam = min(1.0, max(0.0, -float(ph @ d) / float(d @ d))) if float(d @ d) > 0 else 0.0
    q = ph + lam * d
    dmin2 = float(q @ q)
    return Band(dmin2 >= r2 - m, dmin2 >= r2 + m)


def outside_sun_cone(W, h, t):
    """Sun exclusion of a space-based optical sensor by the positions alone: the angle between the line of sight (sensor -> target) and the
    direction to the Sun is at least 15 degrees.  The documentation takes the Sun direction from the sensor, the code from the target
    (they differ by the parallax range / 1 au): both readings are accepted (lenient: one of them holds; strict: both hold)."""
    sun, tp, hp = W.vec("sun", 3, {"S"}), W.vecs[f"eci_{t}"][:3], W.vecs[f"eci_{h}"][:3]
    b, d_t, d_h = tp - hp, sun - tp, sun - hp
    c = math.cos(SUN_CONE)
    if W.sym:
        G = W.gram
        nb = G.norm(b.lin)
        us = [G.dot(d.lin, b.lin) / (G.norm(d.lin) * nb) for d in (d_t, d_h)]
        for u in us:
            W.margins.append((_raw(u), rv(c), rv(1)))
        W.magnitudes += [(_raw(G.dot(b.lin, b.lin)), rv(1e2), rv(1e10))] + [(_raw(G.dot(x.lin, x.lin)), rv(1e12), rv(1e18)) for x in (d_t, d_h)]
        return Band(OR(*[_raw(u <= c + SUN_COS_TOL) for u in us]), AND(*[_raw(u <= c - SUN_COS_TOL) for u in us]))
    b, d_t, d_h = (np.array([float(x) for x in v]) for v in (b, d_t, d_h))
    us = [float(d @ b) / (np.linalg.norm(d) * np.linalg.norm(b)) for d in (d_t, d_h)]
    return Band(any(u <= c + SUN_COS_TOL for u in us), all(u <= c - SUN_COS_TOL for u in us))


def conjuncts(W, sp, p, t):
    """Explanation -> 'this constraint holds' for target tag t seen from sensor p['h'] (z3 terms or python bools).

    From the docs: minimum/maximum_range = range at which the sensor can observe targets (inclusive limits); unobstructed line of sight;
    elevation inside [el0, el1]; azimuth inside the (order matters, possibly north-crossing) mask; radar: range not beyond rcs^(1/4) * aux;
    optical: target illuminated (flux > 0), apparent magnitude not fainter (greater) than the limit, boresight outside the galactic zone,
    spacecraft: boresight outside the Sun cone and target not in front of the Earth limb; ground: site in darkness."""
    from resonaate.common.labels import Explanation as X

    h = p["h"]
    P = W.P
    c = {}
    rng, az, el = P(f"rng_{h}_{t}"), P(f"az_{h}_{t}"), P(f"el_{h}_{t}")
    if p["rmin"] is not None:
        c[X.MINIMUM_RANGE] = rng >= p["rmin"]
    if p["rmax"] is not None:
        c[X.MAXIMUM_RANGE] = rng <= p["rmax"]
    c[X.LINE_OF_SIGHT] = segment_clear_of_earth(W, h, t) if (W.chain == "los" and t in W.formal) else P(f"los_{h}_{t}")
    c[X.ELEVATION_MASK] = AND(el >= p["el0"], el <= p["el1"])
    inside, outside = AND(az >= p["az0"], az <= p["az1"]), OR(az >= p["az0"], az <= p["az1"])
    nowrap = p["az0"] <= p["az1"]
    c[X.AZIMUTH_MASK] = z3.If(_zb(nowrap), _zb(inside), _zb(outside)) if any(_isz(x) for x in (nowrap, inside, outside)) else (inside if nowrap else outside)
    if sp.optical:
        c[X.SOLAR_FLUX] = P(f"flux_{t}") > 0
        c[X.VIZ_MAG] = magnitude_within_limit(W, p, t) if sp.vischain else P(f"vismag_{h}_{t}") <= p["vmlim"]
        c[X.GALACTIC_EXCLUSION] = P(f"gal_{h}_{t}")
        if sp.space:
            c[X.SPACE_ILLUMINATION] = outside_sun_cone(W, h, t) if (W.chain == "sun" and t in W.formal) else P(f"spl_{h}_{t}")
            c[X.LIMB_OF_EARTH] = NOT(P(f"limb_{h}_{t}"))
        else:
            c[X.GROUND_ILLUMINATION] = P(f"dark_{h}")
    else:
        c[X.RADAR_SENSITIVITY] = rng <= P(f"q_{h}_{t}") * p["aux"]
    return c


def slew_ok(W, p, tnow):
    return p["rate"] * (_raw(tnow) - p["tlast"]) >= W.P(f"delta_{p['h']}_E")


def expected_labels(sp):
    return ["azimuth_rad", "elevation_rad"] if sp.optical else ["azimuth_rad", "elevation_rad", "range_km", "range_rate_km_p_sec"]


def outcome_goals(sc, k, obs, missed, boresight, tlt, check_state=True):
    """Goals (name -> z3 Bool / python bool) for what sensor k reported about the primary + background targets."""
    from resonaate.common.labels import Explanation as X
    from resonaate.data.observation import MissedObservation, Observation

    W, sp, p, host, sensor = sc.W, sc.specs[k], sc.par[k], sc.hosts[k], sc.sensors[k]
    h = p["h"]
    slew = slew_ok(W, p, sc.tnow)
    prim_id = sc.primary.simulation_id
    G = {}
    # ---- O1: every reported observation satisfies every constraint ------------------------------------
    g_con, g_noslew, g_meta, g_meas = [], [], [], []
    seen = {}
    for o in obs:
        ok_meta = (isinstance(o, Observation) and o.sensor_id == host.simulation_id and o.target_id in sc.tag_of_id
                   and o.sensor_type == type(sensor).__name__ and float(o.julian_date) == float(sc.jd))
        g_meta.append(ok_meta)
        if not ok_meta:
            continue
        t = sc.tag_of_id[o.target_id]
        seen[t] = seen.get(t, 0) + 1
        c = conjuncts(W, sp, p, t)
        g_con.append(AND(W.P(f"infov_{h}_E_{t}"), *[LO(x) for x in c.values()]))
        g_noslew.append(slew)
        vals = {"azimuth_rad": W.P(f"az_{h}_{t}"), "elevation_rad": W.P(f"el_{h}_{t}"), "range_km": W.P(f"rng_{h}_{t}"),
                "range_rate_km_p_sec": W.P(f"rr_{h}_{t}")}
        lab = expected_labels(sp)
        g_meas.append(AND(*[EQ(getattr(o, n), vals[n]) if n in lab else (getattr(o, n) is None) for n in vals],
                          *[EQ(a, b) for a, b in zip(o.sensor_eci, host.eci_state)]))
    G["O1-constraints"] = AND(*g_con)
    G["O1-slew-reach"] = AND(*g_noslew)
    G["O1-record"] = AND(*g_meta, *g_meas, *[n <= 1 for n in seen.values()])
    # ---- O2: exactly one of {observation, miss} for the primary; no background misses; true reason ----
    n_prim = sum(1 for o in obs if getattr(o, "target_id", None) == prim_id)
    struct = [n_prim + len(missed) == 1]
    reasons = []
    c0 = conjuncts(W, sp, p, "T0")
    for m in missed:
        ok = (isinstance(m, MissedObservation) and m.target_id == prim_id and m.sensor_id == host.simulation_id
              and m.sensor_type == type(sensor).__name__ and float(m.julian_date) == float(sc.jd))
        struct.append(ok)
        try:
            why = X(m.reason)
        except ValueError:
            why = None
        if why == X.SLEW_DISTANCE:
            reasons.append(NOT(slew))
        elif why == X.FIELD_OF_VIEW:
            reasons.append(NOT(W.P(f"infov_{h}_E_T0")))
        elif why in c0:
            reasons.append(NOT(HI(c0[why])))
        else:
            reasons.append(False)  # no reason / a reason that is not a constraint of this sensor
    G["O2-exactly-one"] = AND(*struct)
    G["O2-reason-true"] = AND(*reasons)
    # ---- O3: pointing state moves iff the slew test passes ----------------------------------------------
    if check_state:
        pt = W.vecs.get(f"sez_{h}_E")
        if pt is None:
            G["O3-pointing"] = False
        else:
            moved_b, kept_b, moved_t, kept_t = [], [], EQ(tlt, sc.tnow), EQ(tlt, p["tlast"])
            if W.sym:
                n = z3.Real(_norm_name(3, {"sez", h, "E"}))
                for i in range(3):
                    moved_b.append(_raw(boresight[i]) * n == _raw(pt[i]))
                    kept_b.append(EQ(boresight[i], p["bore"][i]))
            else:
                n = math.sqrt(sum(float(x) ** 2 for x in pt[:3]))
                for i in range(3):
                    moved_b.append(EQ(boresight[i], float(pt[i]) / n) if n > 0 else True)
                    kept_b.append(EQ(boresight[i], p["bore"][i]))
            st = [EQ(a, b) for a, b in zip(boresight, sensor.boresight)] + [EQ(tlt, sensor.time_last_tasked)]
            G["O3-pointing"] = AND(len(boresight) == 3, len(sensor.boresight) == 3, *st, IMPL(slew, AND(moved_t, *moved_b)), IMPL(NOT(slew), AND(kept_t, *kept_b)))
    return G


def epoch_goal(W, sc):
    """Every slant-range vector was computed from the right sensor state, a known target state, at the host's epoch; the Sun position was
    asked for the host's epoch."""
    ok = True
    for h, t, utc, n1, n2 in W.sez_calls:
        ok = ok and (utc == JD_DT) and n1 == 6 and n2 == 6 and not h.endswith("_swapped")
    for jd in W.sun_jds:
        try:
            ok = ok and float(jd) == float(sc.jd)
        except (TypeError, ValueError):
            ok = False
    return ok


# ----------------------------------------------------------------------------------------------------------------------
# model -> concrete inputs; replay
# ----------------------------------------------------------------------------------------------------------------------
def _robust(W, sc):
    """Margins that keep a counterexample away from every comparison boundary (for robust float replay)."""
    eps = rv(1e-3)
    cs = []

    def far(a, b):
        a = a if _isz(a) else rv(a)
        b = b if _isz(b) else rv(b)
        cs.append(z3.Or(a - b > eps, b - a > eps))

    for sp, p in zip(sc.specs, sc.par):
        h = p["h"]
        tags = [t.tag for t in sc.targets] + ["E"]
        for t in tags:
            rng, az, el = z3.Real(f"rng_{h}_{t}"), z3.Real(f"az_{h}_{t}"), z3.Real(f"el_{h}_{t}")
            if p["rmin"] is not None:
                far(rng, p["rmin"])
            if p["rmax"] is not None:
                far(rng, p["rmax"])
            far(el, p["el0"]), far(el, p["el1"]), far(az, p["az0"]), far(az, p["az1"])
            cs.append(z3.And(az > eps, az < TWOPI - eps, el > -HALFPI + eps, el < HALFPI - eps, rng > 1, rng < 1e6))
            if sp.optical:
                far(z3.Real(f"flux_{t}"), 0), far(z3.Real(f"vismag_{h}_{t}"), p["vmlim"])
            else:
                far(rng, z3.Real(f"q_{h}_{t}") * p["aux"])
                cs.append(z3.And(z3.Real(f"q_{h}_{t}") < 1000, p["aux"] < 1000))
        if sp.optical and sp.vischain:
            # limiting-magnitude chain on real geometry: every cosine that went through arccos and the oracle's own stay 1e-3 away from the
            # limit's; positions, area and reflectivity in ranges where doubles are comfortable
            ul = p["ulim"]
            for _a, u in (W.path.apps.get("arccos", []) if W.path is not None else []):
                if not z3.eq(u, ul):
                    far(u, ul)
            for lhs, rhs, scale in W.margins:
                cs.append(z3.Or(lhs - rhs > eps * scale, rhs - lhs > eps * scale))
            cs.append(z3.And(ul > rv(-0.95), ul < rv(0.95)))
            for t in tags:
                cs.append(z3.And(z3.Real(f"vcs_{t}") >= rv(0.01), z3.Real(f"vcs_{t}") <= 1000, z3.Real(f"refl_{t}") >= rv(0.01), z3.Real(f"refl_{t}") <= 1))
                dd = [z3.Real(f"eci_{t}_{i}") - z3.Real(f"eci_{h}_{i}") for i in range(3)]
                ds = [z3.Real(f"sun_{i}") - z3.Real(f"eci_{t}_{i}") for i in range(3)]
                cs.append(z3.And(sum(x * x for x in dd) >= 1, sum(x * x for x in ds) >= 1))
            for nm, n in [("sun", 3), (f"eci_{h}", 3)] + [(f"eci_{t}", 3) for t in tags]:
                cs += [z3.And(z3.Real(f"{nm}_{i}") >= -1e6, z3.Real(f"{nm}_{i}") <= 1e6) for i in range(n)]
        if W.gram is not None:
            # los-* / sun-* scenes: the oracle's own comparisons and every cosine that went through arccos stay away from the thresholds; squared
            # lengths in ranges where doubles are comfortable
            for lhs, rhs, scale in W.margins:
                cs.append(z3.Or(lhs - rhs > eps * scale, rhs - lhs > eps * scale))
            cs += [z3.And(t >= lo, t <= hi) for t, lo, hi in W.magnitudes]
            for _a, u in (W.path.apps.get("arccos", []) if W.path is not None else []):
                far(u, math.cos(SUN_CONE))
        far(p["az0"], p["az1"])
        far(p["rate"] * (sc.tnow.t - p["tlast"]), z3.Real(f"delta_{h}_E"))
        cs.append(z3.And(z3.Real(f"delta_{h}_E") > eps, z3.Real(f"delta_{h}_E") < PI - eps, p["rate"] < 10, sc.tnow.t - p["tlast"] < 1e5,
                         sc.tnow.t < 1e6, sc.tnow.t > -1e6))
    return cs + _normfacts(sc)


def _realism(W, sc):
    """Counterexample search only, vischain scenes: facts that are true of the real arccos / Lambertian phase function / log10 on a region
    (all cosines within 0.5 of zero and within 0.01 of the limit's), so that the solver's values of the contract variables are close to what
    the float code computes and a decision taken with a margin in the model is taken the same way by the real code.
      |arccos(u) - arccos(v)| <= 1.16 |u - v|                    for |u|, |v| <= 1/2      (1/sqrt(1 - 1/4) = 1.1547)
      0.0231 <= F(phi) <= 0.1293, |F(phi) - F(psi)| <= 0.124 |phi - psi|   for phi, psi in [pi/3, 2 pi/3]  (|F'| = 2 (pi - phi) sin(phi) / (3 pi^2))
      0.4342 (t2 - t) / t2 <= log10(t2) - log10(t) <= 0.4343 (t2 - t) / t   for 0 < t <= t2   (1/ln 10 = 0.43429...)"""
    if W.path is None:
        return []
    cs = []
    half, close = rv(0.5), rv(0.01)
    ab = lambda x: z3.If(x >= 0, x, -x)  # noqa: E731
    acs = W.path.apps.get("arccos", [])
    for i, (a, u) in enumerate(acs):
        cs.append(z3.And(u >= -half, u <= half))
        for a2, u2 in acs[:i]:
            cs.append(z3.And(ab(u - u2) <= close, ab(a - a2) <= rv(1.16) * ab(u - u2)))
    lam = W.path.apps.get("lambert", [])
    for i, (g, a) in enumerate(lam):
        cs.append(z3.And(g >= rv(0.0231), g <= rv(0.1293)))
        for g2, a2 in lam[:i]:
            cs.append(ab(g - g2) <= rv(0.124) * ab(a - a2))
    logs = W.path.apps.get("log10", [])
    for i, (l, t) in enumerate(logs):
        for l2, t2 in logs[:i]:
            lo, hi = z3.If(t <= t2, t, t2), z3.If(t <= t2, t2, t)
            dl = z3.If(t <= t2, l2 - l, l - l2)
            cs.append(z3.And(lo > 0, dl * hi >= rv(0.4342) * (hi - lo), dl * lo <= rv(0.4343) * (hi - lo)))
    return cs


def _normfacts(sc):
    """The pointing vector is non-zero and its norm variable is its norm (needed so that a float replay recomputes the same boresight)."""
    cs = []
    for p in sc.par:
        h = p["h"]
        s = [z3.Real(f"sez_{h}_E_{i}") for i in range(3)]
        n = z3.Real(_norm_name(3, {"sez", h, "E"}))
        cs += [s[0] * s[0] + s[1] * s[1] + s[2] * s[2] >= 1, n > 0, n * n == s[0] * s[0] + s[1] * s[1] + s[2] * s[2]]
    return cs


def _model_values(m, exprs, names, vecs):
    """Values of every registered primitive, every vector component and every variable occurring in the goal."""
    vals = {}
    for n, sort in names.items():
        vals[n] = bool(mval(m, z3.Bool(n))) if sort == "bool" else mfloat(m, z3.Real(n))
    for n, v in vecs.items():
        for i in range(len(v)):
            vals[f"{n}_{i}"] = mfloat(m, z3.Real(f"{n}_{i}"))
    seen, stack = set(), list(exprs)
    while stack:
        e = stack.pop()
        if e.get_id() in seen:
            continue
        seen.add(e.get_id())
        if z3.is_const(e) and e.decl().kind() == z3.Z3_OP_UNINTERPRETED:
            n = str(e)
            if n not in vals and "!" not in n:
                vals[n] = bool(mval(m, e)) if z3.is_bool(e) else mfloat(m, e)
        else:
            stack.extend(e.children())
    return vals


def _vars_of(t, memo):
    """Names of the uninterpreted constants of t; memo (term id -> frozenset) is shared over the terms of one path, whose sub-terms overlap
    heavily (the terms are kept alive by the caller, so ids are not reused)."""
    i = t.get_id()
    hit = memo.get(i)
    if hit is not None:
        return hit
    stack = [(t, False)]
    while stack:
        e, done = stack.pop()
        j = e.get_id()
        if j in memo:
            continue
        ch = e.children()
        if not ch:
            memo[j] = frozenset([str(e)]) if (z3.is_const(e) and e.decl().kind() == z3.Z3_OP_UNINTERPRETED) else frozenset()
        elif done:
            memo[j] = frozenset().union(*[memo[c.get_id()] for c in ch])
        else:
            stack.append((e, True))
            stack.extend((c, False) for c in ch if c.get_id() not in memo)
    return memo[i]


def _cone(goal, cons, memo=None):
    """Cone of influence: the constraints connected with the goal through shared variables (transitively).  The rest is over other
    variables and satisfiable on a feasible path, so dropping it changes no verdict."""
    V = set(free_vars(goal) if memo is None else _vars_of(goal, memo))
    cs = cons if (cons and isinstance(cons[0], tuple)) else [(c, free_vars(c)) for c in cons]  # (constraint, its variables) pairs are accepted
    keep = [not fv for _, fv in cs]
    changed = True
    while changed:
        changed = False
        for i, (_, fv) in enumerate(cs):
            if not keep[i] and fv & V:
                keep[i] = True
                V |= fv
                changed = True
    return [c for k, (c, _) in zip(keep, cs) if k]  # original order (z3's timing depends on it)


class _MergedModel:
    """Models of variable-disjoint components, looked up by the variables of the term asked for."""

    def __init__(self, parts):
        self.parts = parts  # [(variables, model)]

    def eval(self, t, model_completion=True):
        fv = free_vars(t)
        for vs, m in self.parts:
            if fv & vs:
                return m.eval(t, model_completion=model_completion)
        return self.parts[0][1].eval(t, model_completion=model_completion)


def _solve_components(formulas, timeout_ms):
    """Conjunction of formulas decided component by component (components share no variable): ('sat', merged model) / ('unsat', None) /
    ('unknown', None)."""
    todo = [(f, free_vars(f)) for f in formulas]
    parts = []
    while todo:
        f, V = todo.pop()
        comp, V = [f], set(V)
        changed = True
        while changed:
            changed = False
            rest = []
            for g, fv in todo:
                if fv & V:
                    comp.append(g)
                    V |= fv
                    changed = True
                else:
                    rest.append((g, fv))
            todo = rest
        v = solve(comp, timeout_ms)
        if v.status != "sat":
            return v.status, None
        parts.append((V, v.model))
    return "sat", _MergedModel(parts)


def _mk_inputs(W, sc, mode, goal, cons, extra=None):
    names = dict(W.names)

    def inputs(m):
        # prefer a counterexample that stays away from the comparison boundaries (robust in doubles)
        rb = _robust(W, sc)
        for extra_cs in (((rb + _realism(W, sc),) if W.vischain else ()) + (rb, _normfacts(sc)) + (([],) if W.vischain else ())):
            try:
                if W.vischain:  # the proof query was cut to the goal's cone of influence: complete the model component by component
                    st, mm = _solve_components(list(cons) + extra_cs + [z3.Not(goal)], 6000)
                    v = Verdict(st, mm)
                else:
                    v = refute(goal, list(cons) + extra_cs, 10000)
            except Exception:  # noqa: BLE001
                continue
            if v.status == "sat":
                m = v.model
                break
        vals = _model_values(m, [goal], names, W.vecs)
        sc.realise(mode, vals)
        d = {"mode": mode, "specs": [s.asdict() for s in sc.specs], "nbg": sc.nbg, "values": vals}
        d.update(extra or {})
        return d

    return inputs


def _concrete_scene(d, realgeo):
    vals = dict(d["values"])
    specs = [Spec(**s) for s in d["specs"]]
    W = World(values=vals, realgeo=realgeo, noise="zero" if d["mode"] in ("collect", "async") else "draw", vischain=any(s.vischain for s in specs))
    sc = Scene(W, specs, d["nbg"])
    if realgeo:
        # prior boresight realising the slew angle delta against the (constructed) pointing direction
        for p, s in zip(sc.par, sc.sensors):
            h = p["h"]
            az, el = vals.get(f"az_{h}_E", 0.0), vals.get(f"el_{h}_E", 0.0)
            u = np.array([-math.cos(el) * math.cos(az), math.cos(el) * math.sin(az), math.sin(el)])
            w = np.cross(u, [0.0, 0.0, 1.0])
            if np.linalg.norm(w) < 1e-6:
                w = np.cross(u, [1.0, 0.0, 0.0])
            w /= np.linalg.norm(w)
            dl = vals.get(f"delta_{h}_E", 0.0)
            b = TVec(list(math.cos(dl) * u + math.sin(dl) * w), {"bore", h})
            s.boresight = b
            p["bore"] = b
            W.vecs[f"bore_{h}"] = b
    return W, sc


def _run_mode(W, sc, d):
    """Run the real code for one scene; returns {name: goal value} (z3 or python)."""
    mode = d["mode"] if isinstance(d, dict) else d
    sc.arm_chain(mode)
    if mode == "collect":
        with _Shadows(W):
            sc.arm_limits("collect")
            obs, missed, bore, tlt = sc.sensors[0].collectObservations(sc.estimate.eci_state, sc.primary, list(sc.background))
            W.pin_arccos()
        G = outcome_goals(sc, 0, obs, missed, bore, tlt)
        G["O1-epoch"] = epoch_goal(W, sc)
        return G, {"obs": [(o.target_id) for o in obs], "missed": [(m.target_id, m.reason) for m in missed]}
    if mode == "async":
        from resonaate.parallel import tasking_execution as TE

        handles = {t.simulation_id: t for t in sc.targets}
        sub = TE.TaskExecutionSubmission(estimate_handle=sc.estimate, target_handles=handles, sensor_handle_list=list(sc.hosts))
        with _Shadows(W, with_async=True):
            res = TE.asyncExecuteTasking._function(sub)
        G = {}
        ok_top = isinstance(res, TE.TaskExecutionResult) and res.target_id == sc.primary.simulation_id and len(res.sensor_info_list) == len(sc.hosts)
        ok_top = ok_top and all(getattr(x, "sensor_id", None) in sc.k_of_sid for x in list(res.observations) + list(res.missed_observations))
        G["O2a-result-shape"] = bool(ok_top)
        if ok_top:
            for k, host in enumerate(sc.hosts):
                info = res.sensor_info_list[k]
                obs = [o for o in res.observations if o.sensor_id == host.simulation_id]
                missed = [m for m in res.missed_observations if m.sensor_id == host.simulation_id]
                okinfo = info.get("sensor_id") == host.simulation_id and "boresight" in info and "time_last_tasked" in info
                G["O2a-result-shape"] = G["O2a-result-shape"] and okinfo
                if not okinfo:
                    continue
                for n, g in outcome_goals(sc, k, obs, missed, info["boresight"], info["time_last_tasked"]).items():
                    G[f"{n}@{host.tag}"] = g
        G["O1-epoch"] = epoch_goal(W, sc)
        return G, {"obs": [(o.sensor_id, o.target_id) for o in getattr(res, "observations", [])],
                   "missed": [(m.sensor_id, m.target_id, m.reason) for m in getattr(res, "missed_observations", [])]}
    if mode == "predict":
        from resonaate.data.observation import Observation
        from resonaate.tasking.predictions import predictObservation

        sp, p, host, sensor = sc.specs[0], sc.par[0], sc.hosts[0], sc.sensors[0]
        with _Shadows(W):
            sc.arm_limits("predict")
            out = predictObservation(host, sc.estimate)
            W.pin_arccos()
        c = conjuncts(W, sp, p, "E")
        G = {}
        h = p["h"]
        if out is None:
            G["O4-iff"] = NOT(AND(slew_ok(W, p, sc.tnow), *[HI(x) for x in c.values()]))
        else:
            G["O4-iff"] = AND(slew_ok(W, p, sc.tnow), *[LO(x) for x in c.values()])
            vals = {"azimuth_rad": W.P(f"az_{h}_E"), "elevation_rad": W.P(f"el_{h}_E"), "range_km": W.P(f"rng_{h}_E"), "range_rate_km_p_sec": W.P(f"rr_{h}_E")}
            lab = expected_labels(sp)
            ok = (isinstance(out, Observation) and out.target_id == sc.estimate.simulation_id and out.sensor_id == host.simulation_id
                  and out.sensor_type == type(sensor).__name__ and float(out.julian_date) == float(sc.jd))
            G["O4-noise-off-record"] = AND(ok, *[EQ(getattr(out, n), vals[n]) if n in lab else (getattr(out, n) is None) for n in vals]) if ok else False
        G["O4-state-untouched"] = AND(*[EQ(a, b) for a, b in zip(sensor.boresight, p["bore"])], EQ(sensor.time_last_tasked, p["tlast"]), len(sensor.boresight) == 3)
        G["O1-epoch"] = epoch_goal(W, sc)
        return G, {"prediction": out is not None}
    raise ValueError(mode)


def _chain_geometry(W, sc):
    """los-* / sun-* replays: the positions the real code ran on and the quantity the oracle decided from them."""
    h = sc.hosts[0].tag
    pos = lambda n: [float(x) for x in W.vecs[n][:3]]  # noqa: E731
    out = {"sensor": pos(f"eci_{h}")}
    for t in sorted(W.formal):
        out[f"target {t}"] = pos(f"eci_{t}")
        ph, pt = np.array(out["sensor"]), np.array(out[f"target {t}"])
        if W.chain == "los":
            d = pt - ph
            lam = min(1.0, max(0.0, -float(ph @ d) / float(d @ d)))
            out[f"closest approach of the segment sensor -> {t} to the geocentre (km)"] = float(np.linalg.norm(ph + lam * d))
            out["Earth radius (km)"] = _earth_radius()
        else:
            sun = np.array(pos("sun"))
            out["Sun"] = sun.tolist()
            ang = lambda a, b: math.degrees(math.acos(max(-1.0, min(1.0, float(a @ b) / float(np.linalg.norm(a) * np.linalg.norm(b))))))  # noqa: E731
            out[f"angle line of sight / Sun direction, {t} (deg; Sun seen from target, from sensor)"] = [ang(pt - ph, sun - pt), ang(pt - ph, sun - ph)]
    return out


def replay_scene(d):
    """Level 1: real range/azimuth/elevation/slew-angle code on constructed vectors; level 2: those four answered with the model's values.
    Everything else is the real pipeline code on floats; the oracle is re-evaluated in python on the same values."""
    detail = {}
    for level, realgeo in (("real-geometry", True), ("model-primitives", False)):
        W, sc = _concrete_scene(d, realgeo)
        try:
            G, out = _run_mode(W, sc, d)
        except Exception as e:  # noqa: BLE001
            detail[level] = f"raised {type(e).__name__}: {e}"
            continue
        asked = d.get("goals")
        bad = sorted(n for n, g in G.items() if not bool(g) and (asked is None or n in asked))
        detail[level] = {"violated": bad, "reported": out}
        if bad:
            vals = d["values"]
            keep = {k: v for k, v in vals.items() if k.split("_")[0] in ("rng", "az", "el", "los", "infov", "delta", "rate", "tnow", "tlast", "rmin", "rmax", "az0", "az1",
                                                                        "el0", "el1", "q", "aux", "flux", "vismag", "vmlim", "gal", "spl", "limb", "dark", "ulim", "sun", "vcs", "refl")
                    or (k.startswith("eci_") and any(s.get("vischain") for s in d["specs"]))}
            lim = [p.get("vmlim") for p in sc.par if p.get("ulim") is not None]
            if lim:
                keep["detectable_vismag (from ulim)"] = lim
            if W.chain:
                keep["positions (km, ECI)"] = _chain_geometry(W, sc)
            return True, {"level": level, "violated": bad, "reported": out, "primitives": keep, "specs": d["specs"]}
    return False, detail


# ----------------------------------------------------------------------------------------------------------------------
# obligations over scenes
# ----------------------------------------------------------------------------------------------------------------------
def _tag(r):
    return "".join("T" if x else "F" for x in r.path.decisions)


def _portfolio(goal, use, domain_ids):
    """The geometric queries of the vischain scenes, asked several ways (measured: on the very same query z3's default pipeline needs 0.02 s or
    14 s or no answer in 20 s depending on one unrelated constraint more or less; nlsat alone decides most in 0.03 s and a few not at all).
    Any 'unsat' is conclusive (dropping constraints only weakens the hypotheses); 'sat' is taken only from the complete constraint set.
    Returns (Verdict, how)."""
    slim = [c for c in use if c.get_id() not in domain_ids]
    attempts = [("z3 default", use, None, 2500), ("nlsat", use, "qfnra-nlsat", 2500), ("z3 default, domain facts dropped", slim, None, 2500),
                ("nlsat, domain facts dropped", slim, "qfnra-nlsat", 2500), ("z3 default, constraints in reverse order", use[::-1], None, 2500),
                ("z3 default, 20 s", use, None, 20000)]
    v = None
    for how, cs, tactic, ms in attempts:
        v = refute(goal, cs, ms, tactic)
        if v.status == "unsat" or (v.status == "sat" and cs is not slim):
            return v, how
    return Verdict("unknown", None, v.secs, v.reason), "all"


def _geometry_pins(sc):
    """Search restriction for counterexamples of vischain scenes (see o_scene): reference target at the origin (then: at x = 2), sensor on the
    x axis, Sun in the x-y plane (the constraint depends on differences of positions only).  List of alternatives, tried in order."""
    out = []
    for x in (0, 2):  # second try: target off the origin (for code that divides by the target's distance from the origin)
        cs = []
        for p in sc.par:
            if p.get("vmref") is None:
                continue
            h, t = p["h"], p["vmref"]
            cs += [z3.Real(f"eci_{t}_0") == x] + [z3.Real(f"eci_{t}_{i}") == 0 for i in (1, 2)] + [z3.Real(f"eci_{h}_{i}") == 0 for i in (1, 2)] + [z3.Real("sun_2") == 0]
        out.append(cs)
    return out


def _conjuncts_of(g):
    """Top-level conjuncts of a z3 formula (syntactically true ones dropped)."""
    out, stack = [], [g]
    while stack:
        e = stack.pop()
        if z3.is_and(e):
            stack.extend(reversed(e.children()))
        elif not z3.is_true(e):
            out.append(e)
    return out or [z3.BoolVal(True)]


def o_scene(rep, mode, specs, nbg, max_paths=20000, expect_reasons=None, need_bg_obs=True):
    state = {}

    def run():
        W = World(noise="zero" if mode in ("collect", "async") else "draw", vischain=any(s.vischain for s in specs))
        sc = Scene(W, specs, nbg)
        G, out = _run_mode(W, sc, mode)
        return W, sc, G, out

    # vischain scenes: branch feasibility questions over the position vectors are answered in milliseconds on the unchanged code; a short limit
    # keeps a changed chain from eating the budget (no answer in time = both sides are explored, which is sound)
    res = explore(run, max_paths=max_paths, max_depth=400, branch_timeout_ms=1500 if any(s.vischain for s in specs) else 10000)
    rep.note(f"{mode} {[(s.kind, 'space' if s.space else 'ground') for s in specs]} nbg={nbg}: paths={len(res)}")
    seen_reasons, n_obs_prim, n_obs_bg, n_noslew, n_pred = set(), 0, 0, 0, 0
    chain_sides = set()
    samples = {
        "O1-constraints": "every reported observation: FoV about the commanded pointing, range limits, LoS, masks, phenomenology all hold",
        "O1-slew-reach": "every reported observation was made after a pointing the sensor could slew to",
        "O1-record": "reported record: right sensor/target/epoch/type, measurement = geometry of that target (zero noise draw), at most one per target",
        "O2-exactly-one": "primary target: exactly one of {observation, miss}; misses only for the primary",
        "O2-reason-true": "a miss names a constraint of this sensor that really fails",
        "O3-pointing": "boresight/time_last_tasked = normalised pointing/host time iff slew passes, else unchanged",
        "O4-iff": "prediction returned iff slew and all visibility constraints hold for the estimate (no FoV test)",
    }
    first = True
    violated = set()
    trivial = 0
    for r in res:
        if r.exc is not None:
            rep.error(f"exception[{_tag(r)}]", repr(r.exc))
            continue
        W, sc, G, out = r.out
        cons = r.constraints
        if first:
            rep.reachable("assumptions", W.pre)
            first = False
        tag = _tag(r)
        for m in out.get("missed", []):
            seen_reasons.add(str(m[-1]))
        if mode == "collect":
            n_obs_prim += sc.primary.simulation_id in out["obs"]
            n_obs_bg += any(t != sc.primary.simulation_id for t in out["obs"])
            n_noslew += any(str(m[-1]).startswith("Slew") for m in out["missed"])
        if mode == "async":
            n_obs_prim += any(t == sc.primary.simulation_id for _, t in out["obs"])
            n_obs_bg += any(t != sc.primary.simulation_id for _, t in out["obs"])
            n_noslew += any(str(m[-1]).startswith("Slew") for m in out["missed"])
        if mode == "predict":
            n_pred += bool(out["prediction"])
        if W.gram is not None:
            gn = set(W.gram.var_names()) | {str(a) for a, _u in r.path.apps.get("arccos", [])}
            dec = [bool(d) for c, d in zip(r.path.pc, r.path.decisions) if free_vars(c) & gn]
            chain_sides |= set(dec[-1:])  # the last decision over the positions on this path: the un-stubbed predicate's verdict
        # one query per path: the conjunction of all goal classes (trivially true ones dropped); the replay names the violated classes
        active = {}
        for name, g in G.items():
            if name.split("@")[0] in violated:
                continue  # one replayed counterexample per goal class and obligation is enough
            if not _isz(g):
                if bool(g):
                    continue
                g = z3.BoolVal(False)
            if z3.is_true(z3.simplify(g)):
                continue
            active[name] = g
        if not active:
            trivial += 1
            continue
        # scenes with the limiting-magnitude chain on real geometry carry non-linear path constraints: one query per conjunct of each goal
        # class there (measured: the conjunction 10 s, the conjuncts one by one 0.02 s each)
        if W.vischain or W.gram is not None:
            groups = []
            memo, alive = {}, []  # every term the memo has seen stays referenced while the memo is in use (z3 reuses the ids of freed terms)
            cons_fv = [(c, _vars_of(c, memo)) for c in cons]
            for n, g in active.items():
                parts = _conjuncts_of(g)
                groups += [(f"path[{tag}]:{n}" + (f"#{i}" if len(parts) > 1 else ""), {n: c}) for i, c in enumerate(parts)]
        else:
            groups = [(f"path[{tag}]", active)]
        for label, grp in groups:
            grp = {n: g for n, g in grp.items() if n.split("@")[0] not in violated}
            if not grp:
                continue
            conj = z3.And(*grp.values())
            # known finding: the only thing wrong is an observation reported although the commanded pointing was out of slew reach
            sl = [g for n, g in grp.items() if n.split("@")[0] == "O1-slew-reach"]
            regions = {FINDING_BG_NOSLEW: z3.And(z3.Not(z3.And(*sl)), *[g for n, g in grp.items() if n.split("@")[0] != "O1-slew-reach"])} if sl else None
            nv, ne = len(rep.violations), sum(1 for i in rep.items if i["verdict"] == "error")
            use, full = cons, cons
            what = "; ".join(sorted({samples.get(n.split('@')[0], n) for n in grp}))
            if W.gram is not None:
                # los-* / sun-* scenes: one query per conjunct on its cone of influence; first without the 3x3 determinant fact of the Gram
                # cut (it couples the cut variables of all pairs; dropping a hypothesis only weakens them, so unsat is conclusive)
                alive.append(conj)
                heavy = {c.get_id() for c in getattr(W, "heavy", [])}
                gv = _vars_of(conj, memo)
                done = False
                for how, cs in (("constraints over the goal's variables only", [c for c, fv in cons_fv if fv <= gv]),
                                ("cone of influence, determinant fact dropped", _cone(conj, [(c, fv) for c, fv in cons_fv if c.get_id() not in heavy], memo))):
                    v = refute(conj, cs, 5000)
                    if v.status == "unsat":
                        rep._item(label, "prove", v, {"how": how})
                        rep.sample({"obligation": f"{rep.ob}:{label}", "verdict": v.status, "what": what})
                        done = True
                        break
                if done:
                    continue
                use = _cone(conj, cons_fv, memo)
            if W.vischain:
                alive.append(conj)
                use = _cone(conj, cons_fv, memo)
                if any(v.startswith("ulim_") for v in _vars_of(conj, memo)):
                    v, how = _portfolio(conj, use, {c.get_id() for c in r.path.domain})
                    if v.status == "unsat":
                        rep._item(label, "prove", v, {"how": how})
                        rep.sample({"obligation": f"{rep.ob}:{label}", "verdict": v.status, "what": what})
                        continue
                    # counterexample search only (never a proof): nlsat finds models of the 9-coordinate geometry slowly, so a candidate is
                    # looked for with the target at the origin of the coordinates, the sensor on the x axis and the Sun in the x-y plane; only
                    # when that gives one are the pins kept (the candidate is replayed like any other)
                    pinned = False
                    for pins in _geometry_pins(sc):
                        if refute(conj, use + pins, 5000).status == "sat":
                            use, full, pinned = use + pins, list(cons) + pins, True
                            break
                    if not pinned and v.status != "sat":
                        rep.undecided(label, f"no verdict from the portfolio (default / nlsat / domain facts dropped / reversed; last: {v.reason}) and no pinned candidate")
                        continue
            rep.prove(label, conj, use, timeout_ms=20000, inputs=_mk_inputs(W, sc, mode, conj, full, {"goals": sorted(grp)}), replay=replay_scene,
                      regions=regions, sample=what)
            if len(rep.violations) > nv:
                det = rep.violations[-1].get("detail") or {}
                bad = {n.split("@")[0] for n in (det.get("violated") or [])} or {n.split("@")[0] for n in grp}
                violated |= bad
                rep.note(f"violation of {sorted(bad)} on path {tag}; these goal classes are not queried on further paths")
            elif W.vischain and sum(1 for i in rep.items if i["verdict"] == "error") > ne:
                # a candidate that the float code does not reproduce (the monotonicity contracts fix no magnitude values): reported once per class
                violated |= {n.split("@")[0] for n in grp}
                rep.note(f"candidate for {sorted(grp)} on path {tag} did not reproduce; these goal classes are not queried on further paths")
    rep.note(f"paths whose goals are all syntactically true: {trivial}")
    # ---- vacuity guards (when the code under test already violates the property a missing outcome class is reported as a note) ----------
    guard = rep.error if not (rep.violations or rep.known_hits) else (lambda label, why: rep.note(f"{label}: {why}"))
    if expect_reasons is not None:
        missing = sorted(set(expect_reasons) - seen_reasons)
        if missing:
            guard("reach-reasons", f"miss reasons never produced on any path: {missing}")
        else:
            rep.note(f"miss reasons reached: {sorted(seen_reasons)}")
    if mode in ("collect", "async"):
        if not n_obs_prim:
            guard("reach-primary-observation", "no path reports an observation of the primary")
        if need_bg_obs and nbg and not n_obs_bg:
            guard("reach-background-observation", "no path reports a background observation")
        if not n_noslew:
            guard("reach-slew-fail", "no path fails the slew test")
    if specs[0].chain and chain_sides != {True, False}:
        guard("reach-chain", f"the un-stubbed {specs[0].chain} predicate must be decided both ways on the positions (seen: {sorted(chain_sides)})")
    if mode == "predict" and (n_pred == 0 or n_pred == len(res)):
        guard("reach-prediction", "both outcomes (prediction / None) must be reachable")


def _expected_reasons(sp):
    from resonaate.common.labels import Explanation as X

    base = [X.SLEW_DISTANCE, X.FIELD_OF_VIEW, X.LINE_OF_SIGHT, X.ELEVATION_MASK, X.AZIMUTH_MASK]
    if sp.rmin and not sp.reduced:
        base.append(X.MINIMUM_RANGE)
    if sp.rmax:
        base.append(X.MAXIMUM_RANGE)
    if sp.reduced:
        base = [X.SLEW_DISTANCE, X.FIELD_OF_VIEW, X.LINE_OF_SIGHT] + ([X.MAXIMUM_RANGE] if sp.rmax else [])
    if sp.optical:
        base += [X.SOLAR_FLUX, X.VIZ_MAG, X.GALACTIC_EXCLUSION] + ([X.SPACE_ILLUMINATION, X.LIMB_OF_EARTH] if sp.space else [X.GROUND_ILLUMINATION])
    else:
        base.append(X.RADAR_SENSITIVITY)
    return [x.value for x in base]


# ----------------------------------------------------------------------------------------------------------------------
# O5: noise-off measurement = geometry at the observation's own epoch
# ----------------------------------------------------------------------------------------------------------------------
def _measure_run(W, kind, when, noisy=False):
    """Real Observation.fromMeasurement -> Measurement.calculateMeasurement on the sensor kind's real Measurement object."""
    from resonaate.data.observation import Observation
    from resonaate.physics import measurements as MS
    from resonaate.physics.time.stardate import datetimeToJulianDate

    sensor = _mk_sensor(kind, _fov_stub(W), True)
    sen = W.vec("eci_H0", 6, {"H0"})
    tgt = W.vec("eci_T0", 6, {"T0"})
    jd = datetimeToJulianDate(when)

    class RandomStub:
        randn = staticmethod(W.randn)

    with shadow(MS, getSlantRangeVector=W.getSlantRangeVector, getAzimuth=W.getAzimuth, getElevation=W.getElevation, random=RandomStub):
        direct = sensor.measurement.calculateMeasurement(sen, tgt, when) if not noisy else None
        ob = Observation.fromMeasurement(epoch_jd=jd, target_id=11, tgt_eci_state=tgt, sensor_id=100, sensor_eci=sen, sensor_type=type(sensor).__name__,
                                         measurement=sensor.measurement, noisy=noisy)
    return sensor, sen, tgt, jd, direct, ob


def _measure_goals(W, kind, when, sensor, sen, tgt, jd, direct, ob):
    sp = Spec(kind, False)
    lab = expected_labels(sp)
    s = W.vecs.get("sez_H0_T0")
    G = {}
    calls_ok = len(W.sez_calls) > 0 and all(c == ("H0", "T0", when, 6, 6) for c in W.sez_calls)
    G["O5-geometry-at-own-epoch"] = bool(calls_ok and s is not None)
    if not G["O5-geometry-at-own-epoch"]:
        return G
    az, el = W.P("az_H0_T0"), W.P("el_H0_T0")

    def meas_ok(get):
        gs = [EQ(get("azimuth_rad"), az), EQ(get("elevation_rad"), el)]
        if "range_km" in lab:
            rg, rr = _raw(get("range_km")), _raw(get("range_rate_km_p_sec"))
            if W.sym:
                sq = sum((_raw(s[i]) * _raw(s[i]) for i in range(3)), rv(0))
                dt = sum((_raw(s[i]) * _raw(s[i + 3]) for i in range(3)), rv(0))
                gs += [rg >= 0, rg * rg == sq, rr * rg == dt]
            else:
                sq = math.sqrt(sum(float(s[i]) ** 2 for i in range(3)))
                gs += [EQ(rg, sq), EQ(rr, sum(float(s[i]) * float(s[i + 3]) for i in range(3)) / sq)]
        return gs

    if direct is not None:
        G["O5-labels"] = list(direct.keys()) == lab
        if G["O5-labels"]:
            G["O5-calculateMeasurement"] = AND(*meas_ok(lambda n: direct[n]))
    others = [n for n in ("azimuth_rad", "elevation_rad", "range_km", "range_rate_km_p_sec") if n not in lab]
    rec = (ob.target_id == 11 and ob.sensor_id == 100 and float(ob.julian_date) == float(jd) and all(getattr(ob, n) is None for n in others)
           and all(getattr(ob, n) is not None for n in lab) and ob.measurement is sensor.measurement)
    G["O5-fromMeasurement"] = AND(*meas_ok(lambda n: getattr(ob, n)), *[EQ(a, b) for a, b in zip(ob.sensor_eci, sen)]) if rec else False
    return G


def replay_measure(d):
    W = World(values=dict(d["values"]), realgeo=False, noise="draw")
    when = _dt.datetime.fromisoformat(d["when"])
    args = _measure_run(W, d["kind"], when)
    G = _measure_goals(W, d["kind"], when, *args)
    bad = sorted(n for n, g in G.items() if not bool(g))
    ob = args[-1]
    return bool(bad), {"violated": bad, "observation": {n: getattr(ob, n) for n in ("azimuth_rad", "elevation_rad", "range_km", "range_rate_km_p_sec")},
                       "sez": list(map(float, W.vecs.get("sez_H0_T0", []))), "az_el": [d["values"].get("az_H0_T0"), d["values"].get("el_H0_T0")]}


def o_measure(rep, kind, whens):
    n = 0
    for when in whens:
        def run(when=when):
            W = World(noise="draw")
            args = _measure_run(W, kind, when)
            return W, _measure_goals(W, kind, when, *args)

        res = explore(run, max_paths=8)
        for r in res:
            if r.exc is not None:
                rep.error("exception", repr(r.exc))
                continue
            W, G = r.out
            s = [z3.Real(f"sez_H0_T0_{i}") for i in range(6)]
            cons = r.constraints + [s[0] * s[0] + s[1] * s[1] + s[2] * s[2] > 0]
            if n == 0:
                rep.reachable("assumptions", cons)
            n += 1
            names = dict(W.names)

            def inputs(m, W=W, names=names, when=when, G=G):
                vals = _model_values(m, [g for g in G.values() if _isz(g)], names, W.vecs)
                for k in range(1, W.randn_calls + 1):
                    for i in range(4):
                        vals[f"w_{k}_{i}"] = mfloat(m, z3.Real(f"w_{k}_{i}"))
                return {"kind": kind, "when": when.isoformat(), "values": vals}

            for name, g in G.items():
                g = g if _isz(g) else z3.BoolVal(bool(g))
                rep.prove(f"{name}[{when.isoformat()}]", g, cons, timeout_ms=30000, inputs=inputs, replay=replay_measure,
                          sample="noise off: reported az/el/range/range-rate are those of the slant-range vector sensor->target at the observation's own epoch")
    if n == 0:
        rep.error("reach", "no path")


# ----------------------------------------------------------------------------------------------------------------------
# obligation table
# ----------------------------------------------------------------------------------------------------------------------
WHENS_QUICK = [_dt.datetime(2021, 3, 30, 16, 0, 1), _dt.datetime(2019, 2, 1, 0, 0, 0)]
WHENS_THOROUGH = WHENS_QUICK + [_dt.datetime(2020, 2, 29, 23, 59, 59), _dt.datetime(2024, 12, 31, 12, 30, 37)]

KINDS = [("radar", False), ("advradar", True), ("optical", False), ("optical", True)]
# ------------------------------------------------------------------------------------------------
# noise shape: what "within the sensor's stated noise" means algebraically
# ------------------------------------------------------------------------------------------------
def replay_noise(d):
    import numpy as np
    from resonaate.physics.measurements import Measurement

    R = np.array(d["R"], dtype=float)
    m = Measurement.fromMeasurementLabels(["azimuth_rad", "elevation_rad"], R)
    S = np.asarray(m._sqrt_noise_covar, dtype=float)
    err = np.abs(S @ S.T - R).max() if np.all(np.isfinite(S)) else float("inf")
    return (not np.isfinite(err)) or err > 1e-9 * max(1.0, np.abs(R).max()), {"S": S.tolist(), "S S^T": (S @ S.T).tolist(), "R": R.tolist(), "max_error": float(err)}


def o_noise(rep):
    """The noise added to a measurement is S z with z the generator's standard-normal draw and S S^T = R (the stated covariance),
    for every symmetric positive-definite R - correlated components included."""
    import numpy as np
    import z3
    from resonaate.physics import measurements as ME
    from symx.core import eq_arrays, marray, reals, single_path
    from symx.stubs import sym_array

    with single_path(recip=False) as p:
        L = np.empty((2, 2), dtype=object)
        l00, l10, l11 = real("l00"), real("l10"), real("l11")
        assume(l00.t > 0, l11.t > 0)
        L[0, 0], L[0, 1], L[1, 0], L[1, 1] = l00, SReal(0), l10, l11
        R = L.dot(L.T)
        z = reals("z", 2)
        calls = []

        def sqrtm_contract(M):
            """scipy.linalg.sqrtm -> the principal square root: a symmetric X with X X = M (contract)."""
            X = np.empty((2, 2), dtype=object)
            a, b, c = real("sq_a"), real("sq_b"), real("sq_c")
            X[0, 0], X[0, 1], X[1, 0], X[1, 1] = a, b, b, c
            XX = X.dot(X)
            for i in range(2):
                for j in range(2):
                    assume(XX[i, j].t == M[i, j].t)
            calls.append(M)
            return X

        rnd = types.SimpleNamespace(randn=lambda n: z)
        with shadow(ME, sqrtm=sqrtm_contract, real=lambda x: x, isPD=lambda M: True, random=rnd, zeros_like=lambda M: np.zeros(np.shape(M))):
            m = ME.Measurement.fromMeasurementLabels(["azimuth_rad", "elevation_rad"], R)
            S = np.asarray(m._sqrt_noise_covar, dtype=object)
            noise = m.noise
        cons = p.constraints()
        inputs = lambda mm: {"R": marray(mm, R).tolist()}  # noqa: E731
        rep.reachable("noise-assumptions", cons + [l10.t != 0])
        rep.prove("noise-covariance", eq_arrays(S.dot(S.T), R), cons, linearize=True, timeout_ms=60000, inputs=inputs, replay=replay_noise,
                  sample="stored noise transform S satisfies S S^T = R for every symmetric positive-definite R (off-diagonal terms included)")
        rep.prove("noise-is-S-z", eq_arrays(np.asarray(noise, dtype=object), S.dot(z)), cons, sample="noise vector = S z with z the generator's standard-normal draw")



REPLAYS = {}


def _name(sp):
    return f"{sp.kind}-{'space' if sp.space else 'ground'}"


def obligations(tier):
    obs = []

    def add(name, fn, desc, t, rp=replay_scene):
        obs.append(Ob(name, fn, desc, t))
        REPLAYS[name] = rp

    add("noise-covariance", o_noise, "noise added to a measurement is S z with S S^T = R", 120, rp=replay_noise)
    nbg = 1 if tier == "quick" else 2
    for kind, space in KINDS:
        sp = Spec(kind, space)
        add(f"collect-{_name(sp)}", (lambda sp, n: lambda rep: o_scene(rep, "collect", [sp], n, expect_reasons=_expected_reasons(sp)))(sp, 1 if sp.optical else nbg),
            f"O1-O3 collectObservations, {_name(sp)}, 1 primary + {1 if sp.optical else nbg} background", 900 if tier != "quick" else 240)
        add(f"predict-{_name(sp)}", (lambda sp: lambda rep: o_scene(rep, "predict", [sp], 0))(sp), f"O4 predictObservation, {_name(sp)}", 240)
    # limiting magnitude on the real Sun / target / sensor geometry (phase angle from the position vectors)
    vis = ([("collect", False, "primary"), ("collect", False, "background"), ("predict", True, "primary")] if tier == "quick" else
           [(m, s, "primary") for m in ("collect", "predict") for s in (False, True)] + [("collect", s, "background") for s in (False, True)])
    for mode, space, ref in vis:
        sp = Spec("optical", space, reduced=True, vischain=ref)
        bg = ref == "background"
        add(f"vismag-{mode}{'-background' if bg else ''}-{_name(sp)}",
            (lambda sp, mode, bg: lambda rep: o_scene(rep, mode, [sp], int(bg), expect_reasons=_expected_reasons(sp) if mode == "collect" else None))(sp, mode, bg),
            f"O1/O2/O4 limiting magnitude decided on the Sun/target/sensor positions: {'collectObservations' if mode == 'collect' else 'predictObservation'}, "
            f"{_name(sp)}, full-sky masks, limit parametrised against the {'background target' if bg else 'primary target' if mode == 'collect' else 'estimate'}", 240)
    # line of sight / Sun cone decided on the positions: the real lineOfSight / checkSpaceSensorLightingConditions run inside the pipeline
    geo = [("los", "collect", "radar", True, 1, "primary"), ("los", "predict", "optical", True, 0, "primary"),
           ("sun", "collect", "optical", True, 0, "primary"), ("sun", "predict", "optical", True, 0, "primary")]
    if tier != "quick":
        geo += [("los", "collect", "optical", False, 1, "primary"), ("los", "predict", "advradar", False, 0, "primary"),
                ("sun", "collect", "optical", True, 1, "background")]
    for chain, mode, kind, space, n, ref in geo:
        sp = Spec(kind, space, reduced=True, chain=chain, chain_ref=ref)
        what = ("unobstructed line of sight decided on the sensor / target positions (segment against the Earth sphere)" if chain == "los" else
                "Sun exclusion decided on the Sun / target / sensor positions (angle between line of sight and Sun direction)")
        add(f"{chain}-{mode}{'-background' if ref == 'background' else ''}-{_name(sp)}",
            (lambda sp, mode, n: lambda rep: o_scene(rep, mode, [sp], n, expect_reasons=_expected_reasons(sp) if mode == "collect" else None))(sp, mode, n),
            f"O1/O2/O4 {what}: {'collectObservations' if mode == 'collect' else 'predictObservation'}, {_name(sp)}, full-sky masks, "
            f"{'1 primary + %d background' % n if mode == 'collect' else 'the estimate'}", 240)
    add("async-radar-ground", lambda rep: o_scene(rep, "async", [Spec("radar", False)], 1, expect_reasons=_expected_reasons(Spec("radar", False))),
        "O1-O3 through asyncExecuteTasking, 1 tasked radar + 1 background", 240)
    for kind in ("optical", "radar", "advradar"):
        add(f"measure-{kind}", (lambda kind: lambda rep: o_measure(rep, kind, WHENS_QUICK if tier == "quick" else WHENS_THOROUGH))(kind),
            f"O5 noise-off measurement = geometry at the observation's epoch, {kind}", 240, replay_measure)
    if tier != "quick":
        for kind, space in (("optical", True), ("radar", False)):
            for rmin, rmax, bg in ((False, True, True), (True, False, True), (True, True, False)):
                sp = Spec(kind, space, rmin=rmin, rmax=rmax, calc_bg=bg)
                add(f"collect-{_name(sp)}-{'nomin' if not rmin else 'nomax' if not rmax else 'nobg'}",
                    (lambda sp: lambda rep: o_scene(rep, "collect", [sp], 1, expect_reasons=_expected_reasons(sp), need_bg_obs=sp.calc_bg))(sp),
                    f"O1-O3 collectObservations, {_name(sp)}, minimum_range={'set' if rmin else None}, maximum_range={'set' if rmax else None}, background={bg}", 900)
        for space in (False, True):
            sp = Spec("optical", space, reduced=True)
            add(f"collect-{_name(sp)}-2bg-fullsky", (lambda sp: lambda rep: o_scene(rep, "collect", [sp], 2, expect_reasons=_expected_reasons(sp)))(sp),
                f"O1-O3 collectObservations, {_name(sp)}, full-sky masks and no minimum range, 1 primary + 2 background", 900)
        two = [Spec("radar", False, reduced=True), Spec("advradar", True, reduced=True)]
        add("async-two-sensors", lambda rep: o_scene(rep, "async", two, 1, expect_reasons=_expected_reasons(two[0])),
            "O1-O3 through asyncExecuteTasking, 2 tasked radars (full-sky masks) + 1 background", 900)
        add("async-optical-space", lambda rep: o_scene(rep, "async", [Spec("optical", True)], 1, expect_reasons=_expected_reasons(Spec("optical", True))),
            "O1-O3 through asyncExecuteTasking, 1 tasked space optical + 1 background", 900)
    return obs


obligations("thorough")  # fills REPLAYS for `./check C02 --replay <file>` (superset of the quick tier's names)
