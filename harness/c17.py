"""C17 - maneuver detectors compute their documented statistic over any history."""
from __future__ import annotations

import numpy as np
import z3

from symx.core import SBool, SInt, SReal, assume, cur, explore, integer, marray, mfloat, mval, real, reals, rv, single_path
from symx.runner import Ob
from symx.stubs import inv_contract, shadow

ID = "C17"
TECHNIQUE = ("the real StandardNis/SlidingNis/FadingMemoryNis.__call__, oneSidedChiSquareTest and SequentialFilter.checkManeuverDetection are executed on a symbolic "
             "history: per step a symbolic measurement dimension (z3 Int), a symbolic NIS value (z3 Real >= 0), symbolic threshold/fading factor; scipy's chi2.isf is an "
             "uninterpreted function b(alpha, nu); z3 proves that the returned flag equals `documented statistic >= b(alpha, documented dof)` on every path")
FLOAT_SEMANTICS = "exact real/integer arithmetic"
ENCODED = ["resonaate.estimation.maneuver_detection:StandardNis.__call__", "resonaate.estimation.maneuver_detection:SlidingNis.__call__",
           "resonaate.estimation.maneuver_detection:FadingMemoryNis.__call__", "resonaate.physics.statistics:oneSidedChiSquareTest",
           "resonaate.physics.statistics:chiSquareQuadraticForm", "resonaate.estimation.sequential_filter:SequentialFilter.checkManeuverDetection"]
BOUNDS = {"history": "length 1..4 (quick), 1..6 (thorough)", "dimension": "1..8 per step, varying", "window": "1..3 (quick) / 1..4", "threshold, delta": "symbolic in (0,1)",
          "quadratic form": "dimension 1..2, any symmetric invertible covariance"}
OUTSIDE = ["scipy.stats.chi2 itself (uninterpreted, only its arguments are checked): in particular the floating-point accuracy of the quantile at extreme significances (isf(alpha) versus ppf(1 - alpha) for alpha < 1e-10)", "histories longer than the bound"]
ASSUMPTIONS = ["chi2.isf(alpha, nu) -> uninterpreted real function of (alpha, nu)", "inv(S) -> X with S X = X S = I",
               "the per-step NIS is cut to a symbolic value q_j >= 0 after chiSquareQuadraticForm has been proved to be r^T S^-1 r"]
LEVEL_TEXT = ("Bounded symbolic verification over all histories up to the stated length with varying dimensions: flag, metric and degrees of freedom are proved equal to the "
              "documented statistic for every value of the NIS sequence, threshold, window and fading factor.")
LEVEL_NOTE = "History length bounded; chi-square quantile uninterpreted; NIS values cut to symbols."

ISF = z3.Function("chi2_isf", z3.RealSort(), z3.RealSort(), z3.RealSort())


def _tr(x):
    if isinstance(x, SReal):
        return x.t
    if isinstance(x, SInt):
        return z3.ToReal(x.t)
    return rv(x)


class Chi2Stub:
    """scipy.stats.chi2: the upper-tail quantile is an uninterpreted function of (significance, dof); ppf(p, dof) is the same
    quantile at significance 1 - p (mathematically; their floating-point difference at extreme significances is outside the claim)."""

    def __init__(self):
        self.calls = []

    def isf(self, alpha, dof):
        self.calls.append((alpha, dof))
        return SReal(ISF(_tr(alpha), _tr(dof)))

    def ppf(self, p, dof):
        return self.isf(1 - p, dof)


class Res:
    def __init__(self, d):
        self.shape = (d,)


def _run(kind, h, w=None):
    from resonaate.estimation import maneuver_detection as MD
    from resonaate.physics import statistics as ST

    alpha = real("alpha")
    assume(alpha.t > 0, alpha.t < 1)
    if kind == "standard":
        det = MD.StandardNis(alpha)
    elif kind == "sliding":
        det = MD.SlidingNis(alpha, window_size=w)
    else:
        delta = real("delta")
        assume(delta.t > 0, delta.t < 1)
        det = MD.FadingMemoryNis(0.5, delta=0.5)
        det.threshold, det.delta = alpha, delta
    qs = [real(f"q_{j}") for j in range(h)]
    ds = [integer(f"d_{j}") for j in range(h)]
    for q, d in zip(qs, ds):
        assume(q.t >= 0, d.t >= 1, d.t <= 8)
    chi = Chi2Stub()
    it = iter(qs)
    flags, metrics = [], []
    with shadow(MD, chiSquareQuadraticForm=lambda r, S: next(it)), shadow(ST, chi2=chi):
        for j in range(h):
            f = det(Res(ds[j]), None)
            flags.append(f)
            metrics.append(det.metric)
    return det, qs, ds, flags, metrics, chi.calls, alpha


def replay_detector(d):
    """Replay on the real detector classes (1-d residuals r_j = sqrt(q_j), S = 1; dimension by stacking).

    Level 1: everything real (scipy chi2 included); the (alpha, dof) the real code asks the quantile for are recorded
    and compared with the documented degrees of freedom, the flag with `statistic >= real chi2.isf(alpha, documented dof)`.
    Level 2 (only if level 1 shows nothing, and the model carries bound values): chi2.isf answers with the model's bound
    for the requested arguments - the detector code is still the real one; this reproduces comparisons that differ only
    when the statistic equals the bound (>= versus >), which no floating-point quantile hits."""
    from resonaate.estimation import maneuver_detection as MD
    from resonaate.physics import statistics as ST
    from scipy.stats import chi2

    kind, qs, ds, alpha = d["kind"], d["q"], d["d"], d["alpha"]
    mk = {"standard": lambda: MD.StandardNis(alpha), "sliding": lambda: MD.SlidingNis(alpha, window_size=d.get("w", 2)),
          "fading": lambda: MD.FadingMemoryNis(alpha, delta=d.get("delta", 0.5))}[kind]

    def documented(hh):
        if kind == "standard":
            return qs[hh - 1], ds[hh - 1]
        if kind == "sliding":
            w = d.get("w", 2)
            return sum(qs[max(0, hh - w):hh]), sum(ds[max(0, hh - w):hh])
        de = d.get("delta", 0.5)
        return (1 + de) * sum(de ** (hh - 1 - j) * qs[j] for j in range(hh)), (sum(ds[:hh]) / hh) * (1 + de) / (1 - de)

    class Rec:
        def __init__(self, table=None):
            self.calls, self.table = [], table

        def isf(self, a, nu):
            self.calls.append((float(a), float(nu)))
            if self.table is not None:
                return self.table[len(self.calls) - 1]
            return chi2.isf(a, nu)

    def run(table=None):
        det, rec, out = mk(), Rec(table), []
        with shadow(ST, chi2=rec):
            for k, (q, dim) in enumerate(zip(qs, ds)):
                r = np.zeros(dim)
                r[0] = np.sqrt(q)
                flag = det(r, np.eye(dim))
                stat, nu = documented(k + 1)
                a_req, nu_req = rec.calls[k] if len(rec.calls) > k else (None, None)
                bound = table[k] if table is not None else chi2.isf(alpha, nu)
                out.append({"step": k + 1, "flag": bool(flag), "metric": float(det.metric), "statistic": float(stat), "documented_dof": float(nu),
                            "requested_dof": nu_req, "requested_alpha": a_req, "bound": float(bound)})
        return out

    def bad(o, exact):
        if o["requested_dof"] is None or abs(o["requested_dof"] - o["documented_dof"]) > 1e-9 * max(1, o["documented_dof"]):
            return "chi-square bound requested for the wrong degrees of freedom"
        if abs(o["requested_alpha"] - alpha) > 1e-12:
            return "chi-square bound requested for the wrong significance"
        if abs(o["metric"] - o["statistic"]) > 1e-9 * max(1, abs(o["statistic"])):
            return "metric is not the documented statistic"
        exp = o["statistic"] >= o["bound"]
        if o["flag"] != exp and (exact or abs(o["statistic"] - o["bound"]) > 1e-9 * max(1, o["bound"])):
            return "flag differs from (statistic >= bound)"
        return None

    out = run()
    for o in out:
        why = bad(o, False)
        if why:
            return True, {"why": why, **o}
    if d.get("bounds"):
        out2 = run(list(d["bounds"]))
        for o in out2:
            why = bad(o, True)
            if why:
                return True, {"why": why + " (chi2.isf answering with the counterexample's bound value)", **o}
    return False, out[-1]


def o_detector(rep, kind, h, w=None):
    res = explore(lambda: _run(kind, h, w), max_paths=5000, max_depth=100)
    rep.note(f"{kind} h={h} w={w}: paths={len(res)}")

    def inputs(m):
        d = {"kind": kind, "q": [mfloat(m, z3.Real(f"q_{j}")) for j in range(h)], "d": [mval(m, z3.Int(f"d_{j}")) for j in range(h)], "alpha": mfloat(m, z3.Real("alpha"))}
        if w:
            d["w"] = w
        if kind == "fading":
            d["delta"] = mfloat(m, z3.Real("delta"))
        return d

    def inputs_with_bounds(calls):
        def f(m):
            d = inputs(m)
            d["bounds"] = [mfloat(m, ISF(_tr(a), _tr(nu))) for a, nu in calls]
            return d
        return f

    n = 0
    seen = set()
    for r in res:
        if r.exc is not None:
            rep.error("exception", repr(r.exc))
            continue
        det, qs, ds, flags, metrics, calls, alpha = r.out
        goals = []
        for k in range(h):  # the statistic after every prefix of the history
            hh = k + 1
            if kind == "standard":
                stat, nu = qs[k].t, z3.ToReal(ds[k].t)
            elif kind == "sliding":
                lo = max(0, hh - w)
                stat = z3.Sum([qs[j].t for j in range(lo, hh)])
                nu = z3.ToReal(z3.Sum([ds[j].t for j in range(lo, hh)]))
            else:
                de = z3.Real("delta")
                acc = z3.RealVal(0)
                for j in range(hh):
                    acc = de * acc + qs[j].t
                stat = (1 + de) * acc
                nu = (z3.ToReal(z3.Sum([ds[j].t for j in range(hh)])) / hh) * (1 + de) / (1 - de)
            bound = ISF(alpha.t, nu)
            flag = flags[k]
            ft = flag.t if isinstance(flag, SBool) else z3.BoolVal(bool(flag))
            goals.append(ft == (stat >= bound))
            goals.append(_tr(metrics[k]) == stat)
            # the quantile was requested for (alpha, documented dof)
            goals.append(z3.And(_tr(calls[k][0]) == alpha.t, _tr(calls[k][1]) == nu))
        seen.add(tuple(bool(f) for f in flags))
        n += 1
        rep.prove(f"{kind}[h={h}{',w=' + str(w) if w else ''}]#{n}", z3.And(*goals), r.constraints, inputs=inputs_with_bounds(calls), replay=replay_detector,
                  sample=f"{kind}: flag == (documented statistic >= chi2.isf(alpha, documented dof)); metric == statistic, after every step of the history")
    if len(seen) < 2:
        rep.error("reach", "both outcomes (detection / no detection) must be reachable")


def o_monotone(rep, kind, h, w=None):
    """Scaling the latest innovation up (q_h -> lam^2 q_h, lam >= 1) never turns a detection into a non-detection."""
    from resonaate.estimation import maneuver_detection as MD
    from resonaate.physics import statistics as ST

    def run():
        det1, qs, ds, f1, m1, c1, alpha = _run(kind, h, w)
        lam = real("lam")
        assume(lam.t >= 1)
        # second, independent detector on the same history with the last NIS scaled
        if kind == "standard":
            det2 = MD.StandardNis(alpha)
        elif kind == "sliding":
            det2 = MD.SlidingNis(alpha, window_size=w)
        else:
            det2 = MD.FadingMemoryNis(0.5, delta=0.5)
            det2.threshold, det2.delta = alpha, SReal(z3.Real("delta"))
        q2 = list(qs[:-1]) + [lam * lam * qs[-1]]
        it = iter(q2)
        chi = Chi2Stub()
        with shadow(MD, chiSquareQuadraticForm=lambda r, S: next(it)), shadow(ST, chi2=chi):
            for j in range(h):
                f2 = det2(Res(ds[j]), None)
        return f1[-1], f2

    res = explore(run, max_paths=20000, max_depth=100)
    n = 0
    for r in res:
        if r.exc is not None:
            rep.error("exception", repr(r.exc))
            continue
        f1, f2 = r.out
        t1 = f1.t if isinstance(f1, SBool) else z3.BoolVal(bool(f1))
        t2 = f2.t if isinstance(f2, SBool) else z3.BoolVal(bool(f2))
        n += 1
        rep.prove(f"monotone-{kind}[h={h}]#{n}", z3.Implies(t1, t2), r.constraints, sample=f"{kind}: detection is preserved when the latest NIS is scaled by lam^2 >= 1")
    if n == 0:
        rep.error("reach", "no path")


def replay_quadform(d):
    from resonaate.physics.statistics import chiSquareQuadraticForm

    r, S = np.array(d["r"]), np.array(d["S"])
    got = float(chiSquareQuadraticForm(r, S))
    exp = float(r @ np.linalg.solve(S, r))
    return abs(got - exp) > 1e-9 * max(1, abs(exp)), {"got": got, "expected": exp}


def o_quadform(rep, dim):
    """Every path of chiSquareQuadraticForm (tolerance comparisons of numpy/math, should the code use them, fork on their defining formula): the value
    is r^T y for the y with S y = r, whichever way the code computes it."""
    from resonaate.physics import statistics as ST
    from symx.core import refute
    from symx.ext_c01 import closeness_shadows

    def run():
        r = reals("r", dim)
        S = np.empty((dim, dim), dtype=object)
        for i in range(dim):
            for j in range(i + 1):
                S[i, j] = S[j, i] = real(f"S_{i}_{j}")
        lam = real("lam")
        ctx = [shadow(ST, inv=inv_contract)] + closeness_shadows([ST])
        for c in ctx:
            c.__enter__()
        try:
            q = ST.chiSquareQuadraticForm(r, S)
            q2 = ST.chiSquareQuadraticForm(lam * r, S)
        finally:
            for c in reversed(ctx):
                c.__exit__(None, None, None)
        return r, S, lam, q, q2, list(cur().apps.get("inv", []))

    res = explore(run, max_paths=16, recip=True)
    n = 0
    for k, pr in enumerate(res):
        if pr.exc is not None:
            rep.error(f"quadform[d={dim}]#{k}", f"raised {pr.exc!r}")
            continue
        r, S, lam, q, q2, invs = pr.out
        cons = pr.constraints
        inputs = lambda m, r=r, S=S: {"r": marray(m, r), "S": marray(m, S)}  # noqa: E731
        tag = f"d={dim}" + (f",path {k}" if len(res) > 1 else "")
        if len(invs) == 2:
            # q = r^T X r with S X = I: equivalently, for y := X r we have S y = r and q = r^T y
            X, X2 = invs[0][0], invs[1][0]
            y = X.dot(r)
            rep.prove(f"quadform-solves[{tag}]", z3.And(*[a.t == b.t for a, b in zip(S.dot(y), r)]), cons, linearize=True, inputs=inputs, replay=replay_quadform,
                      sample="chiSquareQuadraticForm(r,S) = r^T y with S y = r")
            rep.prove(f"quadform-value[{tag}]", q.t == r.dot(y).t, cons, linearize=True, inputs=inputs, replay=replay_quadform, sample="value is r^T S^-1 r")
            # both inverses are inverses of the same matrix: X2 = X (uniqueness), so scaling is lam^2
            rep.prove(f"quadform-scales[{tag}]", q2.t == (lam * lam * r.dot(X2.dot(r))).t, cons, linearize=True, sample="NIS of lam*r is lam^2 r^T S^-1 r")
            rep.prove(f"inverse-unique[{tag}]", z3.And(*[a.t == b.t for a, b in zip(X.ravel(), X2.ravel())]), cons, linearize=True, timeout_ms=60000,
                      sample="two inverse contracts of the same matrix agree (X = X S X2 = X2)")
        else:
            # a path that does not go through the inverse: the value must still be r^T y for the solution y of S y = r (S positive definite)
            y = reals(f"y{k}", dim)
            pd = [S[0, 0].t > 0] + ([S[0, 0].t * S[1, 1].t - S[0, 1].t * S[0, 1].t > 0] if dim >= 2 else [])
            hyp = list(cons) + pd + [a.t == b.t for a, b in zip(S.dot(y), r)]
            goal = q.t == r.dot(y).t
            v = refute(goal, hyp, 30000)
            if v.status == "sat":
                # look for a counterexample whose deviation is large enough to be seen in double precision
                vis = hyp + [z3.Or(q.t - r.dot(y).t >= rv(0.01) * r.dot(y).t, r.dot(y).t - q.t >= rv(0.01) * r.dot(y).t), r.dot(y).t >= rv(0.001)]
                if refute(z3.BoolVal(False), vis, 30000).status == "sat":
                    hyp = vis
            rep.prove(f"quadform-value[{tag}]", goal, hyp, inputs=inputs, replay=replay_quadform, timeout_ms=60000, sample="value is r^T S^-1 r on every path of the function")
            rep.prove(f"quadform-scales[{tag}]", q2.t == (lam * lam * q).t, cons, timeout_ms=60000, inputs=inputs, replay=replay_quadform, sample="NIS of lam*r is lam^2 times the NIS of r")
        n += 1
    if n == 0:
        rep.error("reach", "no path")


def o_flags(rep):
    from resonaate.estimation.kalman.unscented_kalman_filter import UnscentedKalmanFilter
    from resonaate.estimation.sequential_filter import FilterFlag

    for adaptive, iod in ((False, False), (True, False), (False, True)):
        def run(adaptive=adaptive, iod=iod):
            f = object.__new__(UnscentedKalmanFilter)
            f._flags = FilterFlag.NONE
            f.adaptive_estimation, f.initial_orbit_determination = adaptive, iod
            f.innovation, f.innov_cvr = None, None
            f.maneuver_metric, f.maneuver_detected = None, False
            det_flag = SBool(z3.Bool("detected"))

            class Det:
                metric = real("metric")

                def __call__(self, r, S):
                    return bool(det_flag)

            f.maneuver_detection = Det()
            f.checkManeuverDetection()
            return f, Det.metric

        res = explore(run, max_paths=8)
        outcomes = set()
        for r in res:
            if r.exc is not None:
                rep.error("exception", repr(r.exc))
                continue
            f, metric = r.out
            det = z3.Bool("detected")
            want = FilterFlag.NONE
            goals = [
                z3.BoolVal(FilterFlag.MANEUVER_DETECTION in f.flags) == det,
                z3.BoolVal(FilterFlag.ADAPTIVE_ESTIMATION_START in f.flags) == z3.And(det, adaptive),
                z3.BoolVal(FilterFlag.INITIAL_ORBIT_DETERMINATION_START in f.flags) == z3.And(det, iod),
                z3.BoolVal(FilterFlag.ADAPTIVE_ESTIMATION_CLOSE in f.flags) == z3.BoolVal(False),
                z3.BoolVal(bool(f.maneuver_detected)) == det,
                z3.Implies(det, z3.BoolVal(f.maneuver_metric is metric)),
            ]
            outcomes.add(str(f.flags))
            rep.prove(f"flags[adaptive={adaptive},iod={iod}]#{len(outcomes)}", z3.And(*goals), r.constraints,
                      sample="checkManeuverDetection raises exactly MANEUVER_DETECTION (+ADAPTIVE_ESTIMATION_START / +IOD_START when enabled) iff the detector fires")
        if len(res) != 2:
            rep.error("reach", "expected two paths (detected / not detected)")


REPLAYS = {}


def obligations(tier):
    obs = []
    H = 4 if tier == "quick" else 6
    for h in range(1, H + 1):
        obs.append(Ob(f"standard-h{h}", (lambda h: lambda rep: o_detector(rep, "standard", h))(h), f"StandardNis after a history of {h}", 600))
        obs.append(Ob(f"fading-h{h}", (lambda h: lambda rep: o_detector(rep, "fading", h))(h), f"FadingMemoryNis after a history of {h}", 900))
        for w in (1, 2, 3) if tier == "quick" else (1, 2, 3, 4):
            obs.append(Ob(f"sliding-h{h}-w{w}", (lambda h, w: lambda rep: o_detector(rep, "sliding", h, w))(h, w), f"SlidingNis(w={w}) after a history of {h}", 900))
    for o in obs:
        REPLAYS[o.name] = replay_detector
    obs.append(Ob("monotone-standard", lambda rep: o_monotone(rep, "standard", 2), "scaling up never un-detects (standard)", 600))
    obs.append(Ob("monotone-sliding", lambda rep: o_monotone(rep, "sliding", 3, 2), "scaling up never un-detects (sliding)", 600))
    obs.append(Ob("monotone-fading", lambda rep: o_monotone(rep, "fading", 3), "scaling up never un-detects (fading)", 600))
    for dim in (1, 2):
        obs.append(Ob(f"quadform-d{dim}", (lambda d: lambda rep: o_quadform(rep, d))(dim), "chiSquareQuadraticForm = r^T S^-1 r, scales as lam^2", 300))
        REPLAYS[f"quadform-d{dim}"] = replay_quadform
    obs.append(Ob("flags", o_flags, "checkManeuverDetection raises exactly the documented flags", 120))
    return obs


ASSUMPTIONS.append("chiSquareQuadraticForm is explored on every path; tolerance comparisons (numpy.isclose/allclose, math.isclose) enter as their defining formulas; on a path without the inverse contract the value is compared with r^T y for the solution y of S y = r (S positive definite, d <= 2)")
