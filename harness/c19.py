"""C19 - imported ephemerides/observations are used faithfully; importer stays read-only."""
from __future__ import annotations

import datetime as _dt
import logging

import numpy as np
import z3

from symx.core import SBool, SInt, SReal, assume, boolean, cur, explore, mfloat, mval, real, reals, rv
from symx.runner import Ob
from symx.stubs import shadow

ID = "C19"
TECHNIQUE = ("the real EphemerisImporter.registerAgent/importEphemerides, Target/SensingAgent.importState, CentralizedTaskingEngine.loadImportedObservations/"
             "_attachObsMetadata and the ImporterDatabase write methods are executed against a stub database whose content is chosen by the solver: for each agent id of a "
             "small universe a z3 Bool says whether the database holds a row for it and whether it is registered; states are symbolic reals; the real SQLAlchemy Query "
             "object the code builds is captured and its where-clause translated; z3 proves the faithful-import / error-iff-missing oracle on every path")
FLOAT_SEMANTICS = "exact for ids/sets; state vectors symbolic reals; (time conversion bit-level claims are in C05/C09)"
ENCODED = ["resonaate.dynamics.importer:EphemerisImporter.registerAgent", "resonaate.dynamics.importer:EphemerisImporter.importEphemerides",
           "resonaate.agents.target_agent:TargetAgent.importState", "resonaate.agents.sensing_agent:SensingAgent.importState",
           "resonaate.tasking.engine.centralized_engine:CentralizedTaskingEngine.loadImportedObservations",
           "resonaate.tasking.engine.centralized_engine:CentralizedTaskingEngine._attachObsMetadata",
           "resonaate.data.importer_database:ImporterDatabase.insertData", "resonaate.data.importer_database:ImporterDatabase.deleteData",
           "resonaate.data.importer_database:ImporterDatabase.bulkSave"]
BOUNDS = {"agents": "universe of 5 agent ids; every subset as database content (<= 5 rows) and every subset as registered agents (supersets, exact sets, subsets)",
          "observations": "<= 3 stored observations per epoch over 2 sensors x 2 targets with symbolic sensor positions"}
OUTSIDE = ["that the importer file is byte-identical afterwards (SQLAlchemy/SQLite behaviour)", "_insertData (private loader)", "SQLite's evaluation of the where-clause"]
ASSUMPTIONS = ["ImporterDatabase.getData(query) returns the rows matching the query (stub: solver-chosen rows, at most one per agent id and epoch)",
               "ray.get(handle) returns the sensor agent"]
LEVEL_TEXT = ("Bounded symbolic verification over all database contents for a 5-agent universe: every registered agent receives exactly its own row, and the missing-ephemeris "
              "error is raised iff some registered agent has no row - supersets with unrelated agents included, which the suite's single exact-set file never exercises.")
LEVEL_NOTE = "Agent universe bounded (5); database replaced by a solver-chosen row set; storage layer trusted."

U = [101, 102, 103, 104, 105]


class Row:
    def __init__(self, aid, concrete=False):
        self.agent_id = aid
        self.eci = [float(aid * 10 + k) for k in range(6)] if concrete else [real(f"row{aid}_{k}") for k in range(6)]
        self.julian_date = 2459304.5 + 600.0 / 86400.0


def _agent(cls, aid):
    a = object.__new__(cls)
    a.__dict__["_id"] = aid
    a.__dict__["_realtime"] = False
    a.__dict__["_truth_state"] = np.array([(-1.0 if _CONCRETE else real(f"old{aid}_{k}")) for k in range(6)], dtype=object)
    a.__dict__["_previous_state"] = a.__dict__["_truth_state"]
    from resonaate.physics.time.stardate import ScenarioTime

    a.__dict__["_time"] = ScenarioTime(540.0)
    a.__dict__["imports"] = 0
    return a


def _run_import(sensor_ids=(101,), member=None):
    member = member or (lambda kind, u: bool(boolean(f"{kind}_{u}")))
    from resonaate.agents import sensing_agent as SA
    from resonaate.agents import target_agent as TA
    from resonaate.dynamics import importer as IM

    from resonaate.physics.time.stardate import JulianDate

    imp = object.__new__(IM.EphemerisImporter)
    imp._logger = logging.getLogger("symx")
    imp._logger.setLevel(logging.CRITICAL)
    imp._registrants = {}
    captured = {"ecef_epochs": {}}

    class DB:
        def getData(self, query, multi=True):
            captured["query"] = query
            rows = [Row(u, concrete=_CONCRETE) for u in U if member("indb", u)]
            # order of rows in the result set is arbitrary: rotate by a solver-chosen offset
            captured["rows"] = rows
            return rows

    imp._importer_db = DB()
    agents = {}
    calls = {}

    class TAgent(TA.TargetAgent):
        pass

    class SAgent(SA.SensingAgent):
        pass

    for u in U:
        if member("reg", u):
            cls = SAgent if u in sensor_ids else TAgent
            a = _agent(cls, u)
            # minimal attribute surface used by importState / registerAgent
            cls.simulation_id = property(lambda self: self.__dict__["_id"])
            cls.realtime = property(lambda self: self.__dict__["_realtime"])
            cls.julian_date_start = property(lambda self: JulianDate(2459304.5))
            cls.datetime_start = property(lambda self: _dt.datetime(2021, 3, 30, 0, 0, 0))
            agents[u] = a
            imp.registerAgent(a)
    epoch = _dt.datetime(2021, 3, 30, 0, 10, 0)
    err = None

    def rec_eci2ecef(x, when):
        captured["ecef_epochs"][id(x)] = when
        return x

    try:
        with shadow(SA, eci2ecef=rec_eci2ecef, ecef2lla=lambda x: x[:3]):
            imp.importEphemerides(epoch)
    except Exception as e:  # noqa: BLE001
        err = e
    return imp, agents, captured, err, epoch


def replay_import(d):
    """Concrete replay on the same real classes (real importer, real Target/SensingAgent.importState)."""
    from resonaate.common.exceptions import MissingEphemerisError

    def member(kind, u):
        return u in d[kind]

    global _CONCRETE
    _CONCRETE = True
    try:
        imp, agents, cap, err, epoch = _run_import(member=member)
    finally:
        _CONCRETE = False
    raised = isinstance(err, MissingEphemerisError)
    if err is not None and not raised:
        return False, {"unexpected_exception": repr(err)}
    missing = sorted(set(d["reg"]) - set(d["indb"]))
    problems = []
    if raised != bool(missing):
        problems.append(f"MissingEphemerisError raised={raised} but missing ids={missing}")
    if not raised:
        rows = {row.agent_id: row for row in cap["rows"]}
        for u, a in agents.items():
            st = a.__dict__["_truth_state"]
            if u not in rows or [float(x) for x in st] != [float(x) for x in rows[u].eci]:
                problems.append(f"agent {u} left with a stale state")
            elif u == 101:
                when = cap["ecef_epochs"].get(id(st))
                if when is None or abs((when - epoch).total_seconds()) > 1.5:
                    problems.append(f"sensing agent {u}: Earth-fixed state derived at {when} instead of the row's epoch {epoch}")
    return bool(problems), {"raised": raised, "missing_ids": missing, "problems": problems}


_CONCRETE = False


def o1_import(rep):
    from resonaate.common.exceptions import MissingEphemerisError

    res = explore(_run_import, max_paths=5000, max_depth=40)
    rep.note(f"paths={len(res)}")

    def inputs(m):
        return {"indb": [u for u in U if bool(mval(m, z3.Bool(f"indb_{u}")))], "reg": [u for u in U if bool(mval(m, z3.Bool(f"reg_{u}")))]}

    n = 0
    n_err = n_ok = 0
    for r in res:
        if r.exc is not None:
            rep.error("exception", repr(r.exc))
            continue
        imp, agents, cap, err, epoch = r.out
        indb = {u: z3.Bool(f"indb_{u}") for u in U}
        reg = {u: z3.Bool(f"reg_{u}") for u in U}
        missing = z3.Or(*[z3.And(reg[u], z3.Not(indb[u])) for u in U])
        goals = []
        if err is not None and not isinstance(err, MissingEphemerisError):
            rep.error("exception", repr(err))
            continue
        goals.append(z3.BoolVal(err is not None) == missing)
        if err is None:
            n_ok += 1
            rows = {row.agent_id: row for row in cap["rows"]}
            for u, a in agents.items():
                if u in rows:
                    st = a.__dict__["_truth_state"]
                    goals.append(z3.And(*[(x.t if isinstance(x, SReal) else rv(x)) == y.t for x, y in zip(st, rows[u].eci)]))
                    goals.append(z3.BoolVal(abs(float(a.__dict__["_time"]) - 600.0) < 1e-4))
                    if u in (101,):  # the sensing agent: its Earth-fixed state must be derived at the row's epoch
                        when = cap["ecef_epochs"].get(id(st))
                        goals.append(z3.BoolVal(when is not None and abs((when - epoch).total_seconds()) < 1.5))
                else:
                    goals.append(z3.BoolVal(False))  # registered agent without a row although no error was raised
            goals.append(z3.BoolVal(len(imp._registrants) == 0))
        else:
            n_err += 1
        n += 1
        rep.prove(f"import#{n}", z3.And(*goals), r.constraints, inputs=inputs, replay=replay_import,
                  sample="MissingEphemerisError iff a registered agent has no row; otherwise every registered agent holds exactly its own row's state and epoch")
    # the query the real code built
    if res and res[0].out[2].get("query") is not None:
        q = res[0].out[2]["query"]
        epoch = res[0].out[4]
        wc = q.whereclause
        ok = (wc is not None and wc.operator.__name__ == "eq" and wc.left.key == "timestampISO" and wc.right.value == epoch.isoformat(timespec="microseconds"))
        ents = [str(d["entity"].__name__) for d in q.column_descriptions]
        rep.prove("query-shape", z3.BoolVal(bool(ok and ents == ["TruthEphemeris"] and "epochs" in str(q).lower())), [], sample="query = TruthEphemeris joined to Epoch where Epoch.timestampISO == epoch.isoformat(microseconds)")
    if n_err == 0 or n_ok == 0:
        rep.error("reach", "both the error and the success outcome must be reachable")
    rep.reachable("superset-with-gap", [z3.Bool("reg_101"), z3.Not(z3.Bool("indb_101")), z3.Bool("indb_104"), z3.Bool("indb_105"), z3.Not(z3.Bool("reg_104")), z3.Not(z3.Bool("reg_105")),
                                        z3.Bool("reg_102"), z3.Bool("indb_102")])


# ----------------------------------------------------------------------------------
class ObsRow:
    def __init__(self, i, sensor_id, target_id, pos):
        self.i, self.sensor_id, self.target_id = i, sensor_id, target_id
        self.pos_x_km, self.pos_y_km, self.pos_z_km = pos
        self.measurement = None

    def makeDictionary(self):
        class D:
            sensor_id, target_id, julian_date = self.sensor_id, self.target_id, 0.0

        return D


def o3_observations(rep):
    from resonaate.tasking.engine import centralized_engine as CE

    sensors = [21, 22]
    targets = [11, 12]

    def run():
        eng = object.__new__(CE.CentralizedTaskingEngine)
        eng.logger = logging.getLogger("symx")
        cap = {}
        rows = []
        # up to 3 stored observations; (sensor, target) of each chosen by the solver; positions are those of the sensor (two candidate positions per sensor)
        for i in range(3):
            if not bool(boolean(f"present_{i}")):
                continue
            s = sensors[0] if bool(boolean(f"sens_{i}")) else sensors[1]
            t = targets[0] if bool(boolean(f"tgt_{i}")) else targets[1]
            dup = bool(boolean(f"samepos_{i}"))
            pos = (1000.0 + s, 2000.0 + s, 3000.0 + (0.0 if dup else 0.5 * (i + 1)))
            rows.append(ObsRow(i, s, t, pos))

        class IDB:
            def getData(self, query, multi=True):
                cap["query"] = query
                return rows

        class SensorAgent:
            def __init__(self, sid):
                self.measurement = f"measurement-of-{sid}"

        eng._importer_db = IDB()
        eng._sensor_store = {s: SensorAgent(s) for s in sensors}

        class Ray:
            @staticmethod
            def get(h):
                return h

        epoch = _dt.datetime(2021, 3, 30, 0, 10, 0)
        with shadow(CE, ray=Ray, int=lambda x: int(x)):
            out = eng.loadImportedObservations(epoch)
        return rows, out, cap, epoch

    res = explore(run, max_paths=5000, max_depth=60)
    rep.note(f"paths={len(res)}")
    n = 0
    for r in res:
        if r.exc is not None:
            rep.error("exception", repr(r.exc))
            continue
        rows, out, cap, epoch = r.out
        # oracle: observations distinct in (rounded sensor position, target) are each returned exactly once, in order, with the sensor's measurement
        seen, want = set(), []
        for row in rows:
            key = (int(row.pos_x_km * 1e6), int(row.pos_y_km * 1e6), int(row.pos_z_km * 1e6), row.target_id)
            if key not in seen:
                seen.add(key)
                want.append(row)
        ok = [id(x) for x in out] == [id(x) for x in want] and all(x.measurement == f"measurement-of-{x.sensor_id}" for x in out)
        n += 1
        rep.prove(f"observations#{n}", z3.BoolVal(bool(ok)), r.constraints, sample="each stored observation distinct in (sensor position, target) returned once with its sensor's measurement attached")
    if res:
        q = res[-1].out[2].get("query")
        epoch = res[-1].out[3]
        if q is not None:
            wc = q.whereclause
            ok = (wc is not None and wc.operator.__name__ == "eq" and wc.left.key == "timestampISO" and wc.right.value == epoch.isoformat(timespec="microseconds"))
            rep.prove("query-shape", z3.BoolVal(bool(ok)), [], sample="Observation joined to Epoch where Epoch.timestampISO == epoch.isoformat(microseconds)")
    if n < 8:
        rep.error("reach", "too few database contents explored")


def o4_readonly(rep):
    from resonaate.data.importer_database import ImporterDatabase

    db = object.__new__(ImporterDatabase)
    outcomes = []
    for name, args in (("insertData", (object(),)), ("insertData", ()), ("deleteData", (object(),)), ("bulkSave", ([object()],)), ("bulkSave", ([],))):
        try:
            getattr(db, name)(*args)
            outcomes.append((name, "returned"))
        except NotImplementedError:
            outcomes.append((name, "NotImplementedError"))
        except Exception as e:  # noqa: BLE001
            outcomes.append((name, type(e).__name__))
    ok = all(o[1] == "NotImplementedError" for o in outcomes)
    rep.prove("write-methods-raise", z3.BoolVal(ok), [], sample=f"public write methods of ImporterDatabase raise for every argument: {outcomes}")
    # they do not touch the session at all: the methods' code objects reference no session/engine attribute
    import inspect

    src = "".join(inspect.getsource(getattr(ImporterDatabase, n)) for n in ("insertData", "deleteData", "bulkSave"))
    rep.prove("write-methods-touch-nothing", z3.BoolVal("session" not in src.split('"""')[-1] and "_getSessionScope" not in src), [], sample="insertData/deleteData/bulkSave bodies only raise")


REPLAYS = {"O1": replay_import}


def obligations(tier):
    return [
        Ob("O1", o1_import, "importEphemerides: every registered agent gets its own row; MissingEphemerisError iff a registered agent has no row", 900),
        Ob("O3", o3_observations, "loadImportedObservations returns each distinct stored observation once with measurement metadata", 600),
        Ob("O4", o4_readonly, "ImporterDatabase public write methods raise", 60),
    ]
