"""Stubs, shadowing of module globals, cut variables."""
from __future__ import annotations

import contextlib
import itertools

import numpy as np
import z3

from .core import SBool, SInt, SReal, cur, refute, rv, solve, terms

_MISSING = object()


@contextlib.contextmanager
def shadow(module, **names):
    """Temporarily replace names in a module's globals (the stub mechanism).
    Never edits /repo: the analysed function resolves the name at call time."""
    old = {}
    for k, v in names.items():
        old[k] = module.__dict__.get(k, _MISSING)
        module.__dict__[k] = v
    try:
        yield
    finally:
        for k, v in old.items():
            if v is _MISSING:
                del module.__dict__[k]
            else:
                module.__dict__[k] = v


@contextlib.contextmanager
def shadow_attr(obj, **names):
    old = {}
    for k, v in names.items():
        old[k] = obj.__dict__.get(k, _MISSING) if hasattr(obj, "__dict__") else _MISSING
        setattr(obj, k, v)
    try:
        yield
    finally:
        for k, v in old.items():
            if v is _MISSING:
                delattr(obj, k)
            else:
                setattr(obj, k, v)


def dotp(a, b):
    return sum((x * y for x, y in zip(a, b)), SReal(0))


class GramCut:
    """Cut variables for the Gram matrix of a few named symbolic vectors.

    dot(u, v) / norm(u) computed by the real code are first *proved* (ring
    identity, solver) to equal a Gram entry of the named vectors and then
    replaced by the cut variable G[i][j]; the cut variables are constrained by
    the facts every real Gram matrix satisfies (symmetric PSD: all principal
    minors >= 0).  Unmatched calls fall through to the real term.
    """

    def __init__(self, vectors: dict, real_dot, real_norm, prefix="G", sums=False):
        self.sums = sums  # also recognise a product of stacked vectors: the sum of two Gram entries (e.g. position block + velocity block)
        self.names = list(vectors)
        self.vecs = [np.asarray(vectors[n], dtype=object) for n in self.names]
        self.real_dot, self.real_norm = real_dot, real_norm
        n = len(self.names)
        self.G = [[None] * n for _ in range(n)]
        for i in range(n):
            for j in range(i, n):
                v = z3.Real(f"{prefix}_{self.names[i]}_{self.names[j]}")
                self.G[i][j] = self.G[j][i] = v
        self.poly = [[dotp(self.vecs[i], self.vecs[j]).t for j in range(n)] for i in range(n)]
        self.matched = []
        self.unmatched = []
        self.lemmas = 0
        self._sqrt = {}

    def facts(self, strict_positive=True):
        n = len(self.names)
        G = self.G
        cs = []
        for i in range(n):
            cs.append(G[i][i] > 0 if strict_positive else G[i][i] >= 0)
        for i, j in itertools.combinations(range(n), 2):
            cs.append(G[i][i] * G[j][j] - G[i][j] * G[i][j] >= 0)
        if n >= 3:
            for i, j, k in itertools.combinations(range(n), 3):
                det = (G[i][i] * (G[j][j] * G[k][k] - G[j][k] * G[j][k])
                       - G[i][j] * (G[i][j] * G[k][k] - G[j][k] * G[i][k])
                       + G[i][k] * (G[i][j] * G[j][k] - G[j][j] * G[i][k]))
                cs.append(det >= 0)
        return cs

    def _point(self, ts):
        """A model of the path's assumptions at which the variables the assumptions do not mention take fixed, unremarkable rational values: two terms
        that differ there are not equal under the assumptions (used to skip hopeless matching queries; sound: it only ever rules candidates out)."""
        from fractions import Fraction

        from .core import free_vars

        p = cur()
        bound = set()
        for c in p.assumes:
            bound |= free_vars(c)
        free = set()
        for t in ts:
            free |= free_vars(t)
        pins = [z3.Real(n) == rv(Fraction(7 + 3 * k * k % 11, 5 + k % 7) * (-1 if k % 3 == 1 else 1)) for k, n in enumerate(sorted(free - bound))]
        # variables the assumptions do constrain (cos/sin pairs, square roots ...): away from special values where the assumptions allow it (greedy)
        for k, n in enumerate(sorted(free & bound)):
            for val in (Fraction(3 + k % 2, 5 + 2 * (k % 2)), Fraction(-5, 13), Fraction(11 + k, 7)):
                if solve(list(p.assumes) + pins + [z3.Real(n) == rv(val)], 1000).status == "sat":
                    pins.append(z3.Real(n) == rv(val))
                    break
        v = solve(list(p.assumes) + pins, 5000)
        return v.model if v.status == "sat" else None

    @staticmethod
    def _differ_at(m, a, b):
        if m is None:
            return False
        try:
            return z3.is_false(z3.simplify(m.eval(a, model_completion=True) == m.eval(b, model_completion=True)))
        except z3.Z3Exception:
            return False

    def _match(self, t, squared=False):
        """Return cut term equal to t (or whose square is t*t)."""
        p = cur()
        n = len(self.names)
        m = self._point([t] + [self.poly[i][j] for i in range(n) for j in range(i, n)]) if self.sums else None
        for i in range(n):
            for j in range(i, n):
                for sgn in (1, -1):
                    if self._differ_at(m, t, sgn * self.poly[i][j]):
                        continue
                    goal = (t == sgn * self.poly[i][j])
                    v = refute(goal, p.assumes, 5000)
                    self.lemmas += 1
                    if v.status == "unsat":
                        return sgn * self.G[i][j]
        if self.sums:
            ents = [(i, j) for i in range(n) for j in range(i, n)]
            for (i, j), (k, l) in itertools.combinations(ents, 2):
                if self._differ_at(m, t, self.poly[i][j] + self.poly[k][l]):
                    continue
                v = refute(t == self.poly[i][j] + self.poly[k][l], p.assumes, 5000)
                self.lemmas += 1
                if v.status == "unsat":
                    return self.G[i][j] + self.G[k][l]
        return None

    def dot(self, a, b, *args, **kw):
        r = self.real_dot(a, b, *args, **kw)
        if not isinstance(r, SReal):
            return r
        m = self._match(r.t)
        if m is None:
            self.unmatched.append(str(r.t)[:80])
            return r
        self.matched.append("dot")
        return SReal(m)

    def norm(self, a, *args, **kw):
        r = self.real_norm(a, *args, **kw)
        if not isinstance(r, SReal):
            return r
        p = cur()
        # r is a sqrt variable with r*r == poly: match the square
        n = len(self.names)
        m = self._point([r.t] + [self.poly[i][i] for i in range(n)]) if self.sums else None
        for i in range(n):
            if self._differ_at(m, r.t * r.t, self.poly[i][i]):
                continue
            v = refute(r.t * r.t == self.poly[i][i], p.assumes, 5000)
            self.lemmas += 1
            if v.status == "unsat":
                if i not in self._sqrt:
                    s = z3.Real(f"nrm_{self.names[i]}")
                    p.assume(z3.And(s > 0, s * s == self.G[i][i]))
                    self._sqrt[i] = s
                self.matched.append("norm")
                return SReal(self._sqrt[i])
        if self.sums:
            for i, k in itertools.combinations(range(n), 2):
                if self._differ_at(m, r.t * r.t, self.poly[i][i] + self.poly[k][k]):
                    continue
                v = refute(r.t * r.t == self.poly[i][i] + self.poly[k][k], p.assumes, 5000)
                self.lemmas += 1
                if v.status == "unsat":
                    if (i, k) not in self._sqrt:
                        s = z3.Real(f"nrm_{self.names[i]}+{self.names[k]}")
                        p.assume(z3.And(s > 0, s * s == self.G[i][i] + self.G[k][k]))
                        self._sqrt[(i, k)] = s
                    self.matched.append("norm")
                    return SReal(self._sqrt[(i, k)])
        self.unmatched.append(str(r.t)[:80])
        return r


def gram_to_vectors(G):
    """Concrete vectors in R^3 (rows) with the given 2x2 or 3x3 Gram matrix (floats)."""
    G = np.array(G, dtype=float)
    n = G.shape[0]
    w, V = np.linalg.eigh(G)
    w = np.clip(w, 0, None)
    X = (V * np.sqrt(w)) .dot(np.eye(n))  # rows: vectors in R^n
    out = np.zeros((n, 3))
    out[:, :n] = X[:, ::-1][:, :3] if n <= 3 else X[:, -3:]
    return out


def _has_sym(obj):
    if isinstance(obj, (SReal, SInt, SBool)):
        return True
    if isinstance(obj, np.ndarray):
        return obj.dtype == object
    if isinstance(obj, (list, tuple)):
        return any(_has_sym(o) for o in obj)
    return False


def sym_array(obj, dtype=None, **kw):
    """numpy.array that keeps symbolic elements (ignores a float dtype request for them)."""
    if _has_sym(obj):
        return np.array(obj, dtype=object, **{k: v for k, v in kw.items() if k != "dtype"})
    return np.array(obj, dtype=dtype, **kw)


def sym_zeros(shape, dtype=None, **kw):
    """numpy.zeros whose cells can hold proxies (object dtype, exact 0)."""
    a = np.empty(shape, dtype=object)
    a.fill(SReal(0))
    return a


def sym_full(shape, val, dtype=None, **kw):
    a = np.empty(shape, dtype=object)
    a.fill(val if isinstance(val, (SReal, SInt)) else SReal(val))
    return a


def sym_ones(shape, dtype=None, **kw):
    return sym_full(shape, 1)


def inv_contract(M):
    """numpy/scipy inv -> fresh matrix X with M X = X M = I (contract; invertibility is a domain condition)."""
    from .core import reals

    M = np.asarray(M, dtype=object)
    n = M.shape[0]
    p = cur()
    p.fresh += 1
    X = reals(f"inv{p.fresh}", n, n)
    eye = np.eye(n)
    MX, XM = M.dot(X), X.dot(M)
    for i in range(n):
        for j in range(n):
            t1, t2 = MX[i, j], XM[i, j]
            p.assume((t1.t if isinstance(t1, SReal) else rv(t1)) == rv(eye[i, j]))
            p.assume((t2.t if isinstance(t2, SReal) else rv(t2)) == rv(eye[i, j]))
    p.apps.setdefault("inv", []).append((X, M))
    return X


class CholeskyStub:
    """numpy.linalg.cholesky -> the lower-triangular factor the harness built the matrix from.
    The factor is only returned after the solver has proved M == L L^T element-wise."""

    def __init__(self):
        self.factors = []
        self.calls = []

    def register(self, L):
        self.factors.append(np.asarray(L, dtype=object))

    def __call__(self, M):
        from .poly import NotPolynomial, prove_linearized_auto

        M = np.asarray(M, dtype=object)
        p = cur()
        for L in self.factors:
            if L.shape != M.shape:
                continue
            LLt = L.dot(L.T)
            goal = z3.And(*[a == b for a, b in zip(terms(M), terms(LLt))])
            try:
                v = prove_linearized_auto([goal], p.assumes, rounds=6, timeout_ms=20000)
            except NotPolynomial:
                v = refute(goal, p.assumes, 20000)
            if v.status != "unsat":
                v = refute(goal, p.assumes, 20000)
            if v.status == "unsat":
                self.calls.append(("matched", M.shape))
                return L
        raise np.linalg.LinAlgError("CholeskyStub: argument is not provably L L^T of a registered factor")
