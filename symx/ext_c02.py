"""Engine helpers of C02's real-geometry chains (los-* / sun-* obligations): formal position vectors and their Gram cut.

A position vector of the scene (sensor, target, Sun) carries, next to its coordinate proxies, its expansion over a few named base
vectors (`lin`: base name -> coefficient).  Linear operations of the code under test (difference, scaling by a scalar, division by a norm,
taking the position part `[:3]`) are followed on the expansion; `dot` and `norm` of two such vectors are bilinear in the entries of the
Gram matrix of the base vectors, which are the cut variables G_x_y.  The cut variables are constrained by the facts every real Gram matrix
satisfies (symmetric positive semi-definite: all principal minors >= 0, diagonal > 0), and for <= 3 base vectors every such matrix is the
Gram matrix of vectors in R^3 (`realise`), so a model of the cut variables converts into concrete coordinates.

Anything that is not followed (an operation that is not linear, a 6-vector handed to `dot`) falls through to the coordinate terms; the
cut variables are then tied to the coordinates (`link`), which keeps the query sound and complete (only slower).
"""
from __future__ import annotations

import itertools
import math

import numpy as np
import z3

from .core import SReal, rv

NUM = (int, float, np.integer, np.floating)


def is_scalar(x):
    if isinstance(x, np.ndarray):
        return x.ndim == 0 and is_scalar(x.item())
    return isinstance(x, NUM + (SReal,)) and not isinstance(x, bool)


def _scalar(x):
    return x.item() if isinstance(x, np.ndarray) else x


def _iszero(c):
    return isinstance(c, NUM) and c == 0


def _clean(d):
    return {k: v for k, v in d.items() if not _iszero(v)}


def lin_ufunc(ufunc, method, inputs):
    """Expansion of the result of a numpy ufunc call over the base vectors, or None when the operation is not followed."""
    if method != "__call__":
        return None
    L = [getattr(i, "lin", None) for i in inputs]
    if ufunc in (np.add, np.subtract) and len(inputs) == 2:
        if L[0] is None or L[1] is None or np.shape(inputs[0]) != np.shape(inputs[1]):
            return None
        sgn = 1 if ufunc is np.add else -1
        out = dict(L[0])
        for k, v in L[1].items():
            out[k] = (out[k] + sgn * v) if k in out else sgn * v
        return _clean(out)
    if ufunc is np.negative and len(inputs) == 1 and L[0] is not None:
        return {k: -v for k, v in L[0].items()}
    if ufunc is np.positive and len(inputs) == 1 and L[0] is not None:
        return dict(L[0])
    if ufunc is np.multiply and len(inputs) == 2:
        for a, b in ((0, 1), (1, 0)):
            if L[a] is not None and is_scalar(inputs[b]):
                s = _scalar(inputs[b])
                return _clean({k: v * s for k, v in L[a].items()})
        return None
    if ufunc is np.true_divide and len(inputs) == 2 and L[0] is not None and is_scalar(inputs[1]):
        s = _scalar(inputs[1])
        return _clean({k: v / s for k, v in L[0].items()})
    return None


def lin_getitem(v, key, out):
    """Expansion of v[key]: only the position part `[:3]` (or the whole vector) of a 3- or 6-vector keeps it."""
    lin = getattr(v, "lin", None)
    if lin is None or not isinstance(key, slice) or v.ndim != 1:
        return None
    if key.step not in (None, 1) or key.start not in (None, 0):
        return None
    n = v.shape[0]
    if (key.stop == 3 and n >= 3) or (key.stop is None):
        return dict(lin) if isinstance(out, np.ndarray) and out.ndim == 1 else None
    return None


class GNorm(SReal):
    """Norm of a formal vector: non-negative root r of the quadratic form q (engine sqrt contract); r**2 is q itself.  The root variable
    and its contract are only created when the norm is used for something else than its square."""
    __slots__ = ("sq", "_t")

    def __init__(self, sq):  # noqa: super().__init__ would set the slot this class turns into a property
        self.sq = sq
        self._t = None

    @property
    def t(self):
        if self._t is None:
            self._t = SReal(self.sq).sqrt().t
        return self._t

    def __pow__(self, e):
        if isinstance(e, NUM) and float(e) == 2.0:
            return SReal(self.sq)
        return SReal(self.t) ** e


class Gram:
    def __init__(self, names, prefix="G"):
        self.names = list(names)
        if len(self.names) > 3:
            raise ValueError("at most three base vectors (a positive semi-definite 3x3 matrix is a Gram matrix of vectors in R^3)")
        self.prefix = prefix
        self.linked = False
        self.fallthroughs = []

    def name(self, x, y):
        i, j = sorted((self.names.index(x), self.names.index(y)))
        return f"{self.prefix}_{self.names[i]}_{self.names[j]}"

    def var(self, x, y):
        return z3.Real(self.name(x, y))

    def var_names(self):
        return [self.name(x, y) for x, y in itertools.combinations_with_replacement(self.names, 2)]

    def facts(self):
        """(pairwise facts, the 3x3 determinant fact): diagonal > 0, Cauchy-Schwarz per pair; determinant >= 0 (needed for a model to be
        realisable, couples all six cut variables)."""
        n, g = self.names, self.var
        cs = [g(x, x) > 0 for x in n]
        for x, y in itertools.combinations(n, 2):
            cs.append(g(x, x) * g(y, y) - g(x, y) * g(x, y) >= 0)
        det = []
        if len(n) == 3:
            i, j, k = n
            det.append(g(i, i) * (g(j, j) * g(k, k) - g(j, k) * g(j, k)) - g(i, j) * (g(i, j) * g(k, k) - g(j, k) * g(i, k))
                       + g(i, k) * (g(i, j) * g(j, k) - g(j, j) * g(i, k)) >= 0)
        return cs, det

    # -- bilinear form on expansions -------------------------------------------------------------------------
    def dot(self, la, lb):
        acc = SReal(0)
        for x, cx in la.items():
            for y, cy in lb.items():
                acc = acc + (cx * cy) * SReal(self.var(x, y))
        return SReal(z3.simplify(acc.t))

    def norm(self, la):
        return GNorm(self.dot(la, la).t)

    # -- coordinates ----------------------------------------------------------------------------------------------
    def link(self, coords):
        """Cut variables = dot products of the base vectors' coordinate terms (coords: base name -> three z3 terms)."""
        cs = []
        for x, y in itertools.combinations_with_replacement(self.names, 2):
            cs.append(self.var(x, y) == sum((a * b for a, b in zip(coords[x], coords[y])), rv(0)))
        return cs

    def realise(self, vals):
        """Concrete base vectors in R^3 with the Gram matrix given by the values of the cut variables."""
        n = len(self.names)
        G = np.zeros((n, n))
        for i, x in enumerate(self.names):
            for j, y in enumerate(self.names):
                G[i, j] = float(vals.get(self.name(x, y), 1.0 if i == j else 0.0))
        w, V = np.linalg.eigh(G)
        w = np.clip(w, 0.0, None)
        X = V * np.sqrt(w)  # rows: the vectors, in R^n
        out = np.zeros((n, 3))
        out[:, :n] = X
        # a fixed rotation, so that no vector sits on a coordinate axis by construction
        c, s = math.cos(0.7), math.sin(0.7)
        Rz = np.array([[c, -s, 0.0], [s, c, 0.0], [0.0, 0.0, 1.0]])
        Rx = np.array([[1.0, 0.0, 0.0], [0.0, c, -s], [0.0, s, c]])
        out = out @ (Rz @ Rx).T
        return {x: out[i] for i, x in enumerate(self.names)}
