"""C06 - UKF equals the Kalman filter on linear systems; covariances stay valid."""
from __future__ import annotations

import numpy as np
import z3

from symx.core import PI_F, TWOPI_F, SReal, assume, cur, eq_arrays, explore, free_vars, marray, mfloat, real, reals, rv, single_path, slice_for, terms
from symx.runner import Ob
from symx.ext_c16 import ResidualCut
from symx.stubs import CholeskyStub, inv_contract, shadow, sym_array, sym_full, sym_ones, sym_zeros

PI, TWOPI = rv(PI_F), rv(TWOPI_F)

ID = "C06"
TECHNIQUE = ("the real UnscentedKalmanFilter methods (__init__, generateSigmaPoints, predict, forecast, update, calcMeasurementMean, "
             "calculateMeasurementMatrix) are executed on z3 Real matrices (symbolic x, P=LL^T, F, Q, H, R, y, alpha, beta, kappa); each "
             "Kalman identity is a polynomial identity under polynomial hypotheses (gamma^2 = n+lambda, reciprocal and inverse contracts), "
             "decided by z3 after degree-bounded linearisation (QF_LRA) or by nlsat; unsat = equal for every linear system of that size")
FLOAT_SEMANTICS = "Real-ideal; tuning constants enter as exact symbols so that sqrt(n+lambda) is symbolic"
ENCODED = [
    "resonaate.estimation.kalman.unscented_kalman_filter:UnscentedKalmanFilter.__init__",
    "resonaate.estimation.kalman.unscented_kalman_filter:UnscentedKalmanFilter.generateSigmaPoints",
    "resonaate.estimation.kalman.unscented_kalman_filter:UnscentedKalmanFilter.predict",
    "resonaate.estimation.kalman.unscented_kalman_filter:UnscentedKalmanFilter.predictStateEstimate",
    "resonaate.estimation.kalman.unscented_kalman_filter:UnscentedKalmanFilter.predictCovariance",
    "resonaate.estimation.kalman.unscented_kalman_filter:UnscentedKalmanFilter.forecast",
    "resonaate.estimation.kalman.unscented_kalman_filter:UnscentedKalmanFilter.update",
    "resonaate.estimation.kalman.unscented_kalman_filter:UnscentedKalmanFilter.calcMeasurementMean",
    "resonaate.estimation.kalman.unscented_kalman_filter:UnscentedKalmanFilter.calculateMeasurementMatrix",
    "resonaate.estimation.kalman.unscented_kalman_filter:UnscentedKalmanFilter._calcMeasurementSigmaPoints",
    "resonaate.physics.maths:residuals", "resonaate.physics.statistics:chiSquareQuadraticForm",  # residuals() calls residual(): plain difference for non-angular components
]
BOUNDS = {"predict": "state dimension n = 1..3 (thorough 4), all F, Q, P = L L^T (L lower triangular, positive diagonal), alpha in (0,1], any beta, n+kappa > 0",
          "update": "n = 1..2 (thorough 3), stacked measurement dimension m = 1..2 (one or two observations), both resampling modes",
          "sequence": "predict-update-predict (n=1,2; m=1)"}
OUTSIDE = ["state dimensions above the bound (same code path, loops over num_sigmas; not proved)", "nonlinear dynamics/measurement models",
           "nearestPD fallback", "floating-point rounding, conditioning of inv/cholesky"]
ASSUMPTIONS = ["numpy.linalg.cholesky(M) -> the factor L the harness built M from, after the solver proved M = L L^T",
               "numpy.linalg.inv / scipy.linalg.inv -> fresh X with M X = X M = I (invertible innovation covariance is a domain condition)",
               "a / b with symbolic b -> a * ib, ib * b = 1; sqrt(x) -> g >= 0, g*g = x",
               "dynamics.propagate(t0, t1, X) = F X; measurement = H x (duck-typed linear models); julian dates concrete",
               "with S invertible, K S = C determines K uniquely, hence K is the Kalman gain (two-line argument outside the solver)",
               "update obligations: maths.residual(a, b, angular) -> a - b when not angular (what the real function does) and, should the filter flag a component of the linear measurement as an "
               "angle, the contract of the wrap (symx.ext_c16.ResidualCut: fresh r in (-pi, pi], r = a - b - 2 pi n; proved of the real residual() by C16 O2/O2s); the first obligation of every "
               "update case states that sigma_y_res and innovation are the plain differences; a counterexample to it is searched with the system matrices pinned to generic rationals (x, y free) "
               "on the wrap contracts alone and is replayed on the real filter"]
LEVEL_TEXT = ("Bounded symbolic verification: for every linear-Gaussian system of the stated small dimensions and every admissible tuning the UKF's "
              "prediction/update equal the Kalman equations as polynomial identities proved by the solver; this is universal in the matrices, which no finite set "
              "of numeric test systems is.")
LEVEL_NOTE = "Real arithmetic; dimensions bounded (n<=3, m<=2 quick); contracts for cholesky/inv/sqrt/division; uniqueness of the gain argued outside the solver."


class LinDyn:
    def __init__(self, F):
        self.F = F

    def propagate(self, t0, t1, X, scheduled_events=None):
        return self.F.dot(X)


class LinMeas:
    def __init__(self, H, angular=None):
        from resonaate.physics.measurements import IsAngle

        self.H = H
        self.angular_values = angular or [IsAngle.NOT_ANGLE] * H.shape[0]

    def calculateMeasurement(self, sen, tgt, utc, noisy=False):
        return {f"m{i}": self.H[i].dot(tgt) for i in range(self.H.shape[0])}


class Obs:
    julian_date = 2459000.5
    sensor_eci = np.zeros(6)

    def __init__(self, H, R, y, angular=None):
        self.measurement = LinMeas(H, angular)
        self.r_matrix = R
        self.measurement_states = y


def lower(prefix, n):
    L = np.empty((n, n), dtype=object)
    for i in range(n):
        for j in range(n):
            L[i, j] = real(f"{prefix}_{i}_{j}") if j <= i else SReal(0)
        assume(L[i, i].t > 0)
    return L


def make_filter(n, resample, chol, tuned=True):
    from resonaate.estimation.kalman import unscented_kalman_filter as U

    x = reals("x", n)
    L = lower("L", n)
    P = L.dot(L.T)
    chol.register(L)
    F = reals("F", n, n)
    Q = np.empty((n, n), dtype=object)  # symmetric process noise
    for i in range(n):
        for j in range(i + 1):
            Q[i, j] = Q[j, i] = real(f"Q_{i}_{j}")
    if tuned:
        alpha, beta, kappa = real("alpha"), real("beta"), real("kappa")
        assume(alpha.t > 0, alpha.t <= 1, kappa.t + n > 0)
    else:
        alpha, beta, kappa = SReal(1), SReal(2), SReal(3 - n)
    f = U.UnscentedKalmanFilter(1, 0.0, x, P, LinDyn(F), Q, None, False, False, resample=resample, alpha=alpha, beta=beta, kappa=kappa)
    return f, dict(x=x, L=L, P=P, F=F, Q=Q, alpha=alpha, beta=beta, kappa=kappa)


def ukf_env(chol, rc=None):
    from resonaate.estimation.kalman import unscented_kalman_filter as U
    from resonaate.physics import maths as M
    from resonaate.physics import statistics as ST

    ctx = [shadow(U, cholesky=chol, inv=inv_contract, zeros=sym_zeros, ones=sym_ones, full=sym_full, array=sym_array),
           shadow(ST, inv=inv_contract)]
    if rc is not None:
        # residual(a, b, angular=True) branches on the wrapped values; for a linear system the filter must never take that route.  Should
        # it (a component wrongly flagged as an angle), the run continues on the contract of the wrap instead of forking, so that the
        # update obligations return a verdict with a counterexample instead of a harness error
        ctx.append(shadow(M, residual=rc))
    return ctx


class Env:
    """Stubs for the duration of a run: module-global shadowing plus the default argument
    `sqrt_func=cholesky` of generateSigmaPoints (bound at definition time)."""

    def __init__(self, chol, rc=None):
        self.ctx = ukf_env(chol, rc)
        self.chol = chol

    def __enter__(self):
        from resonaate.estimation.kalman.unscented_kalman_filter import UnscentedKalmanFilter as K

        self.fn = K.generateSigmaPoints
        self.old = self.fn.__defaults__
        self.fn.__defaults__ = (self.chol,)
        for c in self.ctx:
            c.__enter__()

    def __exit__(self, *a):
        self.fn.__defaults__ = self.old
        for c in reversed(self.ctx):
            c.__exit__(*a)


def _sym(M):
    return eq_arrays(M, M.T)


# ----------------------------------------------------------------------------------------
def replay_predict(d):
    """Numeric replay on the real UKF (native numpy): compare with the Kalman prediction."""
    from resonaate.estimation.kalman.unscented_kalman_filter import UnscentedKalmanFilter

    n = d["n"]
    x, L, F, Q = np.array(d["x"]), np.array(d["L"]), np.array(d["F"]), np.array(d["Q"])
    P = L @ L.T
    f = UnscentedKalmanFilter(1, 0.0, x, P, LinDyn(F), Q, None, False, False, alpha=d["alpha"], beta=d["beta"], kappa=d["kappa"])
    f.predict(60.0)
    e1 = np.abs(f.pred_x - F @ x).max()
    e2 = np.abs(f.pred_p - (F @ P @ F.T + Q)).max()
    e3 = abs(f.mean_weight.sum() - 1)
    sc = max(1.0, np.abs(F @ P @ F.T + Q).max(), np.abs(F @ x).max()) / max(1e-300, min(1.0, d["alpha"] ** 2))
    return max(e1, e2, e3) > 1e-6 * sc, {"pred_x_err": e1, "pred_p_err": e2, "weights_sum_err": e3, "n": n}


def o1_predict(rep, n):
    chol = CholeskyStub()
    with single_path(recip=True) as p:
        with Env(chol):
            f, s = make_filter(n, False, chol)
            f.predict(60.0)
        cons = p.constraints()
        F, P, Q, x = s["F"], s["P"], s["Q"], s["x"]

        def inputs(m):
            return {"n": n, "x": marray(m, x), "L": marray(m, s["L"]), "F": marray(m, F), "Q": marray(m, Q), "alpha": mfloat(m, s["alpha"].t),
                    "beta": mfloat(m, s["beta"].t), "kappa": mfloat(m, s["kappa"].t)}

        rep.prove(f"weights-sum[n={n}]", sum(f.mean_weight, SReal(0)).t == 1, cons, linearize=True, inputs=inputs, replay=replay_predict, sample="sum of mean weights = 1")
        rep.prove(f"pred_x=Fx[n={n}]", eq_arrays(f.pred_x, F.dot(x)), cons, linearize=True, timeout_ms=120000, inputs=inputs, replay=replay_predict, sample="pred_x = F x")
        rep.prove(f"pred_p=FPF'+Q[n={n}]", eq_arrays(f.pred_p, F.dot(P).dot(F.T) + Q), cons, linearize=True, timeout_ms=120000, inputs=inputs, replay=replay_predict,
                  sample="pred_p = F P F^T + Q")
        rep.reachable(f"tuning-exists[n={n}]", [c for c in cons if True][:0] + [s["alpha"].t == rv(0.5), s["kappa"].t == 1] + _pos(s["L"]), timeout_ms=20000)


def replay_predict_times(d):
    """As replay_predict, with the filter's own time and the prediction time of the counterexample (a prediction over a zero-length span included)."""
    from resonaate.estimation.kalman.unscented_kalman_filter import UnscentedKalmanFilter

    x, L, F, Q = np.array(d["x"]), np.array(d["L"]), np.array(d["F"]), np.array(d["Q"])
    P = L @ L.T
    f = UnscentedKalmanFilter(1, d["t0"], x, P, LinDyn(F), Q, None, False, False)
    f.predict(d["tf"])
    e1 = np.abs(f.pred_x - F @ x).max()
    e2 = np.abs(f.pred_p - (F @ P @ F.T + Q)).max()
    sc = max(1.0, np.abs(F @ P @ F.T + Q).max(), np.abs(F @ x).max())
    return max(e1, e2) > 1e-6 * sc, {"pred_x_err": e1, "pred_p_err": e2, "t0": d["t0"], "tf": d["tf"]}


def o1_predict_times(rep, n):
    """The prediction equals the Kalman prediction whatever the filter time t0 and the prediction time tf >= t0 are (tf == t0 included:
    the multiple-model filters re-predict at the current epoch)."""
    def run():
        chol = CholeskyStub()
        with Env(chol):
            f, s = make_filter(n, False, chol, tuned=False)
            t0, tf = real("t0"), real("tf")
            assume(t0.t >= 0, tf.t >= t0.t, tf.t <= 10 ** 7)
            f.time = t0
            f.predict(tf)
        return f, s

    res = explore(run, max_paths=16, recip=True)
    if not res:
        rep.error("reach", "no path")
    for k, r in enumerate(res):
        if r.exc is not None:
            rep.error("exception", repr(r.exc))
            continue
        f, s = r.out
        F, P, Q, x = s["F"], s["P"], s["Q"], s["x"]

        def inputs(m, s=s):
            return {"n": n, "x": marray(m, s["x"]), "L": marray(m, s["L"]), "F": marray(m, s["F"]), "Q": marray(m, s["Q"]), "t0": mfloat(m, z3.Real("t0")), "tf": mfloat(m, z3.Real("tf"))}

        rep.prove(f"pred-any-times[n={n}]#{k}", z3.And(eq_arrays(f.pred_x, F.dot(x)), eq_arrays(f.pred_p, F.dot(P).dot(F.T) + Q)), r.constraints, linearize=True, timeout_ms=120000,
                  inputs=inputs, replay=replay_predict_times, sample="pred_x = F x and pred_p = F P F^T + Q for every filter time t0 and prediction time tf >= t0 (zero-length span included)")


def _pos(L):
    return [L[i, i].t > 0 for i in range(L.shape[0])]


# ----------------------------------------------------------------------------------------
def replay_update(d):
    from resonaate.estimation.kalman.unscented_kalman_filter import UnscentedKalmanFilter

    n, m, resample = d["n"], d["m"], d["resample"]
    x, L, F, Q = np.array(d["x"]), np.array(d["L"]), np.array(d["F"]), np.array(d["Q"])
    H, Lr, y = np.array(d["H"]), np.array(d["Lr"]), np.array(d["y"])
    P = L @ L.T
    R = Lr @ Lr.T
    f = UnscentedKalmanFilter(1, 0.0, x, P, LinDyn(F), Q, None, False, False, resample=resample, alpha=d.get("alpha", 1.0), beta=d.get("beta", 2.0), kappa=d.get("kappa", 3 - n))
    f.predict(60.0)
    if d.get("split"):
        k = d["split"]
        obs = [Obs(H[:k], R[:k, :k], y[:k]), Obs(H[k:], R[k:, k:], y[k:])]
    else:
        obs = [Obs(H, R, y)]
    f.update(obs)
    pp = F @ P @ F.T + Q
    Pi = pp if resample else F @ P @ F.T
    S = H @ Pi @ H.T + R
    C = Pi @ H.T
    K = C @ np.linalg.inv(S)
    ex = F @ x + K @ (y - H @ F @ x)
    ep = pp - K @ S @ K.T
    Ys = H @ f.sigma_points
    errs = {"innov_cvr": np.abs(f.innov_cvr - S).max(), "cross_cvr": np.abs(f.cross_cvr - C).max(), "est_x": np.abs(f.est_x - ex).max(),
            "est_p": np.abs(f.est_p - ep).max(), "innovation": np.abs(f.innovation - (y - H @ F @ x)).max(),
            "sigma_y_res": np.abs(f.sigma_y_res - (Ys - (Ys @ f.mean_weight).reshape(-1, 1))).max()}
    sc = max(1.0, np.abs(S).max(), np.abs(C).max(), np.abs(ex).max(), np.abs(ep).max(), np.abs(y).max(), np.abs(Ys).max())
    return bool(max(errs.values()) > 1e-6 * sc), {k: float(v) for k, v in errs.items()}


def _update_run(n, m, resample, split=None, tuned=False):
    """Executes predict + update of the real UKF symbolically; returns everything needed for the obligations."""
    chol = CholeskyStub()
    f, s = make_filter(n, resample, chol, tuned=tuned)
    H = reals("H", m, n)
    Lr = lower("Lr", m)
    if split:  # block-diagonal R for two stacked observations
        for i in range(m):
            for j in range(m):
                if (i < split) != (j < split):
                    Lr[i, j] = SReal(0)
    R = Lr.dot(Lr.T)
    y = reals("y", m)
    if resample:
        # re-parametrise Q := L' L'^T - F P F^T so that cholesky(pred_p) is the free factor L'
        Lp = lower("Lp", n)
        s["Lp"] = Lp
        Qn = Lp.dot(Lp.T) - s["F"].dot(s["P"]).dot(s["F"].T)
        f.q_matrix = Qn
        s["Q"] = Qn
        chol.register(Lp)
    f.predict(60.0)
    if split:
        obs = [Obs(H[:split], R[:split, :split], y[:split]), Obs(H[split:], R[split:, split:], y[split:])]
    else:
        obs = [Obs(H, R, y)]
    f.update(obs)
    s.update(H=H, Lr=Lr, R=R, y=y)
    return f, s


def _pins(s, H, Lr):
    """generic rational values for everything but the prior mean x and the measured values y (partial concretisation for the
    counterexample search only: with them the residuals are linear in x, y)"""
    out = []

    def pin(v, val):
        if isinstance(v, SReal) and z3.is_const(v.t) and v.t.decl().kind() == z3.Z3_OP_UNINTERPRETED:
            out.append(v.t == rv(val))

    n = s["L"].shape[0]
    for i in range(n):
        for j in range(n):
            pin(s["L"][i, j], 1 + 0.25 * i if i == j else 0.5)
            pin(s["F"][i, j], (1.0 if i == j else 0.0) + 0.125 * (i + 2 * j + 1))
            if "Lp" in s:
                pin(s["Lp"][i, j], 2 + 0.25 * i if i == j else 0.5)
            else:
                pin(s["Q"][i, j], 0.5 + 0.125 * i if i == j else 0.0625)
    for i in range(H.shape[0]):
        for j in range(n):
            pin(H[i, j], [1.0, -2.0, 0.5][(i + j) % 3])
        for j in range(H.shape[0]):
            pin(Lr[i, j], 1 + 0.25 * i if i == j else 0.5)
    return out


def _plain_residuals(rep, label, goal, cons, pins, rc, inputs):
    """Decides `goal` (sigma_y_res, innovation are the plain differences).  It is an identity of the
    terms the run produced unless the code sent a component through the angular residual; then a counterexample is searched with the
    system matrices pinned to generic rationals (x, y stay solver variables), on the wrap contracts alone (sliced: a candidate) and is
    replayed on the real filter - the replay decides."""
    from symx.core import refute

    v = refute(goal, [], 20000)
    if v.status == "unsat":
        rep._item(label, "prove", v)
        rep.sample({"obligation": f"{rep.ob}:{label}", "verdict": v.status, "what": "linear measurement: sigma_y_res = Y - mean, innovation = y - mean"})
        return True
    wraps = [z3.And(r > -PI, r <= PI, r == a - b - TWOPI * z3.ToReal(k)) for (r, k, a, b) in rc.calls]
    gram = [c for c in cons if z3.is_eq(c) and len(free_vars(c)) == 1] + [c for c in cons if len(free_vars(c)) == 1 and not z3.is_eq(c)]  # sqrt contract of gamma
    box = [z3.And(t >= -1000, t <= 1000) for t in terms(inputs.x) + terms(inputs.y)]
    for cand in (wraps + gram + pins + box, list(cons) + pins + box):
        if refute(goal, cand, 20000).status == "sat":
            return bool(rep.prove(label, goal, cand, timeout_ms=20000, inputs=inputs, replay=replay_update, sample="linear measurement: sigma_y_res = Y - mean, innovation = y - mean"))
    return bool(rep.prove(label, goal, cons, timeout_ms=60000, inputs=inputs, replay=replay_update, sample="linear measurement: sigma_y_res = Y - mean, innovation = y - mean"))


def o2_update(rep, n, m, resample, split=None):
    chol_holder = {}
    tag = f"n={n},m={m},{'redraw' if resample else 'no-redraw'}" + (f",split={split}" if split else "")
    with single_path(recip=True) as p:
        from resonaate.estimation.kalman import unscented_kalman_filter as U
        from resonaate.physics import statistics as ST

        chol = CholeskyStub()
        rc = ResidualCut()

        def mk():
            f, s = make_filter(n, resample, chol, tuned=False)
            return f, s

        with Env(chol, rc):
            f, s = mk()
            H = reals("H", m, n)
            Lr = lower("Lr", m)
            if split:
                for i in range(m):
                    for j in range(m):
                        if (i < split) != (j < split):
                            Lr[i, j] = SReal(0)
            R = Lr.dot(Lr.T)
            y = reals("y", m)
            if resample:
                Lp = lower("Lp", n)
                s["Lp"] = Lp
                Qn = Lp.dot(Lp.T) - s["F"].dot(s["P"]).dot(s["F"].T)
                f.q_matrix = Qn
                s["Q"] = Qn
                chol.register(Lp)
            f.predict(60.0)
            if split:
                obs = [Obs(H[:split], R[:split, :split], y[:split]), Obs(H[split:], R[split:, split:], y[split:])]
            else:
                obs = [Obs(H, R, y)]
            f.update(obs)
        cons = p.constraints()
        F, P, Q, x = s["F"], s["P"], s["Q"], s["x"]
        pp = F.dot(P).dot(F.T) + Q
        Pi = pp if resample else F.dot(P).dot(F.T)
        S = H.dot(Pi).dot(H.T) + R
        C = Pi.dot(H.T)

        def inputs(mo):
            d = {"n": n, "m": m, "resample": resample, "split": split, "x": marray(mo, x), "L": marray(mo, s["L"]), "F": marray(mo, F),
                 "H": marray(mo, H), "Lr": marray(mo, Lr), "y": marray(mo, y)}
            d["Q"] = marray(mo, Q)
            return d

        inputs.x, inputs.y = x, y

        kw = dict(linearize=True, timeout_ms=120000, inputs=inputs, replay=replay_update)
        # the measurement is linear (no component is an angle): residuals and innovation are plain differences
        Ys = H.dot(f.sigma_points)
        g_plain = z3.And(eq_arrays(f.sigma_y_res, Ys - np.asarray(f.mean_pred_y, dtype=object).reshape((m, 1))), eq_arrays(f.innovation, y - f.mean_pred_y))
        if not _plain_residuals(rep, f"plain-residuals[{tag}]", g_plain, cons, _pins(s, H, Lr), rc, inputs):
            rep.note(f"[{tag}] the Kalman identities below are functions of the residuals that already differ from the plain differences: not attempted")
            return
        rep.prove(f"pred_p[{tag}]", eq_arrays(f.pred_p, pp), cons, sample="pred_p = F P F^T + Q", **kw)
        rep.prove(f"mean_pred_y[{tag}]", eq_arrays(f.mean_pred_y, H.dot(F.dot(x))), cons, sample="predicted measurement = H pred_x", **kw)
        rep.prove(f"innov_cvr[{tag}]", eq_arrays(f.innov_cvr, S), cons, sample="innov_cvr = H Pi H^T + R", **kw)
        rep.prove(f"cross_cvr[{tag}]", eq_arrays(f.cross_cvr, C), cons, sample="cross_cvr = Pi H^T (Pi = pred_p when sigma points are redrawn, F P F^T otherwise)", **kw)
        rep.prove(f"gain[{tag}]", eq_arrays(f.kalman_gain.dot(f.innov_cvr), f.cross_cvr), cons, sample="kalman_gain innov_cvr = cross_cvr", **kw)
        rep.prove(f"est_x[{tag}]", eq_arrays(f.est_x, f.pred_x + f.kalman_gain.dot(y - H.dot(f.pred_x))), cons, sample="est_x = pred_x + K (y - H pred_x)", **kw)
        rep.prove(f"est_p[{tag}]", eq_arrays(f.est_p, f.pred_p - f.kalman_gain.dot(f.innov_cvr).dot(f.kalman_gain.T)), cons, sample="est_p = pred_p - K S K^T", **kw)
        # symmetry of the posterior: K S K^T with K S = C:  K S K^T = C K^T; symmetric because S symmetric
        rep.prove(f"est_p-symmetric[{tag}]", _sym(f.est_p), cons, sample="est_p symmetric", **kw)
        rep.reachable(f"inputs[{tag}]", _pos(s["L"]) + _pos(Lr))


def o4_noobs(rep, n):
    with single_path(recip=True) as p:
        chol = CholeskyStub()
        with Env(chol):
            f, s = make_filter(n, False, chol, tuned=False)
            f.predict(60.0)
            f.update([])
        cons = p.constraints()
        F, P, Q, x = s["F"], s["P"], s["Q"], s["x"]

        def inputs(m):
            return {"n": n, "x": marray(m, x), "L": marray(m, s["L"]), "F": marray(m, F), "Q": marray(m, Q), "alpha": 1.0, "beta": 2.0, "kappa": 3.0 - n}

        def replay(d):
            from resonaate.estimation.kalman.unscented_kalman_filter import UnscentedKalmanFilter

            x_, L_, F_, Q_ = np.array(d["x"]), np.array(d["L"]), np.array(d["F"]), np.array(d["Q"])
            g = UnscentedKalmanFilter(1, 0.0, x_, L_ @ L_.T, LinDyn(F_), Q_, None, False, False)
            g.predict(60.0)
            g.update([])
            e = max(np.abs(g.est_x - F_ @ x_).max(), np.abs(g.est_p - g.pred_p).max())
            return e > 1e-6 * max(1.0, np.abs(F_ @ x_).max()), {"err": e}

        rep.prove(f"noobs-est_x[n={n}]", z3.And(eq_arrays(f.est_x, F.dot(x)), eq_arrays(f.est_x, f.pred_x)), cons, linearize=True, inputs=inputs, replay=replay,
                  sample="no observations: est_x = propagated mean = pred_x")
        rep.prove(f"noobs-est_p[n={n}]", eq_arrays(f.est_p, f.pred_p), cons, linearize=True, inputs=inputs, replay=replay, sample="no observations: est_p = pred_p")


# ----------------------------------------------------------------------------------------
# O5: a step from the state an earlier step left behind, on the production schedule (prediction on a copy, result object applied
# to the owner; update on a copy that then replaces the owner)
# ----------------------------------------------------------------------------------------
def _clone(f):
    import copy

    return copy.deepcopy(f)


def _prod_step(owner, t, obs):
    """asyncPredict + EstPredictRegistration.processResults, then asyncUpdateEstimate + EstUpdateRegistration.processResults, as far as the filter goes."""
    c = _clone(owner)
    c.predict(t)
    c.getPredictionResult().apply(owner)
    c2 = _clone(owner)
    c2.update(obs)
    return c2


def replay_history(d):
    """A concrete history on the real filter (no abstraction): step 1 observed or not, step 2 observed; against the Kalman recursion."""
    from resonaate.estimation.kalman.unscented_kalman_filter import UnscentedKalmanFilter

    n, resample = d["n"], d["resample"]
    x, L, F = np.array(d["x"]), np.array(d["L"]), np.array(d["F"])
    H, Lr = np.array(d["H"]), np.array(d["Lr"])
    Lq = np.array(d["Lq"])
    P, R, Q = L @ L.T, Lr @ Lr.T, Lq @ Lq.T
    ys = [np.array(d["y1"]), np.array(d["y2"])]
    worst, where = 0.0, None
    for sched in ([d["first"] + "O"], ["OO", "-O", "O-O", "--O"])[1 if d.get("all_schedules", True) else 0]:
        f = UnscentedKalmanFilter(1, 0.0, x, P, LinDyn(F), Q, None, False, False, resample=resample)
        kx, kp = x.copy(), P.copy()
        for k, c in enumerate(sched):
            y = ys[k % 2]
            f = _prod_step(f, 60.0 * (k + 1), [Obs(H, R, y)] if c == "O" else [])
            px, pp, fpf = F @ kx, F @ kp @ F.T + Q, F @ kp @ F.T
            if c == "O":
                Pi = pp if resample else fpf
                S, C = H @ Pi @ H.T + R, Pi @ H.T
                K = C @ np.linalg.inv(S)
                kx, kp = px + K @ (y - H @ px), pp - K @ S @ K.T
            else:
                kx, kp = px, pp
            sc = max(1.0, np.abs(kx).max(), np.abs(kp).max())
            e = max(np.abs(f.est_x - kx).max(), np.abs(f.est_p - kp).max(), np.abs(f.pred_p - pp).max()) / sc
            if e > worst:
                worst, where = float(e), f"schedule {sched}, step {k + 1}"
    return worst > 1e-6, {"largest relative deviation from the Kalman recursion": worst, "where": where}


def o5_history(rep, n, m, resample, first):
    """Step 2 of a history.  Step 1 (observed 'O' or not '-') runs on the real code; then the estimate it defines is replaced by an arbitrary one
    (x2, P2 = L2 L2^T) while everything else the real code left on the filter object stays; step 2 must be the Kalman step from (x2, P2)."""
    tag = f"n={n},m={m},{'redraw' if resample else 'no-redraw'},after {'an observed' if first == 'O' else 'an unobserved'} step"
    with single_path(recip=True) as p:
        chol = CholeskyStub()
        rc = ResidualCut()
        with Env(chol, rc):
            owner, s = make_filter(n, resample, chol, tuned=False)
            H, Lr = reals("H", m, n), lower("Lr", m)
            R = Lr.dot(Lr.T)
            y1, y2 = reals("y1", m), reals("y2", m)
            F = s["F"]
            if resample:
                Lp = lower("Lp", n)
                owner.q_matrix = Lp.dot(Lp.T) - F.dot(s["P"]).dot(F.T)
                chol.register(Lp)
            owner = _prod_step(owner, 60.0, [Obs(H, R, y1)] if first == "O" else [])
            x2, L2 = reals("x2", n), lower("L2", n)
            P2 = L2.dot(L2.T)
            chol.register(L2)
            owner.est_x, owner.est_p = x2, P2
            Lq = lower("Lq", n)
            if resample:
                Q2 = Lq.dot(Lq.T) - F.dot(P2).dot(F.T)
                chol.register(Lq)
            else:
                Q2 = Lq.dot(Lq.T)
            owner.q_matrix = Q2
            f = _prod_step(owner, 120.0, [Obs(H, R, y2)])
        cons = p.constraints()
        pp = F.dot(P2).dot(F.T) + Q2
        Pi = pp if resample else F.dot(P2).dot(F.T)
        S, C = H.dot(Pi).dot(H.T) + R, Pi.dot(H.T)

        def inputs(mo):
            return {"n": n, "m": m, "resample": resample, "first": first, "x": marray(mo, s["x"]), "L": marray(mo, s["L"]), "F": marray(mo, F), "H": marray(mo, H),
                    "Lr": marray(mo, Lr), "Lq": marray(mo, Lq), "y1": marray(mo, y1), "y2": marray(mo, y2)}

        kw = dict(linearize=True, timeout_ms=120000, inputs=inputs, replay=replay_history, soft=True)
        rep.prove(f"pred_x[{tag}]", eq_arrays(f.pred_x, F.dot(x2)), cons, sample="second step: pred_x = F est_x", **kw)
        rep.prove(f"pred_p[{tag}]", eq_arrays(f.pred_p, pp), cons, sample="second step: pred_p = F est_p F^T + Q whatever the first step left on the filter object", **kw)
        rep.prove(f"innov_cvr[{tag}]", eq_arrays(f.innov_cvr, S), cons, sample="second step: innov_cvr = H Pi H^T + R", **kw)
        rep.prove(f"cross_cvr[{tag}]", eq_arrays(f.cross_cvr, C), cons, sample="second step: cross_cvr = Pi H^T (Pi = pred_p when sigma points are redrawn, F P F^T otherwise)", **kw)
        rep.prove(f"gain[{tag}]", eq_arrays(f.kalman_gain.dot(f.innov_cvr), f.cross_cvr), cons, sample="second step: K S = C", **kw)
        rep.prove(f"est_x[{tag}]", eq_arrays(f.est_x, f.pred_x + f.kalman_gain.dot(y2 - H.dot(f.pred_x))), cons, sample="second step: est_x = pred_x + K (y - H pred_x)", **kw)
        rep.prove(f"est_p[{tag}]", eq_arrays(f.est_p, f.pred_p - f.kalman_gain.dot(f.innov_cvr).dot(f.kalman_gain.T)), cons, sample="second step: est_p = pred_p - K S K^T", **kw)
        rep.reachable(f"inputs[{tag}]", _pos(s["L"]) + _pos(Lr) + _pos(L2) + _pos(Lq))


REPLAYS = {"O1": replay_predict, "O2": replay_update}


def obligations(tier):
    obs = []
    ns = (1, 2, 3) if tier == "quick" else (1, 2, 3, 4)
    for n in ns:
        obs.append(Ob(f"O1-n{n}", (lambda n: lambda rep: o1_predict(rep, n))(n), f"predict = Kalman prediction, n={n}, symbolic tuning", 300 if n < 4 else 900))
        if n <= 2:
            obs.append(Ob(f"O1t-n{n}", (lambda n: lambda rep: o1_predict_times(rep, n))(n), f"predict = Kalman prediction for every filter/prediction time, n={n}", 300))
            REPLAYS[f"O1t-n{n}"] = replay_predict_times
    cases = [(1, 1, False, None), (1, 1, True, None), (2, 1, False, None), (2, 1, True, None), (2, 2, False, None), (2, 2, True, None), (2, 2, False, 1), (2, 2, True, 1)]
    if tier == "thorough":
        cases += [(3, 1, False, None), (3, 1, True, None), (3, 2, False, 1), (3, 2, True, 1)]
    for (n, m, rs, sp) in cases:
        name = f"O2-n{n}m{m}{'r' if rs else 'k'}" + (f"s{sp}" if sp else "")
        obs.append(Ob(name, (lambda a: lambda rep: o2_update(rep, *a))((n, m, rs, sp)), f"update = Kalman update n={n} m={m} resample={rs} split={sp}", 600 if n < 3 else 1500))
    for (n, m) in ((1, 1), (2, 1)) + (((2, 2),) if tier == "thorough" else ()):
        for rs in (False, True):
            for first in ("O", "-"):
                name = f"O5-n{n}m{m}{'r' if rs else 'k'}-after{'obs' if first == 'O' else 'noobs'}"
                obs.append(Ob(name, (lambda a: lambda rep: o5_history(rep, *a))((n, m, rs, first)),
                              f"second step of a history on the production schedule (predict on a copy + result object, update on a copy): Kalman step from the current estimate, n={n} m={m} resample={rs}, first step {'observed' if first == 'O' else 'unobserved'}", 600))
    for n in (1, 2):
        obs.append(Ob(f"O4-n{n}", (lambda n: lambda rep: o4_noobs(rep, n))(n), "step without observations returns the propagated mean", 120))
    for name in list(REPLAYS):
        pass
    for o in obs:
        if o.name.startswith("O5"):
            REPLAYS[o.name] = replay_history
        elif o.name.startswith("O1") or o.name.startswith("O4"):
            REPLAYS[o.name] = replay_predict
        else:
            REPLAYS[o.name] = replay_update
    try:
        from harness import c06_more

        obs += c06_more.obligations(tier)
    except ImportError:
        pass
    return obs


# ---- additions (histories) ----
BOUNDS["histories (O5)"] = "second step of a two-step history on the production schedule (prediction on a deep copy, SeqFilterPredictResult applied to the owner, update on a deep copy that replaces the owner); first step observed or unobserved; n = 1, 2, m = 1 (thorough: n = 2, m = 2); both resampling modes; replays run the schedules OO, -O, O-O, --O on the real filter"
ASSUMPTIONS.append("O5 abstracts the estimate between the steps: est_x, est_p (and q_matrix, so that the Cholesky contract applies) are replaced by fresh symbols, every other attribute is what the real first step left on the object; a candidate from this over-approximation that the real two-step history does not reproduce leaves the item undecided (never a violation, never passed)")
ENCODED += ["resonaate.estimation.results:FilterResult.apply", "resonaate.estimation.results:FilterResult.fromFilter", "resonaate.estimation.sequential_filter:SequentialFilter.getPredictionResult"]
